#!/bin/bash
# Idempotent build: Coq development (full .vo), extraction, OCaml driver.
set -e
cd "$(dirname "$0")/../coq"
if [ ! -f Makefile ] || [ _CoqProject -nt Makefile ]; then
  coq_makefile -f _CoqProject -o Makefile >/dev/null
fi
timeout 3000 make -j16 >.make.log 2>&1 || { tail -40 .make.log; exit 1; }
mkdir -p ../bin
need=0
[ -x ../bin/model_driver ] || need=1
[ -f ../ocaml/model.ml ] || need=1
if [ $need = 0 ]; then
  # (Extract.vo is written by the extraction run itself, a moment after model.ml: it is not a reason to extract again)
  if [ -n "$(find . -name '*.vo' -newer ../ocaml/model.ml -not -path './Props/*' -not -path './Proofs/*' -not -name Extract.vo | head -1)" ] \
     || [ Extract.v -nt ../ocaml/model.ml ] || [ ../ocaml/driver.ml -nt ../bin/model_driver ]; then need=1; fi
fi
if [ $need = 1 ]; then
  timeout 600 coqc -Q . AV Extract.v >/dev/null
  mv -f model.ml model.mli ../ocaml/
  # link beside the target and rename: a check running at the same moment never sees a half-written driver
  (cd ../ocaml && { timeout 600 ocamlfind ocamlopt -w -a -O3 -unboxed-types model.mli model.ml driver.ml -o ../bin/model_driver.new 2>/dev/null \
     || timeout 600 ocamlfind ocamlopt -w -a model.mli model.ml driver.ml -o ../bin/model_driver.new; } && mv -f ../bin/model_driver.new ../bin/model_driver)
fi
exit 0
