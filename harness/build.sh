#!/bin/bash
# Idempotent build: Coq development (full .vo), extraction, OCaml driver.
set -e
cd "$(dirname "$0")/../coq"
if [ ! -f Makefile ] || [ _CoqProject -nt Makefile ]; then
  coq_makefile -f _CoqProject -o Makefile >/dev/null
fi
timeout 3000 make -j16 >.make.log 2>&1 || { tail -40 .make.log; exit 1; }
mkdir -p ../bin
need=0
[ -x ../bin/model_driver ] || need=1
[ -f ../ocaml/model.ml ] || need=1
if [ $need = 0 ]; then
  if [ -n "$(find . -name '*.vo' -newer ../ocaml/model.ml -not -path './Props/*' -not -path './Proofs/*' | head -1)" ] || [ ../ocaml/driver.ml -nt ../bin/model_driver ]; then need=1; fi
fi
if [ $need = 1 ]; then
  timeout 600 coqc -Q . AV Extract.v >/dev/null
  mv -f model.ml model.mli ../ocaml/
  (cd ../ocaml && timeout 600 ocamlfind ocamlopt -w -a -O3 -unboxed-types model.mli model.ml driver.ml -o ../bin/model_driver 2>/dev/null \
     || timeout 600 ocamlfind ocamlopt -w -a model.mli model.ml driver.ml -o ../bin/model_driver)
fi
exit 0
