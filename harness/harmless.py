#!/usr/bin/env python3
"""False-alarm test: run the checks against HARMLESS rewrites of the library (behaviour-preserving refactorings written
by sub-agents that saw only the property texts).  harmless.py import <agent-dir> <prefix>  |  harmless.py run [ids...]

import: for each <agent-dir>/<X>/patch.diff: applies in a scratch worktree of /repo, pinned test suite must give the
baseline pass/fail sets; kept as /verif/harmless/<prefix>-<X>/ {patch.diff, notes.md, meta.json}.
run: in a scratch worktree of /repo (env VERIF_REPO; /repo itself is not touched): apply, run the quick command of every check whose anchored files the patch touches (plus
C18, C19 which exercise everything), undo; any VIOLATION line is a false alarm to investigate. Writes harmless/RESULTS.json."""
import json
import os
import re
import shutil
import subprocess
import sys

VERIF = os.path.dirname(os.path.dirname(os.path.abspath(__file__)))
ROOT = os.path.join(VERIF, "harmless")


def sh(cmd, **kw):
    return subprocess.run(cmd, shell=True, capture_output=True, text=True, **kw)


def test_ids(wt):
    r = sh(f"cd {wt} && PYTHONPATH={wt} /venv/bin/python -m pytest -q -p no:cacheprovider --timeout=900 "
           f"--continue-on-collection-errors -rA 2>&1 | grep -E '^(PASSED|FAILED|ERROR) '", timeout=1800)
    return (sorted(l.split()[1] for l in r.stdout.splitlines() if l.startswith("PASSED")),
            sorted(l.split()[1] for l in r.stdout.splitlines() if not l.startswith("PASSED")))


def do_import(src, prefix):
    wt = f"/tmp/harmcheck-{prefix}"
    sh(f"git -C /repo worktree remove --force {wt}")
    assert sh(f"git -C /repo worktree add --detach {wt}").returncode == 0
    try:
        base = test_ids(wt)
        for x in sorted(os.listdir(src)):
            pd = os.path.join(src, x, "patch.diff")
            if not os.path.isfile(pd):
                continue
            sh(f"git -C {wt} checkout -- . && git -C {wt} clean -fdq")
            if sh(f"git -C {wt} apply {pd}").returncode != 0:
                print(prefix, x, "REJECTED: does not apply")
                continue
            same = test_ids(wt) == base
            print(prefix, x, "tests same:", same, "-> KEPT" if same else "-> REJECTED")
            if not same:
                continue
            out = os.path.join(ROOT, f"{prefix}-{x}")
            os.makedirs(out, exist_ok=True)
            shutil.copy(pd, out)
            n = os.path.join(src, x, "notes.md")
            if os.path.exists(n):
                shutil.copy(n, out)
            files = re.findall(r"^\+\+\+ b/(\S+)", open(pd).read(), re.M)
            json.dump({"id": f"{prefix}-{x}", "files": files, "tests_same_as_baseline": True},
                      open(os.path.join(out, "meta.json"), "w"), indent=1)
    finally:
        sh(f"git -C /repo worktree remove --force {wt}")


def checks_for(files):
    props = [json.loads(l) for l in open(os.path.join(VERIF, "properties.jsonl"))]
    sel = {"C18", "C19"}
    for p in props:
        if any(f in p.get("anchors", {}).get("files", []) for f in files):
            sel.add(p["id"])
    return sorted(sel)


def do_run(argv):
    """Runs against scratch worktrees of /repo (VERIF_REPO), so /repo itself is never touched.  --jobs=N runs N patches
    side by side (each in its own worktree, evidence and replays diverted with VERIF_OUT); --fast skips the proof step
    (which does not depend on the library source)."""
    from concurrent.futures import ThreadPoolExecutor
    ids = [a for a in argv if not a.startswith("--")]
    jobs = int(next((a.split("=", 1)[1] for a in argv if a.startswith("--jobs=")), "1"))
    fast = "--fast" in argv
    base = f"/tmp/harmrun-{os.getpid()}"
    man = json.load(open(os.path.join(VERIF, "MANIFEST.json")))
    cmds = {c["property_id"]: c["quick_cmd"] + (" --no-proof" if fast else "") for c in man["checks"]}
    ids = ids or sorted(d for d in os.listdir(ROOT) if os.path.isfile(os.path.join(ROOT, d, "patch.diff")))
    resf = os.path.join(ROOT, "RESULTS.json")
    results = json.load(open(resf)) if os.path.exists(resf) else {}

    def worker(k):
        wt = f"{base}/w{k}"
        assert sh(f"git -C /repo worktree add --detach {wt}").returncode == 0
        env = dict(os.environ, VERIF_REPO=wt)
        if jobs > 1:
            env["VERIF_OUT"] = f"{base}/out{k}"
        try:
            for hid in ids[k::jobs]:
                d = os.path.join(ROOT, hid)
                meta = json.load(open(os.path.join(d, "meta.json")))
                sh(f"git -C {wt} checkout -- . && git -C {wt} clean -fdq")
                if sh(f"git -C {wt} apply {os.path.join(d, 'patch.diff')}").returncode != 0:
                    print(hid, "patch does not apply")
                    continue
                out = {}
                for p in checks_for(meta["files"]):
                    r = sh(cmds[p], cwd=VERIF, timeout=3600, env=env)
                    viol = [l for l in r.stdout.splitlines() if l.startswith("VIOLATION")]
                    detail = [l.strip() for l in r.stdout.splitlines() if l.startswith("  ")][:2]
                    out[p] = {"exit": r.returncode, "violations": len(viol), "detail": detail}
                    print(hid, p, "ALARM " + " | ".join(detail)[:300] if viol else "quiet", flush=True)
                results[hid] = {"checks": out, "alarms": [p for p, v in out.items() if v["violations"]]}
        finally:
            sh(f"git -C /repo worktree remove --force {wt}")

    os.makedirs(base, exist_ok=True)
    try:
        with ThreadPoolExecutor(jobs) as ex:
            list(ex.map(worker, range(jobs)))
    finally:
        sh(f"rm -rf {base}; git -C /repo worktree prune")
        json.dump(results, open(resf, "w"), indent=1, sort_keys=True)
    return 0


if __name__ == "__main__":
    if sys.argv[1] == "import":
        do_import(sys.argv[2], sys.argv[3])
    else:
        sys.exit(do_run(sys.argv[2:]))
