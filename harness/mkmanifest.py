#!/usr/bin/env python3
"""Regenerates MANIFEST.json from the table below (kept next to the checks it describes)."""
import json
import os

VERIF = os.path.dirname(os.path.dirname(os.path.abspath(__file__)))

NOTE = ("Trusted base: Coq 8.16.1 kernel; extraction (ExtrOcamlBasic only) + OCaml 4.13.1; ocaml/driver.ml; the Python "
        "harness (generators, adapters, renumbering, exception mapping). Axioms: none (every Print Assumptions answers "
        "'Closed under the global context'; the check fails otherwise). The theorems are about the Gallina model; the "
        "tie to /repo is the differential correspondence run on every invocation (hand-written model, not a translator).")

# property -> (technique, level text, extra note, design section)
CHECKS = {
    "C01": ("Coq theorems about executable DFA/NFA reader models + differential correspondence against /repo via extracted model",
            "Proved for all valid DFAs/NFAs and all words (unbounded): stepwise reading yields the textbook run (one configuration per "
            "symbol, k-th NFA set = states reachable on the first k symbols under epsilon-closure), verdict = textbook acceptance, foreign "
            "symbol / missing transition rejects, only Reject is ever raised. Model tied to the code by exact comparison of yields, "
            "outcome kind, accepts_input, `in`, read_input on generated machines x words.",
            "Open known finding: a state named None (sentinel collision).", "7/C01"),
    "C05": ("Coq theorems about a specification model of DFA.minify / DFA.to_partial(minify=True) (state selection, implicit trap, "
            "Moore signature refinement to the coarsest finality-respecting congruence, quotient) + differential correspondence "
            "against /repo via the extracted model and the verified language comparator",
            "Proved for all valid DFAs (unbounded states/alphabet/word length), all 16 theorems closed under the global context: the model "
            "always returns a DFA (the refinement fuel |Q|+1 is proved sufficient); the result is valid, over the same alphabet, accepts "
            "exactly the source language; the Myhill-Nerode lower bound for the DFA record (complete competitors; arbitrary competitors when "
            "no state is dead); the result is minimal among complete DFAs when complete and among all DFAs when partial (Spec/Minimal.v), "
            "its partial flag is exact, a partial result has no dead state, minimising twice keeps the size, and the retained-name blocks are "
            "exactly the Nerode classes of the kept states; same guarantees for to_partial(minify=True); to_partial(minify=False) is valid, "
            "partial, language-preserving and keeps exactly the initial + reachable-and-co-accessible states. Refinement lemmas cls_k_spec / "
            "stable_is_nerode / refine_fuel hold for any deterministic system. Model tied to the code by: result passes validation, "
            "language equal to the source and to the model's result (verified dfa_diff), same state count, equal partition with "
            "retain_names=True, for minify(), minify(retain_names=True), to_partial(minify=True, retain_names=both), to_partial(minify=False) "
            "(language, size, trimness) and minify().minify(); thorough tier exhaustive over all partial DFAs with <= 3 states over 2 symbols.",
            "Hopcroft's splitter schedule and PartitionRefinement's bookkeeping are not modelled (the partition they must reach is unique and "
            "is what is compared).",
            "7/C05"),
}

PENDING = {}


def main():
    props = [json.loads(l) for l in open(os.path.join(VERIF, "properties.jsonl"))]
    checks, na = [], []
    for p in props:
        pid = p["id"]
        if pid in CHECKS:
            tech, text, extra, ref = CHECKS[pid]
            checks.append({
                "property_id": pid,
                "quick_cmd": f"/venv/bin/python harness/check.py {pid} --tier quick",
                "thorough_cmd": f"/venv/bin/python harness/check.py {pid} --tier thorough",
                "evidence_file": f"/verif/evidence/{pid}.json",
                "replay_cmd_template": "/venv/bin/python harness/check.py " + pid + " --replay {path}",
                "engine": "coq-model+extracted-driver",
                "level_claimed": {"category": "proof", "text": text, "design_ref": "DESIGN.md section " + ref},
                "level_note": NOTE + (" " + extra if extra else ""),
                "technique": tech,
            })
        else:
            na.append({"property_id": pid,
                       "reason": PENDING.get(pid, "check not built yet in this session (the technique applies; see DESIGN.md section 7)")})
    man = {
        "version": 1,
        "setup_cmd": "bash harness/build.sh",
        "hooks": {
            "guard": "CALEB531_AUTOMATA_VERIF",
            "enable": "no source hooks are needed: every observable is reached through the public API; checks import /repo's working tree directly",
            "baseline_off_cmd": "cd /repo && /venv/bin/python -m pytest -ra -q -p no:cacheprovider --timeout=900 --continue-on-collection-errors",
            "source_commits": [],
            "add_only": True,
        },
        "engines": [{
            "name": "coq-model+extracted-driver",
            "path": "/verif/coq, /verif/ocaml, /verif/harness",
            "serves_properties": [c["property_id"] for c in checks],
            "kind_free_text": "Rocq/Coq 8.16.1 development (models, specs, proofs; one Props/P_Cxx.v per property) + extracted OCaml model driver + Python differential harness",
        }],
        "checks": checks,
        "not_applicable": na,
        "notes": "See DESIGN.md. known_findings.json lists recorded defects; seeded/ holds validated property-breaking changes.",
    }
    with open(os.path.join(VERIF, "MANIFEST.json"), "w") as f:
        json.dump(man, f, indent=1)


if __name__ == "__main__":
    main()
