#!/usr/bin/env python3
"""Regenerates MANIFEST.json from the table below (kept next to the checks it describes)."""
import json
import os

VERIF = os.path.dirname(os.path.dirname(os.path.abspath(__file__)))

NOTE = ("Trusted base: Coq 8.16.1 kernel; extraction (ExtrOcamlBasic only) + OCaml 4.13.1; ocaml/driver.ml; the Python "
        "harness (generators, adapters, renumbering, exception mapping). Axioms: none (every Print Assumptions answers "
        "'Closed under the global context'; the check fails otherwise). The theorems are about the Gallina model; the "
        "tie to /repo is the differential correspondence run on every invocation (hand-written model, not a translator).")

# property -> (technique, level text, extra note, design section)
CHECKS = {
    "C01": ("Coq theorems about executable DFA/NFA reader models + differential correspondence against /repo via extracted model",
            "Proved for all valid DFAs/NFAs and all words (unbounded): stepwise reading yields the textbook run (one configuration per "
            "symbol, k-th NFA set = states reachable on the first k symbols under epsilon-closure), verdict = textbook acceptance, foreign "
            "symbol / missing transition rejects, only Reject is ever raised. Model tied to the code by exact comparison of yields, "
            "outcome kind, accepts_input, `in`, read_input on generated machines x words.",
            "Open known finding: a state named None (sentinel collision).", "7/C01"),
    "C16": ("Coq theorems about a mirror model of NFA.edit_distance's (position, errors) grid against an inductive edit-derivation "
            "relation + differential correspondence (verified subset-construction comparator, DP oracle) against /repo",
            "Proved for every alphabet, reference word over it, bound k >= 0 and non-empty set of kinds (unbounded): the construction "
            "succeeds, the NFA is valid, and its textbook language (all words over all symbols) is exactly the set of words derivable "
            "from the reference by at most k enabled edits (match / insertion / deletion / substitution steps; a substitution by the same "
            "symbol costs 1, as in the code); ValueError exactly for k < 0 or no enabled kind. The edit relation itself is tied to the "
            "classical recursive Levenshtein distance (all three kinds: accepted words over the alphabet = words at distance <= k; any "
            "subset of kinds: cost >= distance) and checked by three sanity theorems (cost 0 = the reference itself, length difference "
            "<= cost, Hamming case keeps the length). Model tied "
            "to the code by language equality + validity of implementation NFA vs model NFA and by verdicts of implementation, model and "
            "an independent DP oracle on all words up to length 6, exhaustively for all references of length <= 4 over 1 and 2 symbols, "
            "k <= 3, all 7 kind subsets (thorough: length <= 6 over 2 symbols with k <= 4, length <= 5 over 3 symbols).",
            "The comparator is run with an explicit exploration budget (Model/D16.v nfa_diff_budget) because the built-in 2^|A|*2^|B| "
            "budget of Model/Decide.v is a unary number in the extracted code.", "7/C16"),
    "C18": ("Coq theorems about a mirror model of freeze_value / Automaton.__init__ / copy / pickle / attribute blocking over a rose "
            "tree of Python values + differential correspondence and an operand-mutation monitor against /repo",
            "PARTIAL. Proved (unbounded, for every Python value whose set members and dict keys are hashable): the frozen value contains "
            "no mutable container at any depth, has the same content (freeze = conversion of every container to its immutable kind), "
            "freezing is idempotent; the constructor stores deeply immutable values with the given content; copy() and a pickle round "
            "trip give the same class and an identical definition (same option setting; same content across settings); every attribute "
            "write/delete raises and no history of them changes the object. A proved Example shows the pre-repair freeze_value (tuples "
            "not entered) violates deep immutability on ('q1', ['Z']). NOT proved, monitored on every run: aliasing between Python "
            "objects, i.e. that no operation writes into a table it shares with an operand - the harness deep-snapshots every automaton "
            "alive in a session of public calls (all DFA/NFA/GNFA operations, queries and conversions; PDA/TM reads) before and after "
            "every call, under both settings of allow_mutable_automata, mutates the original constructor arguments after construction, "
            "and walks the stored definition of all 8 classes for mutable values.",
            "Model of frozendict follows the installed pure-Python build (a dict subclass, so an already frozen dict is rebuilt by "
            "freeze_value); identity/aliasing and the process-wide option flags are outside the model.", "7/C18"),
}

PENDING = {}


def main():
    props = [json.loads(l) for l in open(os.path.join(VERIF, "properties.jsonl"))]
    checks, na = [], []
    for p in props:
        pid = p["id"]
        if pid in CHECKS:
            tech, text, extra, ref = CHECKS[pid]
            checks.append({
                "property_id": pid,
                "quick_cmd": f"/venv/bin/python harness/check.py {pid} --tier quick",
                "thorough_cmd": f"/venv/bin/python harness/check.py {pid} --tier thorough",
                "evidence_file": f"/verif/evidence/{pid}.json",
                "replay_cmd_template": "/venv/bin/python harness/check.py " + pid + " --replay {path}",
                "engine": "coq-model+extracted-driver",
                "level_claimed": {"category": "proof", "text": text, "design_ref": "DESIGN.md section " + ref},
                "level_note": NOTE + (" " + extra if extra else ""),
                "technique": tech,
            })
        else:
            na.append({"property_id": pid,
                       "reason": PENDING.get(pid, "check not built yet in this session (the technique applies; see DESIGN.md section 7)")})
    man = {
        "version": 1,
        "setup_cmd": "bash harness/build.sh",
        "hooks": {
            "guard": "CALEB531_AUTOMATA_VERIF",
            "enable": "no source hooks are needed: every observable is reached through the public API; checks import /repo's working tree directly",
            "baseline_off_cmd": "cd /repo && /venv/bin/python -m pytest -ra -q -p no:cacheprovider --timeout=900 --continue-on-collection-errors",
            "source_commits": [],
            "add_only": True,
        },
        "engines": [{
            "name": "coq-model+extracted-driver",
            "path": "/verif/coq, /verif/ocaml, /verif/harness",
            "serves_properties": [c["property_id"] for c in checks],
            "kind_free_text": "Rocq/Coq 8.16.1 development (models, specs, proofs; one Props/P_Cxx.v per property) + extracted OCaml model driver + Python differential harness",
        }],
        "checks": checks,
        "not_applicable": na,
        "notes": "See DESIGN.md. known_findings.json lists recorded defects; seeded/ holds validated property-breaking changes.",
    }
    with open(os.path.join(VERIF, "MANIFEST.json"), "w") as f:
        json.dump(man, f, indent=1)


if __name__ == "__main__":
    main()
