#!/usr/bin/env python3
"""Regenerates MANIFEST.json from the table below (kept next to the checks it describes)."""
import json
import os

VERIF = os.path.dirname(os.path.dirname(os.path.abspath(__file__)))

NOTE = ("Trusted base: Coq 8.16.1 kernel; extraction (ExtrOcamlBasic only) + OCaml 4.13.1; ocaml/driver.ml; the Python "
        "harness (generators, adapters, renumbering, exception mapping). Axioms: none (every Print Assumptions answers "
        "'Closed under the global context'; the check fails otherwise). The theorems are about the Gallina model; the "
        "tie to /repo is the differential correspondence run on every invocation (hand-written model, not a translator).")

# property -> (technique, level text, extra note, design section)
CHECKS = {
    "C01": ("Coq theorems about executable DFA/NFA reader models + differential correspondence against /repo via extracted model",
            "Proved for all valid DFAs/NFAs and all words (unbounded): stepwise reading yields the textbook run (one configuration per "
            "symbol, k-th NFA set = states reachable on the first k symbols under epsilon-closure), verdict = textbook acceptance, foreign "
            "symbol / missing transition rejects, only Reject is ever raised. Model tied to the code by exact comparison of yields, "
            "outcome kind, accepts_input, `in`, read_input on generated machines x words.",
            "Open known finding: a state named None (sentinel collision).", "7/C01"),
    "C06": ("Coq theorems about the lazy cross-product search and the verified comparator + differential correspondence",
            "Proved for all valid DFA pairs over a common alphabet (unbounded sizes): ==, !=, <=, <, >=, >, issubset, issuperset, isdisjoint "
            "return a boolean (never an error) that is exactly the corresponding statement about the two languages; isempty likewise; "
            "different alphabets are refused. The relevance-flag skipping of the lazy product is justified inside the proof. "
            "== is a specification model (Hopcroft-Karp bookkeeping not modelled; its boolean is compared). isfinite: executable "
            "model (acyclicity of the useful subgraph) validated by correspondence only - no theorem yet.",
            "", "7/C06"),
    "C10": ("Coq theorems about a mirror model of the regex front end (lexer, validator, concat insertion, shunting-yard, postfix "
            "evaluation) and of NFARegexBuilder + differential correspondence against /repo via extracted model",
            "Proved for all ASTs, alphabets and words (unbounded): the built NFA accepts exactly the denotation for literals, wildcard, "
            "| & ^, concatenation, * + ? and {lo,hi} {lo,} {,hi} with every bound shape (C10_build_lang, with the fragment invariant "
            "C10_fragment_invariant); NFA.from_regex as a whole returns a valid NFA with the denoted language (C10_from_regex_sound) and cannot fail on literals of the alphabet (C10_from_regex_total); "
            "parsing the minimal-parenthesis printing of any AST returns the AST (precedence postfix > concatenation > binary, left "
            "associative), a redundant outer pair of parentheses and blanks at token boundaries change nothing. Partial: printing is at "
            "token level (no decimal rendering of bounds to characters); redundant parentheses are proved for the outer pair only, inner "
            "ones are covered by the correspondence. Model tied to the code by nfa_diff between from_regex's NFA and the model's, exact "
            "AST comparison, and accepts_input vs an independent evaluator on all words up to length 6.",
            "Defect demonstrated on the unrepaired tree: upper bound 0 (a{0,0}) still accepts one copy.", "7/C10"),
    "C11": ("Coq theorems about the same regex front-end model and a model of regex.py's helpers + differential correspondence "
            "(exhaustive small token sequences) against /repo via extracted model",
            "Proved for all character strings (unbounded): what regex.validate accepts goes through the whole front end without error "
            "(C11_validated_compiles; C11_validated_from_regex_ok: from_regex then returns an NFA unless a literal is a lone brace / outside the given alphabet), what it refuses from_regex refuses with the same regex error type (C11_invalid_is_regex_error), "
            "what compiles validates (C11_compiles_validates); isequal/issubset/issuperset over a common alphabet answer exactly "
            "equality/inclusion of the denotations whenever they answer (C11_*_exact, resting on the verified comparator nfa_diff) and "
            "fail only as one of the two from_regex calls fails. Partial: 'validated iff in the grammar' is proved in one direction "
            "(C11_grammar_validates_partial; full statement kept as C11_validate_iff_grammar_statement); NFA.union inside "
            "issubset/issuperset is modelled by the builder's union (NFA.union itself belongs to C08); the comparator can answer "
            "'out of fuel' on very large operands (reported, never silently accepted).",
            "Defect demonstrated on the unrepaired tree: a blank-only regex passes validate but from_regex raises IndexError.", "7/C11"),
}

PENDING = {}


def main():
    props = [json.loads(l) for l in open(os.path.join(VERIF, "properties.jsonl"))]
    checks, na = [], []
    for p in props:
        pid = p["id"]
        if pid in CHECKS:
            tech, text, extra, ref = CHECKS[pid]
            checks.append({
                "property_id": pid,
                "quick_cmd": f"/venv/bin/python harness/check.py {pid} --tier quick",
                "thorough_cmd": f"/venv/bin/python harness/check.py {pid} --tier thorough",
                "evidence_file": f"/verif/evidence/{pid}.json",
                "replay_cmd_template": "/venv/bin/python harness/check.py " + pid + " --replay {path}",
                "engine": "coq-model+extracted-driver",
                "level_claimed": {"category": "proof", "text": text, "design_ref": "DESIGN.md section " + ref},
                "level_note": NOTE + (" " + extra if extra else ""),
                "technique": tech,
            })
        else:
            na.append({"property_id": pid,
                       "reason": PENDING.get(pid, "check not built yet in this session (the technique applies; see DESIGN.md section 7)")})
    man = {
        "version": 1,
        "setup_cmd": "bash harness/build.sh",
        "hooks": {
            "guard": "CALEB531_AUTOMATA_VERIF",
            "enable": "no source hooks are needed: every observable is reached through the public API; checks import /repo's working tree directly",
            "baseline_off_cmd": "cd /repo && /venv/bin/python -m pytest -ra -q -p no:cacheprovider --timeout=900 --continue-on-collection-errors",
            "source_commits": [],
            "add_only": True,
        },
        "engines": [{
            "name": "coq-model+extracted-driver",
            "path": "/verif/coq, /verif/ocaml, /verif/harness",
            "serves_properties": [c["property_id"] for c in checks],
            "kind_free_text": "Rocq/Coq 8.16.1 development (models, specs, proofs; one Props/P_Cxx.v per property) + extracted OCaml model driver + Python differential harness",
        }],
        "checks": checks,
        "not_applicable": na,
        "notes": "See DESIGN.md. known_findings.json lists recorded defects; seeded/ holds validated property-breaking changes.",
    }
    with open(os.path.join(VERIF, "MANIFEST.json"), "w") as f:
        json.dump(man, f, indent=1)


if __name__ == "__main__":
    main()
