#!/usr/bin/env python3
"""Regenerates MANIFEST.json from the table below (kept next to the checks it describes)."""
import json
import os

VERIF = os.path.dirname(os.path.dirname(os.path.abspath(__file__)))

NOTE = ("Trusted base: Coq 8.16.1 kernel; extraction (ExtrOcamlBasic only) + OCaml 4.13.1; ocaml/driver.ml; the Python "
        "harness (generators, adapters, renumbering, exception mapping). Axioms: none (every Print Assumptions answers "
        "'Closed under the global context'; the check fails otherwise). The theorems are about the Gallina model; the "
        "tie to /repo is the differential correspondence run on every invocation (hand-written model, not a translator).")

# property -> (technique, level text, extra note, design section)
CHECKS = {
    "C01": ("Coq theorems about executable DFA/NFA reader models + differential correspondence against /repo via extracted model",
            "Proved for all valid DFAs/NFAs and all words (unbounded): stepwise reading yields the textbook run (one configuration per "
            "symbol, k-th NFA set = states reachable on the first k symbols under epsilon-closure), verdict = textbook acceptance, foreign "
            "symbol / missing transition rejects, only Reject is ever raised. Model tied to the code by exact comparison of yields, "
            "outcome kind, accepts_input, `in`, read_input on generated machines x words.",
            "Open known finding: a state named None (sentinel collision).", "7/C01"),
    "C13": ("Coq theorems about executable models of the count / word-list recurrences, BFS minimum length, layered maximum "
            "length, cardinality, iteration and count-weighted unranking + differential correspondence against /repo "
            "(all observables compared literally; randint draws reproduced from Random(seed); all draw vectors enumerated "
            "through a scripted generator)",
            "Proved for all valid DFAs, all lengths k, all draw vectors (unbounded): count_words_of_length = number of accepted "
            "words of length k; words_of_length = the lexicographic listing filtered by acceptance (sorted, duplicate-free, "
            "complete); minimum_word_length exact / EmptyLanguageException iff the language is empty; maximum_word_length exact, "
            "None iff the language is infinite (pumping), Empty iff empty; cardinality = number of accepted words / "
            "InfiniteLanguageException iff infinite / 0 if empty; iteration = prefix of the (length, lexicographic) listing, "
            "complete for finite languages, nothing for the empty language; random_word returns an accepted word of length k "
            "for every admissible draw vector, ValueError iff there is no such word. PARTIAL: (a) iteration of an infinite "
            "language - the model's level budget is not proved sufficient (C13_iter_order_complete_partial allows an "
            "out-of-fuel answer there; the harness treats it as a disagreement); (b) uniformity of random_word - proved as the "
            "per-step interval lemma plus the telescoping product identity (C13_random_word_uniform_partial); the count of whole "
            "draw vectors (C13_random_word_uniform_statement) is not formalised, it is enumerated by the harness instead.",
            "Assumes Random.randint is uniform (the model takes the drawn integers as an argument). networkx "
            "(digraph, dag_longest_path_length) is outside the model: maximum_word_length is a specification model. "
            "Demonstrates DESIGN section 8 row 7 on the unchanged tree (iterating an empty language raises).", "7/C13"),
    "C20": ("Coq state-machine model of the DFA object (definition + count cache + word cache + cached_method memos) with an "
            "invariant proof over arbitrary query histories + differential correspondence: random histories on one instance vs a "
            "fresh copy vs the model",
            "Proved for all valid DFAs and all finite histories (unbounded length) of count / words / abandoned words generator / "
            "random_word / cardinality / min / max / isempty / isfinite / abandoned iteration / clear_cache: every stored cache "
            "level equals the from-scratch level, every memo is empty or holds the stateless answer (cache_inv, kept by every "
            "step), hence the answer to any query after any history equals the stateless C13 answer (C20_history_independent), "
            "in particular shorter-after-longer lengths and answers after clear_cache.",
            "Not in the model (compared against a fresh object by the harness only): accepts_input, ==, <=, successor(s), "
            "NFA queries (accepts_input, partially consumed read_input_stepwise, ==, DFA.from_nfa - the latter also checked "
            "with the verified NFA/DFA comparator, eliminate_lambda, reverse). Python object identity / generator "
            "suspension semantics are modelled (an abandoned generator = the effects up to its n-th item), not verified. "
            "cached_method raises RuntimeError when called on a temporary object (third-party behaviour, outside the property).",
            "7/C20"),
}

PENDING = {}


def main():
    props = [json.loads(l) for l in open(os.path.join(VERIF, "properties.jsonl"))]
    checks, na = [], []
    for p in props:
        pid = p["id"]
        if pid in CHECKS:
            tech, text, extra, ref = CHECKS[pid]
            checks.append({
                "property_id": pid,
                "quick_cmd": f"/venv/bin/python harness/check.py {pid} --tier quick",
                "thorough_cmd": f"/venv/bin/python harness/check.py {pid} --tier thorough",
                "evidence_file": f"/verif/evidence/{pid}.json",
                "replay_cmd_template": "/venv/bin/python harness/check.py " + pid + " --replay {path}",
                "engine": "coq-model+extracted-driver",
                "level_claimed": {"category": "proof", "text": text, "design_ref": "DESIGN.md section " + ref},
                "level_note": NOTE + (" " + extra if extra else ""),
                "technique": tech,
            })
        else:
            na.append({"property_id": pid,
                       "reason": PENDING.get(pid, "check not built yet in this session (the technique applies; see DESIGN.md section 7)")})
    man = {
        "version": 1,
        "setup_cmd": "bash harness/build.sh",
        "hooks": {
            "guard": "CALEB531_AUTOMATA_VERIF",
            "enable": "no source hooks are needed: every observable is reached through the public API; checks import /repo's working tree directly",
            "baseline_off_cmd": "cd /repo && /venv/bin/python -m pytest -ra -q -p no:cacheprovider --timeout=900 --continue-on-collection-errors",
            "source_commits": [],
            "add_only": True,
        },
        "engines": [{
            "name": "coq-model+extracted-driver",
            "path": "/verif/coq, /verif/ocaml, /verif/harness",
            "serves_properties": [c["property_id"] for c in checks],
            "kind_free_text": "Rocq/Coq 8.16.1 development (models, specs, proofs; one Props/P_Cxx.v per property) + extracted OCaml model driver + Python differential harness",
        }],
        "checks": checks,
        "not_applicable": na,
        "notes": "See DESIGN.md. known_findings.json lists recorded defects; seeded/ holds validated property-breaking changes.",
    }
    with open(os.path.join(VERIF, "MANIFEST.json"), "w") as f:
        json.dump(man, f, indent=1)


if __name__ == "__main__":
    main()
