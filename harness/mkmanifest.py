#!/usr/bin/env python3
"""Regenerates MANIFEST.json from the table below (kept next to the checks it describes)."""
import json
import os

VERIF = os.path.dirname(os.path.dirname(os.path.abspath(__file__)))

NOTE = ("Trusted base: Coq 8.16.1 kernel; extraction (ExtrOcamlBasic only) + OCaml 4.13.1; ocaml/driver.ml; the Python "
        "harness (generators, adapters, renumbering, exception mapping). Axioms: none (every Print Assumptions answers "
        "'Closed under the global context'; the check fails otherwise). The theorems are about the Gallina model; the "
        "tie to /repo is the differential correspondence run on every invocation (hand-written model, not a translator).")

# property -> (technique, level text, extra note, design section)
CHECKS = {
    "C01": ("Coq theorems about executable DFA/NFA reader models + differential correspondence against /repo via extracted model",
            "Proved for all valid DFAs/NFAs and all words (unbounded): stepwise reading yields the textbook run (one configuration per "
            "symbol, k-th NFA set = states reachable on the first k symbols under epsilon-closure), verdict = textbook acceptance, foreign "
            "symbol / missing transition rejects, only Reject is ever raised. Model tied to the code by exact comparison of yields, "
            "outcome kind, accepts_input, `in`, read_input on generated machines x words.",
            "Open known finding: a state named None (sentinel collision).", "7/C01"),
    "C06": ("Coq theorems about the lazy cross-product search and the verified comparator + differential correspondence",
            "Proved for all valid DFA pairs over a common alphabet (unbounded sizes): ==, !=, <=, <, >=, >, issubset, issuperset, isdisjoint "
            "return a boolean (never an error) that is exactly the corresponding statement about the two languages; isempty likewise; "
            "different alphabets are refused. The relevance-flag skipping of the lazy product is justified inside the proof. "
            "== is a specification model (Hopcroft-Karp bookkeeping not modelled; its boolean is compared). isfinite: executable "
            "model (acyclicity of the useful subgraph) validated by correspondence only - no theorem yet.",
            "", "7/C06"),
    "C04": ("Coq theorems about the lazy product + generic graph-to-DFA builder + differential correspondence via proved comparator",
            "Proved for all valid DFA pairs over a common alphabet and all words (unbounded): union, intersection, difference and symmetric "
            "difference return a valid DFA whose verdict on every word is the Boolean operation of the operands' verdicts (every "
            "complete/partial mix; relevance-flag skipping justified in the proof); different alphabets are refused; every finite expression "
            "tree of the four binary operations evaluates to a valid DFA with the tree's semantics. complement / to_complete / to_partial: "
            "executable models validated by correspondence (language equality with the source decided by the proved comparator, totality); "
            "their language theorems are not proved yet (partial). minify=True results are judged by language here and by size in C05.",
            "", "7/C04"),
    "C07": ("Coq theorems about the subset construction (generic builder) and NFA.from_dfa + correspondence via proved comparators",
            "Proved for all valid NFAs/DFAs (unbounded): whenever the subset construction returns (always up to 14 NFA states; fixed large "
            "budget beyond) the result is a valid DFA with exactly the NFA's language; NFA.from_dfa gives a valid NFA with the DFA's language; "
            "the comparators nfa_diff / nfa_dfa_diff used to judge implementation results decide language equality exactly. "
            "eliminate_lambda: implementation results are judged on every run by the proved comparator (same language as the source), "
            "validity, no empty-string key, all states reachable; the mirror model and its language theorem are part of C08 (partial here).",
            "", "7/C07"),
    "C09": ("Coq theorems about the verified NFA comparator (subset construction on the fly) + differential correspondence",
            "Proved for all valid NFA pairs (unbounded): whenever == / != return (always for <= 14 states in total) they are exactly language "
            "(in)equality; the answer is symmetric and equals DFA equality of the determinisations. Specification model: the union-find "
            "bookkeeping of NFA.__eq__ is not modelled, its boolean is compared on generated pairs incl. built-equivalent pairs.",
            "", "7/C09"),
    "C14": ("Coq theorems about an executable specification model (filter over the dictionary-order enumeration) + proved exactness of "
            "the finiteness test + differential correspondence (exact word lists) against /repo via the extracted model",
            "Proved for all valid DFAs, all start words (None, empty, rejected, unreadable, longer than max_length - nothing is assumed "
            "about them), both strictness values, all windows (unbounded sizes): the dictionary order is a decidable strict total order "
            "(prefix first, then first differing symbol); the model's successor list is strictly increasing, duplicate-free and contains "
            "exactly the accepted words of the window after start (or equal to it when not strict); predecessors likewise in decreasing "
            "order; that sequence is unique; strict=False adds exactly the start word; successor/predecessor are the head = least/greatest "
            "element, None iff the set is empty; predecessors are refused iff the language is infinite (isfinite model proved exact, no "
            "other error possible); without max_length the state-count bound loses no word of a finite language. Additionally a mirror model "
            "of the explicit stack machine of DFA.successors (both directions, with the row-8 repair) is proved to generate exactly that "
            "list whenever it returns (partial correctness, theorems ..._partial; termination within the driver's budget is not proved, "
            "an Err Fuel answer fails the check). The implementation's output (whole generated list, single-step result, exception "
            "kind) is compared literally with both models on generated DFAs x keys x starts x windows x directions.",
            "Symbols are numbered by rank under the user's key (injective keys only). Open known findings: start string with a symbol "
            "outside the alphabet (KeyError), empty alphabet (IndexError).", "7/C14"),
}

PENDING = {}


def main():
    props = [json.loads(l) for l in open(os.path.join(VERIF, "properties.jsonl"))]
    checks, na = [], []
    for p in props:
        pid = p["id"]
        if pid in CHECKS:
            tech, text, extra, ref = CHECKS[pid]
            checks.append({
                "property_id": pid,
                "quick_cmd": f"/venv/bin/python harness/check.py {pid} --tier quick",
                "thorough_cmd": f"/venv/bin/python harness/check.py {pid} --tier thorough",
                "evidence_file": f"/verif/evidence/{pid}.json",
                "replay_cmd_template": "/venv/bin/python harness/check.py " + pid + " --replay {path}",
                "engine": "coq-model+extracted-driver",
                "level_claimed": {"category": "proof", "text": text, "design_ref": "DESIGN.md section " + ref},
                "level_note": NOTE + (" " + extra if extra else ""),
                "technique": tech,
            })
        else:
            na.append({"property_id": pid,
                       "reason": PENDING.get(pid, "check not built yet in this session (the technique applies; see DESIGN.md section 7)")})
    man = {
        "version": 1,
        "setup_cmd": "bash harness/build.sh",
        "hooks": {
            "guard": "CALEB531_AUTOMATA_VERIF",
            "enable": "no source hooks are needed: every observable is reached through the public API; checks import /repo's working tree directly",
            "baseline_off_cmd": "cd /repo && /venv/bin/python -m pytest -ra -q -p no:cacheprovider --timeout=900 --continue-on-collection-errors",
            "source_commits": [],
            "add_only": True,
        },
        "engines": [{
            "name": "coq-model+extracted-driver",
            "path": "/verif/coq, /verif/ocaml, /verif/harness",
            "serves_properties": [c["property_id"] for c in checks],
            "kind_free_text": "Rocq/Coq 8.16.1 development (models, specs, proofs; one Props/P_Cxx.v per property) + extracted OCaml model driver + Python differential harness",
        }],
        "checks": checks,
        "not_applicable": na,
        "notes": "See DESIGN.md. known_findings.json lists recorded defects; seeded/ holds validated property-breaking changes.",
    }
    with open(os.path.join(VERIF, "MANIFEST.json"), "w") as f:
        json.dump(man, f, indent=1)


if __name__ == "__main__":
    main()
