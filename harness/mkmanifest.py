#!/usr/bin/env python3
"""Regenerates MANIFEST.json from the table below (kept next to the checks it describes)."""
import json
import os

VERIF = os.path.dirname(os.path.dirname(os.path.abspath(__file__)))

NOTE = ("Trusted base: Coq 8.16.1 kernel; extraction (ExtrOcamlBasic only) + OCaml 4.13.1; ocaml/driver.ml; the Python "
        "harness (generators, adapters, renumbering, exception mapping). Axioms: none (every Print Assumptions answers "
        "'Closed under the global context'; the check fails otherwise). The theorems are about the Gallina model; the "
        "tie to /repo is the differential correspondence run on every invocation (hand-written model, not a translator).")

# property -> (technique, level text, extra note, design section)
CHECKS = {
    "C01": ("Coq theorems about executable DFA/NFA reader models + differential correspondence against /repo via extracted model",
            "Proved for all valid DFAs/NFAs and all words (unbounded): stepwise reading yields the textbook run (one configuration per "
            "symbol, k-th NFA set = states reachable on the first k symbols under epsilon-closure), verdict = textbook acceptance, foreign "
            "symbol / missing transition rejects, only Reject is ever raised. Model tied to the code by exact comparison of yields, "
            "outcome kind, accepts_input, `in`, read_input on generated machines x words.",
            "Open known finding: a state named None (sentinel collision).", "7/C01"),
    "C06": ("Coq theorems about the lazy cross-product search and the verified comparator + differential correspondence",
            "Proved for all valid DFA pairs over a common alphabet (unbounded sizes): ==, !=, <=, <, >=, >, issubset, issuperset, isdisjoint "
            "return a boolean (never an error) that is exactly the corresponding statement about the two languages; isempty likewise; "
            "different alphabets are refused. The relevance-flag skipping of the lazy product is justified inside the proof. "
            "== is a specification model (Hopcroft-Karp bookkeeping not modelled; its boolean is compared). isfinite: executable "
            "model (acyclicity of the useful subgraph) validated by correspondence only - no theorem yet.",
            "", "7/C06"),
    "C04": ("Coq theorems about the lazy product + generic graph-to-DFA builder + differential correspondence via proved comparator",
            "Proved for all valid DFA pairs over a common alphabet and all words (unbounded): union, intersection, difference and symmetric "
            "difference return a valid DFA whose verdict on every word is the Boolean operation of the operands' verdicts (every "
            "complete/partial mix; relevance-flag skipping justified in the proof); different alphabets are refused; every finite expression "
            "tree of the four binary operations evaluates to a valid DFA with the tree's semantics. complement / to_complete / to_partial: "
            "executable models validated by correspondence (language equality with the source decided by the proved comparator, totality); "
            "their language theorems are not proved yet (partial). minify=True results are judged by language here and by size in C05.",
            "", "7/C04"),
    "C07": ("Coq theorems about the subset construction (generic builder) and NFA.from_dfa + correspondence via proved comparators",
            "Proved for all valid NFAs/DFAs (unbounded): whenever the subset construction returns (always up to 14 NFA states; fixed large "
            "budget beyond) the result is a valid DFA with exactly the NFA's language; NFA.from_dfa gives a valid NFA with the DFA's language; "
            "the comparators nfa_diff / nfa_dfa_diff used to judge implementation results decide language equality exactly. "
            "eliminate_lambda: implementation results are judged on every run by the proved comparator (same language as the source), "
            "validity, no empty-string key, all states reachable; the mirror model and its language theorem are part of C08 (partial here).",
            "", "7/C07"),
    "C09": ("Coq theorems about the verified NFA comparator (subset construction on the fly) + differential correspondence",
            "Proved for all valid NFA pairs (unbounded): whenever == / != return (always for <= 14 states in total) they are exactly language "
            "(in)equality; the answer is symmetric and equals DFA equality of the determinisations. Specification model: the union-find "
            "bookkeeping of NFA.__eq__ is not modelled, its boolean is compared on generated pairs incl. built-equivalent pairs.",
            "", "7/C09"),
    "C15": ("Coq theorems about mirror / specification models of the DFA language constructors + differential correspondence "
            "(exact tables, proved comparator, word-level predicates, executable minimality test)",
            "Proved for all alphabets, all parameters, both values of every flag, partial and complete forms, and all words over all "
            "symbols (unbounded): from_prefix, from_subsequence, of_length (with symbols_to_count), count_mod (remainder sets, "
            "symbols_to_count), nth_from_start, nth_from_end (2^n-state shift register; one-symbol alphabets delegate to of_length), "
            "universal_language, empty_language build a valid DFA accepting exactly the words over the alphabet that satisfy the "
            "declarative predicate of Spec/Preds.v (its complement within the alphabet when contains=False); refusals (k=0, n=0, symbol "
            "outside the alphabet) as the code. from_substring / from_suffix: specification model (state = longest prefix of the pattern "
            "that is a suffix of the text read, defined by trying lengths from long to short; the KMP table is not modelled) proved to "
            "accept exactly 'contains the substring' / 'has the suffix', incl. the empty pattern. Model tied to the code by exact table "
            "equality + proved comparator (all words) + validity on every pattern of length <= 4 over 1-3 symbols and all small numeric "
            "parameters. from_substrings / from_finite_language: no Coq model - judged on every run against the Coq boolean predicates "
            "(proved equivalent to the declarative ones) on all words up to length 6-7, an independent Python predicate, and (all words) "
            "the obvious NFA / trie built by the harness through the proved comparators. Minimality: executable is_minimal evaluated by "
            "the extracted code on every result whose docstring promises the minimal DFA; its soundness is proved from the Myhill-Nerode "
            "lower bound taken as a hypothesis (C15_is_minimal_sound_partial; the lower bound itself is C05_nerode_lower_bound, so the "
            "full statement C15_is_minimal_sound_statement closes by one application after the merge). Not proved: that the models' "
            "own results are minimal for all parameters (C15_constructors_minimal_statement; a bounded instance is computed).",
            "Open known finding: from_substrings with the empty string inside the pattern set and must_be_suffix=True. Fixed by the lead "
            "(trial hunk): from_suffix / from_substring(must_be_suffix=True) with an empty pattern raised IndexError.", "7/C15"),
}

PENDING = {}


def main():
    props = [json.loads(l) for l in open(os.path.join(VERIF, "properties.jsonl"))]
    checks, na = [], []
    for p in props:
        pid = p["id"]
        if pid in CHECKS:
            tech, text, extra, ref = CHECKS[pid]
            checks.append({
                "property_id": pid,
                "quick_cmd": f"/venv/bin/python harness/check.py {pid} --tier quick",
                "thorough_cmd": f"/venv/bin/python harness/check.py {pid} --tier thorough",
                "evidence_file": f"/verif/evidence/{pid}.json",
                "replay_cmd_template": "/venv/bin/python harness/check.py " + pid + " --replay {path}",
                "engine": "coq-model+extracted-driver",
                "level_claimed": {"category": "proof", "text": text, "design_ref": "DESIGN.md section " + ref},
                "level_note": NOTE + (" " + extra if extra else ""),
                "technique": tech,
            })
        else:
            na.append({"property_id": pid,
                       "reason": PENDING.get(pid, "check not built yet in this session (the technique applies; see DESIGN.md section 7)")})
    man = {
        "version": 1,
        "setup_cmd": "bash harness/build.sh",
        "hooks": {
            "guard": "CALEB531_AUTOMATA_VERIF",
            "enable": "no source hooks are needed: every observable is reached through the public API; checks import /repo's working tree directly",
            "baseline_off_cmd": "cd /repo && /venv/bin/python -m pytest -ra -q -p no:cacheprovider --timeout=900 --continue-on-collection-errors",
            "source_commits": [],
            "add_only": True,
        },
        "engines": [{
            "name": "coq-model+extracted-driver",
            "path": "/verif/coq, /verif/ocaml, /verif/harness",
            "serves_properties": [c["property_id"] for c in checks],
            "kind_free_text": "Rocq/Coq 8.16.1 development (models, specs, proofs; one Props/P_Cxx.v per property) + extracted OCaml model driver + Python differential harness",
        }],
        "checks": checks,
        "not_applicable": na,
        "notes": "See DESIGN.md. known_findings.json lists recorded defects; seeded/ holds validated property-breaking changes.",
    }
    with open(os.path.join(VERIF, "MANIFEST.json"), "w") as f:
        json.dump(man, f, indent=1)


if __name__ == "__main__":
    main()
