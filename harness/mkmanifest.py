#!/usr/bin/env python3
"""Regenerates MANIFEST.json from the table below (kept next to the checks it describes)."""
import json
import os

VERIF = os.path.dirname(os.path.dirname(os.path.abspath(__file__)))

NOTE = ("Trusted base: Coq 8.16.1 kernel; extraction (ExtrOcamlBasic only) + OCaml 4.13.1; ocaml/driver.ml; the Python "
        "harness (generators, adapters, renumbering, exception mapping). Axioms: none (every Print Assumptions answers "
        "'Closed under the global context'; the check fails otherwise). The theorems are about the Gallina model; the "
        "tie to /repo is the differential correspondence run on every invocation (hand-written model, not a translator).")

# property -> (technique, level text, extra note, design section)
CHECKS = {
    "C01": ("Coq theorems about executable DFA/NFA reader models + differential correspondence against /repo via extracted model",
            "Proved for all valid DFAs/NFAs and all words (unbounded): stepwise reading yields the textbook run (one configuration per "
            "symbol, k-th NFA set = states reachable on the first k symbols under epsilon-closure), verdict = textbook acceptance, foreign "
            "symbol / missing transition rejects, only Reject is ever raised. Model tied to the code by exact comparison of yields, "
            "outcome kind, accepts_input, `in`, read_input on generated machines x words.",
            "Open known finding: a state named None (sentinel collision).", "7/C01"),
    "C06": ("Coq theorems about the lazy cross-product search and the verified comparator + differential correspondence",
            "Proved for all valid DFA pairs over a common alphabet (unbounded sizes): ==, !=, <=, <, >=, >, issubset, issuperset, isdisjoint "
            "return a boolean (never an error) that is exactly the corresponding statement about the two languages; isempty likewise; "
            "different alphabets are refused. The relevance-flag skipping of the lazy product is justified inside the proof. "
            "== is a specification model (Hopcroft-Karp bookkeeping not modelled; its boolean is compared). isfinite: executable "
            "model (acyclicity of the useful subgraph) validated by correspondence only - no theorem yet.",
            "", "7/C06"),
    "C04": ("Coq theorems about the lazy product + generic graph-to-DFA builder + differential correspondence via proved comparator",
            "Proved for all valid DFA pairs over a common alphabet and all words (unbounded): union, intersection, difference and symmetric "
            "difference return a valid DFA whose verdict on every word is the Boolean operation of the operands' verdicts (every "
            "complete/partial mix; relevance-flag skipping justified in the proof); different alphabets are refused; every finite expression "
            "tree of the four binary operations evaluates to a valid DFA with the tree's semantics. complement / to_complete / to_partial: "
            "executable models validated by correspondence (language equality with the source decided by the proved comparator, totality); "
            "their language theorems are not proved yet (partial). minify=True results are judged by language here and by size in C05.",
            "", "7/C04"),
    "C07": ("Coq theorems about the subset construction (generic builder) and NFA.from_dfa + correspondence via proved comparators",
            "Proved for all valid NFAs/DFAs (unbounded): whenever the subset construction returns (always up to 14 NFA states; fixed large "
            "budget beyond) the result is a valid DFA with exactly the NFA's language; NFA.from_dfa gives a valid NFA with the DFA's language; "
            "the comparators nfa_diff / nfa_dfa_diff used to judge implementation results decide language equality exactly. "
            "eliminate_lambda: implementation results are judged on every run by the proved comparator (same language as the source), "
            "validity, no empty-string key, all states reachable; the mirror model and its language theorem are part of C08 (partial here).",
            "", "7/C07"),
    "C09": ("Coq theorems about the verified NFA comparator (subset construction on the fly) + differential correspondence",
            "Proved for all valid NFA pairs (unbounded): whenever == / != return (always for <= 14 states in total) they are exactly language "
            "(in)equality; the answer is symmetric and equals DFA equality of the determinisations. Specification model: the union-find "
            "bookkeeping of NFA.__eq__ is not modelled, its boolean is compared on generated pairs incl. built-equivalent pairs.",
            "", "7/C09"),
    "C02": ("Coq theorems about executable NPDA/DPDA reader models (Python stack orientation, level-by-level generator, DPDA loop, "
            "constructor's nondeterminism scan) against a declarative textbook PDA semantics + differential correspondence against /repo",
            "Proved for all tables, all words, all three acceptance modes and every fuel (unbounded; no validity hypothesis for the NPDA "
            "statements): stack replace puts the first pushed symbol on top; NPDA successor set = textbook one-move relation; the k-th set "
            "yielded by NPDA.read_input_stepwise is exactly the set of configurations reachable in k moves; NPDA verdict True => an accepting "
            "move sequence exists (start configuration included), False => none exists, and an accepted word is accepted on every large "
            "enough fuel; the DPDA constructor accepts a well-formed table iff no configuration has two applicable moves (only "
            "NondeterminismError otherwise); on such a table the k-th DPDA configuration is the unique configuration reachable in k moves, "
            "the DPDA verdict is the textbook verdict, only return/RejectionException end the run, and DPDA and NPDA verdicts coincide on "
            "every pair of fuels on which both return. Termination is not proved (it does not hold in general): Err Fuel is excluded by "
            "the statements, as the property's quantifier allows. Model tied to the code by exact comparison of every yielded "
            "configuration (set), the way the generator ends, accepts_input, the constructor's exception kind, and DPDA-vs-NPDA verdicts "
            "on the implementation alone; implementation always run under a budget of yields.",
            "The model follows DPDA.read_input_stepwise AFTER the repair of DESIGN section 8 row 1 (acceptance test on the start "
            "configuration); on a tree without that repair the check reports the defect as a VIOLATION. A stack symbol '' (PDAStack.top() "
            "answers '' on an empty stack) is outside the modelled domain.", "7/C02"),
    "C19": ("Coq theorems about mirror models of every validate() (first failing check of the code's sequence) against declarative "
            "well-formedness of raw definitions + differential correspondence (malformed stream; operation battery in four "
            "interpreter processes, one per combination of the two global flags)",
            "PARTIAL (proved part + monitored part). Proved for all raw definitions (unbounded; tables in dict order): the constructor's "
            "validate() returns Ok exactly on the declaratively well-formed definitions, for DFA, NFA, NPDA, DPDA (incl. acceptance "
            "mode and the lambda/symbol clash rule), DTM/NTM (one shared sequence of checks), MNTM (single-tape rules first, "
            "InconsistentTapesException only when all of them hold) and GNFA at the structural level (label validity is an input "
            "bit; the regex validator is C11's); valid_dfa / valid_nfa - the hypothesis of every other FA theorem - are exactly "
            "'duplicate-free keys and the constructor accepts'; for DFA, NFA, NPDA, DPDA, DTM/NTM and MNTM every exception raised is the documented exception "
            "of a rule that really is broken (rules stated declaratively, one constructor per documented rule with its exception), a "
            "definition with a broken rule is rejected, and when all broken rules share one documented exception - in "
            "particular a single broken rule - exactly that exception is raised; PDA constructors raise only the four documented "
            "kinds; the DPDA checker C02 reasons about is this checker; valid_pda is 'duplicate-free keys and the NPDA constructor accepts'; results of the Boolean DFA operations, of every expression tree of them, of DFA.from_nfa and of "
            "NFA.from_dfa pass validate() (collected from C04/C07; extended as further operations get their theorem); on a well-formed "
            "definition the constructor returns the same object with validation on or off. NOT proved, monitored on every run: that no "
            "operation reads the two process-wide flags (the same battery of ~75 operations per case runs in four separate interpreter "
            "processes; verdicts on all words up to length 5, state counts and exception kinds must be identical; every returned "
            "automaton is re-validated by validate() and by the model in all four); the ORDER in which several broken rules are "
            "reported (correspondence: implementation = model on pairs of corruptions; implementation = model = documented kind on "
            "every single-rule corruption); the GNFA label rule beyond the structural level.",
            "The two flags are interpreter state (DESIGN 6): monitored, not proved. Open known finding: FA validate() accepts a "
            "transition row keyed by a name outside `states` (not a documented rule; TM classes do check it). PDA validate() does not "
            "check target states or pushed symbols and TM validate() does not check that the blank is outside the input symbols: "
            "neither is a documented/tested rule, none is generated.", "7/C19"),
}

PENDING = {}


def main():
    props = [json.loads(l) for l in open(os.path.join(VERIF, "properties.jsonl"))]
    checks, na = [], []
    for p in props:
        pid = p["id"]
        if pid in CHECKS:
            tech, text, extra, ref = CHECKS[pid]
            checks.append({
                "property_id": pid,
                "quick_cmd": f"/venv/bin/python harness/check.py {pid} --tier quick",
                "thorough_cmd": f"/venv/bin/python harness/check.py {pid} --tier thorough",
                "evidence_file": f"/verif/evidence/{pid}.json",
                "replay_cmd_template": "/venv/bin/python harness/check.py " + pid + " --replay {path}",
                "engine": "coq-model+extracted-driver",
                "level_claimed": {"category": "proof", "text": text, "design_ref": "DESIGN.md section " + ref},
                "level_note": NOTE + (" " + extra if extra else ""),
                "technique": tech,
            })
        else:
            na.append({"property_id": pid,
                       "reason": PENDING.get(pid, "check not built yet in this session (the technique applies; see DESIGN.md section 7)")})
    man = {
        "version": 1,
        "setup_cmd": "bash harness/build.sh",
        "hooks": {
            "guard": "CALEB531_AUTOMATA_VERIF",
            "enable": "no source hooks are needed: every observable is reached through the public API; checks import /repo's working tree directly",
            "baseline_off_cmd": "cd /repo && /venv/bin/python -m pytest -ra -q -p no:cacheprovider --timeout=900 --continue-on-collection-errors",
            "source_commits": [],
            "add_only": True,
        },
        "engines": [{
            "name": "coq-model+extracted-driver",
            "path": "/verif/coq, /verif/ocaml, /verif/harness",
            "serves_properties": [c["property_id"] for c in checks],
            "kind_free_text": "Rocq/Coq 8.16.1 development (models, specs, proofs; one Props/P_Cxx.v per property) + extracted OCaml model driver + Python differential harness",
        }],
        "checks": checks,
        "not_applicable": na,
        "notes": "See DESIGN.md. known_findings.json lists recorded defects; seeded/ holds validated property-breaking changes.",
    }
    with open(os.path.join(VERIF, "MANIFEST.json"), "w") as f:
        json.dump(man, f, indent=1)


if __name__ == "__main__":
    main()
