#!/usr/bin/env python3
"""Regenerates MANIFEST.json from the table below (kept next to the checks it describes)."""
import json
import os

VERIF = os.path.dirname(os.path.dirname(os.path.abspath(__file__)))

NOTE = ("Trusted base: Coq 8.16.1 kernel; extraction (ExtrOcamlBasic only) + OCaml 4.13.1; ocaml/driver.ml; the Python "
        "harness (generators, adapters, renumbering, exception mapping). Axioms: none (every Print Assumptions answers "
        "'Closed under the global context'; the check fails otherwise). The theorems are about the Gallina model; the "
        "tie to /repo is the differential correspondence run on every invocation (hand-written model, not a translator).")

# property -> (technique, level text, extra note, design section)
CHECKS = {
    "C01": ("Coq theorems about executable DFA/NFA reader models + differential correspondence against /repo via extracted model",
            "Proved for all valid DFAs/NFAs and all words (unbounded): stepwise reading yields the textbook run (one configuration per "
            "symbol, k-th NFA set = states reachable on the first k symbols under epsilon-closure), verdict = textbook acceptance, foreign "
            "symbol / missing transition rejects, only Reject is ever raised. Model tied to the code by exact comparison of yields, "
            "outcome kind, accepts_input, `in`, read_input on generated machines x words.",
            "Open known finding: a state named None (sentinel collision).", "7/C01"),
    "C08": ("Coq theorems about executable models of the nine NFA operations (+ eliminate_lambda, + finite compositions) and "
            "differential correspondence against /repo via the extracted model and an independent word-level oracle",
            "Proved for all valid NFA operands (unbounded states, alphabets, words): union, concatenate, kleene_star, option, reverse, "
            "intersection, shuffle_product, right_quotient, left_quotient (model = repaired code) each return Ok with a valid NFA whose "
            "language is exactly the textbook operation of Spec/Lang.v; eliminate_lambda preserves the language and leaves no empty-string "
            "edge; every finite composition (expression tree) of the operations evaluates without error to the composed language. union, "
            "concatenate and reverse additionally assume rows_keyed (every transition row belongs to a state). Nothing partial. Model tied "
            "to the code per case by valid + exact language equality (verified comparator, explicit fuel) and by a word-level oracle on all "
            "words up to length 5 (4 for 3 symbols); operators + | & included.",
            "Known defect demonstrated on the unchanged tree: left_quotient raises MissingStateError (DESIGN 8 row 3). Open known finding: "
            "nfa_stray_transition_row (a row keyed by a non-state passes validate(); union/concatenate raise KeyError, reverse "
            "InvalidStateError).", "7/C08"),
}

PENDING = {}


def main():
    props = [json.loads(l) for l in open(os.path.join(VERIF, "properties.jsonl"))]
    checks, na = [], []
    for p in props:
        pid = p["id"]
        if pid in CHECKS:
            tech, text, extra, ref = CHECKS[pid]
            checks.append({
                "property_id": pid,
                "quick_cmd": f"/venv/bin/python harness/check.py {pid} --tier quick",
                "thorough_cmd": f"/venv/bin/python harness/check.py {pid} --tier thorough",
                "evidence_file": f"/verif/evidence/{pid}.json",
                "replay_cmd_template": "/venv/bin/python harness/check.py " + pid + " --replay {path}",
                "engine": "coq-model+extracted-driver",
                "level_claimed": {"category": "proof", "text": text, "design_ref": "DESIGN.md section " + ref},
                "level_note": NOTE + (" " + extra if extra else ""),
                "technique": tech,
            })
        else:
            na.append({"property_id": pid,
                       "reason": PENDING.get(pid, "check not built yet in this session (the technique applies; see DESIGN.md section 7)")})
    man = {
        "version": 1,
        "setup_cmd": "bash harness/build.sh",
        "hooks": {
            "guard": "CALEB531_AUTOMATA_VERIF",
            "enable": "no source hooks are needed: every observable is reached through the public API; checks import /repo's working tree directly",
            "baseline_off_cmd": "cd /repo && /venv/bin/python -m pytest -ra -q -p no:cacheprovider --timeout=900 --continue-on-collection-errors",
            "source_commits": [],
            "add_only": True,
        },
        "engines": [{
            "name": "coq-model+extracted-driver",
            "path": "/verif/coq, /verif/ocaml, /verif/harness",
            "serves_properties": [c["property_id"] for c in checks],
            "kind_free_text": "Rocq/Coq 8.16.1 development (models, specs, proofs; one Props/P_Cxx.v per property) + extracted OCaml model driver + Python differential harness",
        }],
        "checks": checks,
        "not_applicable": na,
        "notes": "See DESIGN.md. known_findings.json lists recorded defects; seeded/ holds validated property-breaking changes.",
    }
    with open(os.path.join(VERIF, "MANIFEST.json"), "w") as f:
        json.dump(man, f, indent=1)


if __name__ == "__main__":
    main()
