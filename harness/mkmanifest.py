#!/usr/bin/env python3
"""Regenerates MANIFEST.json from the table below (kept next to the checks it describes)."""
import json
import os

VERIF = os.path.dirname(os.path.dirname(os.path.abspath(__file__)))

NOTE = ("Trusted base: Coq 8.16.1 kernel; extraction (ExtrOcamlBasic only) + OCaml 4.13.1; ocaml/driver.ml; the Python "
        "harness (generators, adapters, renumbering, exception mapping). Axioms: none (every Print Assumptions answers "
        "'Closed under the global context'; the check fails otherwise). The theorems are about the Gallina model; the "
        "tie to /repo is the differential correspondence run on every invocation (hand-written model, not a translator).")

# property -> (technique, level text, extra note, design section)
CHECKS = {
    "C01": ("Coq theorems about executable DFA/NFA reader models + differential correspondence against /repo via extracted model",
            "Proved for all valid DFAs/NFAs and all words (unbounded): stepwise reading yields the textbook run (one configuration per "
            "symbol, k-th NFA set = states reachable on the first k symbols under epsilon-closure), verdict = textbook acceptance, foreign "
            "symbol / missing transition rejects, only Reject is ever raised. Model tied to the code by exact comparison of yields, "
            "outcome kind, accepts_input, `in`, read_input on generated machines x words.",
            "Open known finding: a state named None (sentinel collision).", "7/C01"),
    "C06": ("Coq theorems about the lazy cross-product search and the verified comparator + differential correspondence",
            "Proved for all valid DFA pairs over a common alphabet (unbounded sizes): ==, !=, <=, <, >=, >, issubset, issuperset, isdisjoint "
            "return a boolean (never an error) that is exactly the corresponding statement about the two languages; isempty likewise; "
            "different alphabets are refused. The relevance-flag skipping of the lazy product is justified inside the proof. "
            "isfinite is true exactly when the accepted word lengths are bounded (with constructive corollaries: true => every accepted word "
            "shorter than |Q|; false => accepted words of unbounded length). == additionally has a mirror model of the code (Hopcroft-Karp over "
            "(state, operand) pairs with the None sink, the networkx union-find as a parent forest with path compression and weights, the "
            "explicit stack), proved for every symbol iteration order and every union-find tie-break to return within its fuel "
            "(|Q_A|+|Q_B|+3 pops) and to be the same function as the specification model; path compression is proved unobservable "
            "(forest run = flat run). The implementation's == is compared with both models, and the sequence of union calls observed by a "
            "harness-side spy on networkx's UnionFind is compared call by call with the mirror model run under the observed schedule.",
            "", "7/C06"),
    "C04": ("Coq theorems about the lazy product + generic graph-to-DFA builder + differential correspondence via proved comparator",
            "Proved for all valid DFA pairs over a common alphabet and all words (unbounded): union, intersection, difference and symmetric "
            "difference return a valid DFA whose verdict on every word is the Boolean operation of the operands' verdicts (every "
            "complete/partial mix; relevance-flag skipping justified in the proof); different alphabets are refused; every finite expression "
            "tree of the four binary operations and complement evaluates to a valid DFA with the tree's semantics; complement is exactly the "
            "complement within the alphabet; to_complete keeps the language and defines every transition; to_partial(minify=False) keeps "
            "the language (never Err Fuel). minify=True results are judged by language here (proved comparator) and by size in C05.",
            "", "7/C04"),
    "C07": ("Coq theorems about the subset construction (generic builder) and NFA.from_dfa + correspondence via proved comparators",
            "Proved for all valid NFAs/DFAs (unbounded): whenever the subset construction returns (always up to 14 NFA states; fixed large "
            "budget beyond) the result is a valid DFA with exactly the NFA's language; NFA.from_dfa gives a valid NFA with the DFA's language; "
            "the comparators nfa_diff / nfa_dfa_diff used to judge implementation results decide language equality exactly. "
            "eliminate_lambda (mirror model shared with C08): total, valid result, same language, no empty-string transition left, every "
            "state of the result is the end of a path from its initial state (C07_eliminate_lambda). The two flags computed by extracted "
            "code on the implementation's result on every run are proved exact (C07_flags_exact): has_eps_key = false iff no row has an "
            "empty-string key; all_reachable = Ok true iff every state is graph-reachable from the initial state (= word-reachable when "
            "no row lists a key twice).",
            "", "7/C07"),
    "C09": ("Coq theorems about the verified NFA comparator (subset construction on the fly) + differential correspondence",
            "Proved for all valid NFA pairs (unbounded): whenever == / != return (always for <= 14 states in total) they are exactly language "
            "(in)equality; the answer is symmetric and equals DFA equality of the determinisations. NFA.__eq__ additionally has a mirror model "
            "of the code (Hopcroft-Karp over (subset state, operand) pairs, initial lambda closures, finality through the members' lambda "
            "closures, networkx union-find as a parent forest with path compression and weights, explicit stack): for every symbol iteration order and union-find tie-break its "
            "boolean is language equality whenever it returns, it agrees with the specification model, and for <= 14 states in total both "
            "return and are the same function (path compression proved unobservable: forest run = flat run); the implementation's == (both "
            "argument orders) is compared with both models on generated pairs incl. built-equivalent pairs, and the sequence of union "
            "calls observed by a harness-side spy on networkx's UnionFind is compared call by call with the mirror model run under the "
            "observed schedule.",
            "", "7/C09"),
    "C02": ("Coq theorems about executable NPDA/DPDA reader models (Python stack orientation, level-by-level generator, DPDA loop, "
            "constructor's nondeterminism scan) against a declarative textbook PDA semantics + differential correspondence against /repo",
            "Proved for all tables, all words, all three acceptance modes and every fuel (unbounded; no validity hypothesis for the NPDA "
            "statements): stack replace puts the first pushed symbol on top; NPDA successor set = textbook one-move relation; the k-th set "
            "yielded by NPDA.read_input_stepwise is exactly the set of configurations reachable in k moves; NPDA verdict True => an accepting "
            "move sequence exists (start configuration included), False => none exists, and an accepted word is accepted on every large "
            "enough fuel; the DPDA constructor accepts a well-formed table iff no configuration has two applicable moves (only "
            "NondeterminismError otherwise); on such a table the k-th DPDA configuration is the unique configuration reachable in k moves, "
            "the DPDA verdict is the textbook verdict, only return/RejectionException end the run, and DPDA and NPDA verdicts coincide on "
            "every pair of fuels on which both return. Termination does not hold in general (Err Fuel is excluded by those statements), but "
            "fuel sufficiency is proved for tables whose empty-string moves cannot run forever under a decidable condition: eps_ranked rank N "
            "(every empty-string move pops without pushing, or replaces the top by one symbol and moves to a state of strictly larger rank; "
            "eps_shrinking = only pops). Then every move strictly decreases an explicit potential, no run on w has "
            "|w|*(max_push+1)*(N+1) + 2*(N+1) moves or more, and with that much fuel both readers return Ok true / Ok false, exactly "
            "according to textbook acceptance (C02_npda_total_for_ranked / _shrinking, C02_dpda_total_for_ranked / _shrinking). The harness "
            "finds a ranking on each generated table, has the model confirm eps_ranked and checks that the implementation's generator ends "
            "within the proved bound. Model tied to the code by exact comparison of every yielded "
            "configuration (set), the way the generator ends, accepts_input, the constructor's exception kind, and DPDA-vs-NPDA verdicts "
            "on the implementation alone; implementation always run under a budget of yields.",
            "The model follows DPDA.read_input_stepwise AFTER the repair of DESIGN section 8 row 1 (acceptance test on the start "
            "configuration); on a tree without that repair the check reports the defect as a VIOLATION. A stack symbol '' (PDAStack.top() "
            "answers '' on an empty stack) is outside the modelled domain.", "7/C02"),
    "C08": ("Coq theorems about executable models of the nine NFA operations (+ eliminate_lambda, + finite compositions) and "
            "differential correspondence against /repo via the extracted model and an independent word-level oracle",
            "Proved for all valid NFA operands (unbounded states, alphabets, words): union, concatenate, kleene_star, option, reverse, "
            "intersection, shuffle_product, right_quotient, left_quotient (model = repaired code) each return Ok with a valid NFA whose "
            "language is exactly the textbook operation of Spec/Lang.v; eliminate_lambda preserves the language and leaves no empty-string "
            "edge; every finite composition (expression tree) of the operations evaluates without error to the composed language. The only "
            "hypothesis is valid_nfa (what NFA.validate() accepts, transition rows keyed by non-states included: union, concatenate and "
            "reverse skip them as the code does since bd7ae94). Nothing partial. Model tied "
            "to the code per case by valid + exact language equality (verified comparator, explicit fuel) and by a word-level oracle on all "
            "words up to length 5 (4 for 3 symbols); operators + | & included.",
            "Fixed findings whose reproducers run as corpus cases: left_quotient MissingStateError (f27bb3b), nfa_stray_transition_row "
            "(bd7ae94; operands with stray rows, incl. names colliding with the fresh state, are generated). Open known finding: "
            "eliminate_lambda_stray_row_dangling_target (eliminate_lambda, C07's operation, raises InvalidStateError when a stray row "
            "points to a state it prunes).", "7/C08"),
    "C13": ("Coq theorems about executable models of the count / word-list recurrences, BFS minimum length, layered maximum "
            "length, cardinality, iteration and count-weighted unranking + differential correspondence against /repo "
            "(all observables compared literally; randint draws reproduced from Random(seed); all draw vectors enumerated "
            "through a scripted generator)",
            "Proved for all valid DFAs, all lengths k, all draw vectors (unbounded): count_words_of_length = number of accepted "
            "words of length k; words_of_length = the lexicographic listing filtered by acceptance (sorted, duplicate-free, "
            "complete); minimum_word_length exact / EmptyLanguageException iff the language is empty; maximum_word_length exact, "
            "None iff the language is infinite (pumping), Empty iff empty; cardinality = number of accepted words / "
            "InfiniteLanguageException iff infinite / 0 if empty; iteration = prefix of the (length, lexicographic) listing, "
            "complete for finite languages, nothing for the empty language; random_word returns an accepted word of length k "
            "for every admissible draw vector, ValueError iff there is no such word. Iteration of an infinite language: the model's "
            "level budget n*(|Q|+1) is proved sufficient (every window of |Q| consecutive lengths holds an accepted word: pumping "
            "down), so C13_iter_order_complete has no out-of-fuel branch. Uniformity of random_word (C13_random_word_uniform): for "
            "every accepted word w of length k the draw vectors of the box of ranges along w's run that return w are counted "
            "exactly - the product of cnt(remaining-1, next state) over the steps - and that count times cnt(k, initial) equals "
            "the size of the box, i.e. every accepted word has mass 1/count (also enumerated by the harness).",
            "Assumes Random.randint is uniform (the model takes the drawn integers as an argument). networkx "
            "(digraph, dag_longest_path_length) is outside the model: maximum_word_length is a specification model. "
            "Demonstrates DESIGN section 8 row 7 on the unchanged tree (iterating an empty language raises).", "7/C13"),
    "C20": ("Coq state-machine models of the DFA object (definition + count cache + word cache + cached_method memos) and of NFA "
            "instances (one memo per live instance: the table of `_get_lambda_closures`, the only thing an NFA caches) with "
            "invariant proofs over arbitrary query histories + differential correspondence: random histories on one instance vs a "
            "fresh copy vs the model (answers, and for NFAs the memo itself after every query)",
            "Proved for all valid DFAs and all finite histories (unbounded length) of count / words / abandoned words generator / "
            "random_word / cardinality / min / max / isempty / isfinite / abandoned iteration / clear_cache: every stored cache "
            "level equals the from-scratch level, every memo is empty or holds the stateless answer (cache_inv, kept by every "
            "step), hence the answer to any query after any history equals the stateless C13 answer (C20_history_independent), "
            "in particular shorter-after-longer lengths and answers after clear_cache. "
            "Proved for every list of NFA definitions (instances) and all finite histories of accepts_input / read_input_stepwise "
            "abandoned after n items / == between two instances (fills both memos) / DFA.from_nfa (minify or not) / eliminate_lambda / "
            "reverse: a memo, when filled, holds the closure table computed from scratch (memo_inv, kept by every step; the model "
            "consults the table when present and fills it when absent, exactly where the code calls _get_lambda_closures), hence "
            "every answer after any history equals the answer with all tables recomputed = the first call on fresh instances "
            "(C20_nfa_history_independent, C20_nfa_same_as_first_call); for valid NFAs these answers are literally the answers of the "
            "stateless C01 reader, the C09 Hopcroft-Karp model, the C07 subset construction (+ minimisation), the C07/C08 "
            "eliminate_lambda and reverse models (C20_nfa_answers_are_stateless_models: congruence of the worklist closure, "
            "_expand_dfa, the union-find loop and _eliminate_lambda under closure functions that agree on the states), hence "
            "tied to the languages (C20_nfa_language_after_any_history).",
            "Not in the model (compared against a fresh object by the harness only): DFA accepts_input, ==, <=, successor(s); "
            "NFA operations other than the six above (union, concatenate, ... never call _get_lambda_closures except through "
            "these). A table lookup of a name without an entry (KeyError in Python, impossible for a valid NFA) is the empty set "
            "in the total lookups of the model. == across different alphabets is Err Mismatch in the model (Python: "
            "NotImplemented, then False), as in C09. retain_names changes state names only and is ignored by the model. Python "
            "object identity / generator suspension semantics are modelled (an abandoned generator = the effects up to its n-th "
            "item), not verified. cached_method raises RuntimeError when called on a temporary object (third-party behaviour, "
            "outside the property).",
            "7/C20"),
    "C05": ("Coq theorems about two models of DFA.minify / DFA.to_partial(minify=True): a specification model (state selection, "
            "implicit trap, Moore signature refinement to the coarsest finality-respecting congruence, quotient) and a mirror model of "
            "DFA._minify as coded (back map with the implicit trap, PartitionRefinement.refine, Hopcroft's `processing` worklist with its "
            "update rule under an arbitrary pop schedule and symbol order, back_map / enumerate names / any representative), proved to "
            "agree + differential correspondence against /repo via both extracted models and the verified language comparator",
            "Proved for all valid DFAs (unbounded states/alphabet/word length), all 21 theorems closed under the global context: the model "
            "always returns a DFA (the refinement fuel |Q|+1 is proved sufficient); the result is valid, over the same alphabet, accepts "
            "exactly the source language; the Myhill-Nerode lower bound for the DFA record (complete competitors; arbitrary competitors when "
            "no state is dead); the result is minimal among complete DFAs when complete and among all DFAs when partial (Spec/Minimal.v), "
            "its partial flag is exact, a partial result has no dead state, minimising twice keeps the size, and the retained-name blocks are "
            "exactly the Nerode classes of the kept states; same guarantees for to_partial(minify=True); to_partial(minify=False) is valid, "
            "partial, language-preserving and keeps exactly the initial + reachable-and-co-accessible states. Refinement lemmas cls_k_spec / "
            "stable_is_nerode / refine_fuel hold for any deterministic system. Mirror of the code's refinement (C05_hopcroft_all_schedules, "
            "C05_hopcroft_faithful, C05_hopcroft_partition): for EVERY order in which processing.pop() may return the pending ids and every "
            "iteration order of the symbols the worklist loop ends within |Q|+1 pops, never separates Nerode-equivalent items, ends stable, "
            "hence ends in the Nerode partition of kept states + trap = the specification model's partition (Hopcroft's invariant on pairs: "
            "if a symbol leads two items of one set into two sets, one of these is pending); _minify with that refinement returns literally "
            "the specification model's result. C05_coded_minify / C05_coded_to_partial_min: the result construction as coded (back_map, "
            "names = positions in get_sets(), representative = any member, rows filtered through back_map, empty_language, allow_partial "
            "from row lengths) never raises (no KeyError, no fuel) and gives a valid DFA isomorphic to the specification model's: same "
            "language, same size, minimal of its kind. Model tied to the code by: result passes validation, "
            "language equal to the source and to the model's result (verified dfa_diff), same state count, equal partition with "
            "retain_names=True, for minify(), minify(retain_names=True), to_partial(minify=True, retain_names=both), to_partial(minify=False) "
            "(language, size, trimness) and minify().minify(); per case the mirror model is run under four pop schedules (oldest first, "
            "random, newest-first / smallest-id / largest-id) with shuffled symbol orders: its partition must equal the specification "
            "model's and the implementation's retained names, and the implementation's result is compared (language, size, partial flag) "
            "with the coded mirror's result; thorough tier exhaustive over all partial DFAs with <= 3 states over 2 symbols.",
            "In the mirror model set ids are consecutive numbers instead of id(set) addresses and new sets are numbered in _sets order "
            "instead of first-hit order (ids are only compared for equality; covered by the quantification over schedules); the "
            "implementation's own pop order and intermediate partitions are not observed (only the final partition and result are "
            "compared); retain_names=True naming by frozensets is represented by the list of classes, not by a DFA over set-valued names.",
            "7/C05"),
    "C03": ("Coq theorems about executable models of TMTape and the DTM/NTM/MNTM simulators against textbook step relations on a "
            "bi-infinite tape + differential correspondence against /repo via the extracted model",
            "Proved for all tables, inputs and fuels (unbounded): tape write/move commute with the bi-infinite tape incl. L from cell 0 "
            "and R past the end; k-th DTM configuration = k-fold transition function; k-th NTM set = configurations reachable in k moves; "
            "DTM/NTM verdicts characterised exactly per fuel (accept iff final reached within budget, reject iff all branches stuck); "
            "MNTM BFS: visited configurations reachable, accept only on a reachable final state, reject only when every reachable "
            "configuration was visited and none is final; deterministic table as DTM/NTM/1-tape MNTM gives equal verdicts whenever the "
            "runs return; the breadth-first ORDER of MNTM visits (C03_mntm_visits_reachable, by the queue invariant 'depth d then depth "
            "d+1, everything shallower already dequeued'): the dequeued configurations carry non-decreasing depths, each is reachable in "
            "exactly its depth, and unless fuel ran out everything reachable in fewer moves than the last dequeued one was dequeued. "
            "An MNTM entry with an empty list of alternatives (accepted by the constructor) is no transition, as in the repaired "
            "read_input_stepwise: the native run of any table ends by accept, rejection or budget (C03_mntm_no_other_outcome); generated in one table in ten. "
            "Model tied to the code by exact comparison of traces (state, head-relative non-blank cells), NTM levels as sets, generator endings, "
            "accepts_input/read_input under a step budget.",
            "Runs are compared up to the step budget only (halting is not assumed).", "7/C03"),
    "C17": ("Coq theorems about an executable, index-by-index model of MNTM.read_input_as_ntm's extended-tape splicing (after the "
            "left-boundary repair) against the C03 tape step and the multitape step relation + differential correspondence against /repo",
            "Proved for all machines with consistent tapes, inputs and fuels (unbounded): one virtual-tape write+move re-establishes the "
            "encoding for L/R/N in the interior, at the left end and at the right end (C17_apply_move_encodes), hence for all tapes of a "
            "transition; head extraction on an encoding never reports a malformed tape; one BFS iteration appends exactly the encodings of the "
            "multitape successors and accepts iff the state is final (C17_step_simulates); the simulation's verdict is sound for every fuel and "
            "it ends only by acceptance, the rejection exception or fuel exhaustion (C17_simulation_verdict); simulation and native run give "
            "the same verdict for every pair of fuels on which both return (C17_verdict_agreement). Model tied to the code by exact comparison "
            "of every yielded (state, extended tape, position) and the generator ending; the implementation's two runs are also compared with "
            "each other directly.",
            "Tape alphabets containing the marker characters '^' or '_' are outside the model (typed markers) and are not generated. "
            "The model is of the repaired left-boundary branch (DESIGN section 8 row 11); on a tree without that repair the check reports "
            "the defect as a violation.", "7/C17"),
    "C12": ("Coq theorems about Kleene state elimination on GNFAs (expression-AST labels) and about a mirror model of the STRINGS "
            "GNFA.from_dfa / from_nfa / to_regex build, connected to the Coq model of the library's own regex lexer/parser/compiler "
            "(C10) + differential correspondence (literal string, rip sequence, library parser, proved NFA comparator)",
            "Proved (unbounded in states, alphabet, word length, for EVERY iteration order of the candidate dict of "
            "_find_min_connected_node): AST level - ripping an inner state preserves the GNFA's language; ripping all inner states in any "
            "order leaves an expression for the GNFA's language; the GNFA of a valid DFA/NFA has the source's language. String level "
            "(mirror model of _isbracket_req, the r1/r2/r3/r4 rules, (r1r2r3)?, the branch for an empty r1r2r3, label merging with '|' "
            "and '?', the min-degree loop) - every label is the plain printing of a properly parenthesised annotated tree denoting what "
            "the AST label denotes (established by from_dfa/from_nfa, kept by every rip step); the loop never fails and rips exactly the "
            "inner states; the printing of such a tree is parsed by the model of the library's lexer + validator + shunting-yard + "
            "evaluator back to the tree, and the compiler model returns a valid NFA for it. End to end (C12_dfa_to_regex, "
            "C12_nfa_to_regex): for every valid DFA/NFA over ordinary characters and every schedule, to_regex returns a string that "
            "NFA.from_regex accepts and compiles to a valid NFA with exactly the source's language (None only for the empty language). "
            "Model tied to the code on every run: the implementation's string is compared LITERALLY with the string model run under the "
            "recorded candidate orders, the sequence of ripped states with the model's, the string is parsed by the library's own "
            "parser and its NFA compared with the source for all words (proved comparator); the AST model is cross-checked by a proved "
            "derivative matcher on all words up to length 5.",
            "Input symbols are single ordinary characters (not one of the reserved characters of the regex syntax, not whitespace), as "
            "the library documents; no symbol is listed twice in a row of the NFA (true of every Python dict). The model follows the "
            "repaired empty-r1r2r3 branch (DESIGN section 8 row 6); on a tree without that repair the check reports the defect.",
            "7/C12"),
    "C14": ("Coq theorems about an executable specification model (filter over the dictionary-order enumeration) + proved exactness of "
            "the finiteness test + differential correspondence (exact word lists) against /repo via the extracted model",
            "Proved for all valid DFAs, all start words (None, empty, rejected, unreadable, longer than max_length - nothing is assumed "
            "about them), both strictness values, all windows (unbounded sizes): the dictionary order is a decidable strict total order "
            "(prefix first, then first differing symbol); the model's successor list is strictly increasing, duplicate-free and contains "
            "exactly the accepted words of the window after start (or equal to it when not strict); predecessors likewise in decreasing "
            "order; that sequence is unique; strict=False adds exactly the start word; successor/predecessor are the head = least/greatest "
            "element, None iff the set is empty; predecessors are refused iff the language is infinite (isfinite model proved exact, no "
            "other error possible); without max_length the state-count bound loses no word of a finite language. Additionally a mirror model "
            "of the explicit stack machine of DFA.successors (both directions; incl. next_symbol for start symbols outside the alphabet, "
            "back_at_parent and the empty-alphabet guard) is proved to generate exactly that "
            "list (total correctness: for every fuel it returns nothing else, and - by a termination measure over the trie of words of "
            "length <= max_length, resp. <= |Q| through co-accessibility for a finite language - it does return, without any error, "
            "within the budget (words_upto(|alphabet|, hi) + |start| + 1) * (|alphabet| + 2) + 1 the driver uses; "
            "only hypothesis: max_length given whenever the language is infinite; nothing is assumed about the start word - symbols "
            "inside, below, between, above the alphabet's - or the alphabet, which may be empty). "
            "The implementation's output (whole generated list, single-step result, exception "
            "kind) is compared literally with both models on generated DFAs x keys x starts x windows x directions.",
            "All characters in play (alphabet and foreign characters of start strings) are numbered by rank under the user's key "
            "(injective keys only), so the alphabet is a non-contiguous set of codes. Start strings with characters outside the "
            "alphabet and DFAs over the empty alphabet are generated; the three repaired findings (KeyError on a foreign start "
            "symbol, IndexError on the empty alphabet, and - found by the refinement proof - a prefix of the start string generated "
            "again after a start symbol below the whole alphabet) are regressions.", "7/C14"),
    "C16": ("Coq theorems about a mirror model of NFA.edit_distance's (position, errors) grid against an inductive edit-derivation "
            "relation + differential correspondence (verified subset-construction comparator, DP oracle) against /repo",
            "Proved for every alphabet, reference word over it, bound k >= 0 and non-empty set of kinds (unbounded): the construction "
            "succeeds, the NFA is valid, and its textbook language (all words over all symbols) is exactly the set of words derivable "
            "from the reference by at most k enabled edits (match / insertion / deletion / substitution steps; a substitution by the same "
            "symbol costs 1, as in the code); ValueError exactly for k < 0 or no enabled kind. The edit relation itself is tied to the "
            "classical recursive Levenshtein distance (all three kinds: accepted words over the alphabet = words at distance <= k; any "
            "subset of kinds: cost >= distance) and checked by three sanity theorems (cost 0 = the reference itself, length difference "
            "<= cost, Hamming case keeps the length). Model tied "
            "to the code by language equality + validity of implementation NFA vs model NFA and by verdicts of implementation, model and "
            "an independent DP oracle on all words up to length 6, exhaustively for all references of length <= 4 over 1 and 2 symbols, "
            "k <= 3, all 7 kind subsets (thorough: length <= 6 over 2 symbols with k <= 4, length <= 5 over 3 symbols).",
            "The comparator is run with an explicit exploration budget (Model/D16.v nfa_diff_budget) because the built-in 2^|A|*2^|B| "
            "budget of Model/Decide.v is a unary number in the extracted code.", "7/C16"),
    "C18": ("Coq theorems about a mirror model of freeze_value / Automaton.__init__ / copy / pickle / attribute blocking over a rose "
            "tree of Python values + differential correspondence and an operand-mutation monitor against /repo",
            "PARTIAL. Proved (unbounded, for every Python value whose set members and dict keys are hashable): the frozen value contains "
            "no mutable container at any depth, has the same content (freeze = conversion of every container to its immutable kind), "
            "freezing is idempotent; the constructor stores deeply immutable values with the given content; copy() and a pickle round "
            "trip give the same class and an identical definition (same option setting; same content across settings); every attribute "
            "write/delete raises and no history of them changes the object. A proved Example shows the pre-repair freeze_value (tuples "
            "not entered) violates deep immutability on ('q1', ['Z']). NOT proved, monitored on every run: aliasing between Python "
            "objects, i.e. that no operation writes into a table it shares with an operand - the harness deep-snapshots every automaton "
            "alive in a session of public calls (all DFA/NFA/GNFA operations, queries and conversions; PDA/TM reads) before and after "
            "every call, under both settings of allow_mutable_automata, mutates the original constructor arguments after construction, "
            "and walks the stored definition of all 8 classes for mutable values.",
            "Model of frozendict follows the installed pure-Python build (a dict subclass, so an already frozen dict is rebuilt by "
            "freeze_value); identity/aliasing and the process-wide option flags are outside the model.", "7/C18"),
    "C10": ("Coq theorems about a mirror model of the regex front end (lexer, validator, concat insertion, shunting-yard, postfix "
            "evaluation) and of NFARegexBuilder + differential correspondence against /repo via extracted model",
            "Proved for all ASTs, alphabets and words (unbounded): the built NFA accepts exactly the denotation for literals, wildcard, "
            "| & ^, concatenation, * + ? and {lo,hi} {lo,} {,hi} with every bound shape (C10_build_lang, with the fragment invariant "
            "C10_fragment_invariant); NFA.from_regex as a whole returns a valid NFA with the denoted language (C10_from_regex_sound) and cannot fail on literals of the alphabet (C10_from_regex_total); "
            "parsing the minimal-parenthesis printing of any AST returns the AST (precedence postfix > concatenation > binary, left "
            "associative); redundant parentheses around ANY sub-expression occurrences (C10_redundant_parens: decorated ASTs) and blanks at "
            "token boundaries change nothing; the round trip holds on CHARACTER strings with a decimal printer of the bounds "
            "(C10_show_quant: lex (show_quant lo hi) = [QuantTok lo hi]; C10_parse_show: parse_regex of the printed characters, with extra "
            "parentheses and blanks anywhere, returns the AST). Model tied to the code by nfa_diff between from_regex's NFA and the model's, exact "
            "AST comparison, and accepts_input vs an independent evaluator on all words up to length 6.",
            "Defect demonstrated on the unrepaired tree: upper bound 0 (a{0,0}) still accepts one copy.", "7/C10"),
    "C11": ("Coq theorems about the same regex front-end model and a model of regex.py's helpers + differential correspondence "
            "(exhaustive small token sequences) against /repo via extracted model",
            "Proved for all character strings (unbounded): what regex.validate accepts goes through the whole front end without error "
            "(C11_validated_compiles; C11_validated_from_regex_ok: from_regex then returns an NFA unless a literal is a lone brace / outside the given alphabet), what it refuses from_regex refuses with the same regex error type (C11_invalid_is_regex_error), "
            "what compiles validates (C11_compiles_validates); isequal/issubset/issuperset over a common alphabet answer exactly "
            "equality/inclusion of the denotations whenever they answer (C11_*_exact, resting on the verified comparator nfa_diff) and "
            "fail only as one of the two from_regex calls fails; a non-empty token list passes validate_tokens iff it is derivable in the "
            "inductive regex grammar (precedence levels, redundant parentheses anywhere; C11_validate_iff_grammar, both directions, and "
            "C11_validate_chars_iff_grammar for strings), and a derivation of an AST is parsed to that AST (C11_grammar_is_the_parsers). "
            "Partial: NFA.union inside "
            "issubset/issuperset is modelled by the builder's union (NFA.union itself belongs to C08); the comparator can answer "
            "'out of fuel' on very large operands (reported, never silently accepted).",
            "Defect demonstrated on the unrepaired tree: a blank-only regex passes validate but from_regex raises IndexError.", "7/C11"),
    "C15": ("Coq theorems about mirror models of the DFA language constructors (incl. the KMP failure table of from_substring, the "
            "Aho-Corasick construction of from_substrings and the Mihov-Schulz incremental construction of from_finite_language, "
            "written decision by decision after the code) + differential correspondence "
            "(exact tables, proved comparator, word-level predicates, executable minimality test)",
            "Proved for all alphabets, all parameters, both values of every flag, partial and complete forms, and all words over all "
            "symbols (unbounded): from_prefix, from_subsequence, of_length (with symbols_to_count), count_mod (remainder sets, "
            "symbols_to_count), nth_from_start, nth_from_end (2^n-state shift register; one-symbol alphabets delegate to of_length), "
            "universal_language, empty_language build a valid DFA accepting exactly the words over the alphabet that satisfy the "
            "declarative predicate of Spec/Preds.v (its complement within the alphabet when contains=False); refusals (k=0, n=0, symbol "
            "outside the alphabet) as the code. from_substring / from_suffix: the MIRROR model of the code (KMP table with the "
            "kmp_table[i] = kmp_table[candidate] shortcut, the candidate walk per state and symbol, limit, the walked row of the "
            "full-match state) never raises / never runs out of fuel and returns EXACTLY the specification model (state = longest "
            "pattern prefix that is a suffix of the text), same table row by row (C15_kmp_faithful); the table entries are the strong "
            "failure links (C15_kmp_table_spec); the specification model accepts exactly 'contains the substring' / 'has the suffix', "
            "incl. the empty pattern. from_substrings: the MIRROR model of the Aho-Corasick construction (trie with labels in insertion "
            "order, breadth-first failure links, output inheritance, goto completion loop, absorbing end state, early return for the "
            "empty pattern; the pattern set is a list = the iteration order, theorems for all lists) never fails, returns a valid DFA "
            "and accepts exactly the words over the alphabet that end with a pattern (must_be_suffix) / contain a pattern, or the "
            "complement - for ALL pattern lists, no hypothesis (patterns with symbols outside the alphabet included; the end state is "
            "labelled len(labels) as in the repaired code); the language does not depend on the order; the "
            "trie/failure phase satisfies the classical failure-link specification (C15_aho_corasick_links). Models tied to the code "
            "by exact table equality (the Aho-Corasick model is fed the iteration order of the very set object the implementation "
            "gets) + proved comparator (all words) + validity on every pattern of length <= 4 over 1-3 symbols, all small numeric "
            "parameters and random pattern sets (incl. sets with the empty pattern and with symbols outside the "
            "alphabet). from_finite_language: the MIRROR model of the incremental construction (the tables transitions / back_map / "
            "final_states / signatures_dict as association lists updated as the code updates them, add_to_trie, compress from the "
            "longest prefix down to the common prefix with the next word of sorted(language), redirection of the parents' edges to "
            "the registered state with the same signature (frozenset of the row = row sorted by symbol), the final "
            "compress(prev_word, ''), renaming of the surviving prefixes to numbers, validate(), _to_complete with a fresh trap; the "
            "language is a list in any order, theorems for all duplicate-free lists): for all words over the alphabet it never "
            "raises, returns a valid DFA, partial / complete as requested, accepting exactly the listed words, empty_language for the "
            "empty list (C15_from_finite_language_lang), and the result is minimal of its kind in both forms "
            "(C15_from_finite_language_minimal: invariant 'states off the path of the last word are exactly the registered ones, "
            "pairwise distinguishable, all states reachable and live'; the root differs from the others by a longest word; side "
            "condition of the complete form: non-empty alphabet). Tied to the code on every run: same refusal for a word with a "
            "symbol outside the alphabet, proved comparator (all words), and EXACT table equality after renaming the "
            "implementation's prefix-named states through the model's list of state names; plus the Coq boolean predicates on all "
            "words up to length 6-7, an independent Python predicate, and (all words) the trie built by the harness. Minimality: executable is_minimal evaluated by the extracted code on every result whose docstring promises "
            "the minimal DFA; it is proved sound (C15_is_minimal_sound: minimal among complete DFAs, and among all DFAs when flagged "
            "partial, from the Myhill-Nerode lower bound of C05) and complete; the constructor models are proved minimal for ALL "
            "parameters (C15_constructors_minimal: universal/empty, from_subsequence, from_substring/from_suffix, from_prefix, "
            "of_length with a non-empty range and a counted symbol, nth_from_start, nth_from_end) by explicit access and distinguishing "
            "words. count_mod is not promised minimal.",
            "Fixed finding (genuine defect, found while proving the Aho-Corasick language theorem; fix ae299fb): from_substrings "
            "(must_be_suffix=False) with a pattern that contains a symbol outside the alphabet - end_state = len(transitions) collided "
            "with the label of a visited trie node, e.g. DFA.from_substrings({'a'}, {'bb','aa'}) accepted 'a'; the reproducer stays as a "
            "regression (language + mirror table), foreign-symbol pattern sets are generated in both modes. Fixed earlier: from_suffix / "
            "from_substring(must_be_suffix=True) with an empty pattern; from_substrings with the empty string in the set.", "7/C15"),
    "C19": ("Coq theorems about mirror models of every validate() (first failing check of the code's sequence) against declarative "
            "well-formedness of raw definitions + differential correspondence (malformed stream; operation battery in four "
            "interpreter processes, one per combination of the two global flags)",
            "PARTIAL (proved part + monitored part). Proved for all raw definitions (unbounded; tables in dict order): the constructor's "
            "validate() returns Ok exactly on the declaratively well-formed definitions, for DFA, NFA, NPDA, DPDA (incl. acceptance "
            "mode and the lambda/symbol clash rule), DTM/NTM (one shared sequence of checks), MNTM (single-tape rules first, "
            "InconsistentTapesException only when all of them hold) and GNFA at the structural level (label validity is an input "
            "bit; the regex validator is C11's); valid_dfa / valid_nfa - the hypothesis of every other FA theorem - are exactly "
            "'duplicate-free keys and the constructor accepts'; valid_dtm / valid_ntm / valid_mntm + valid_tapes - the hypotheses of the C03/C17 theorems, on "
            "records without state/symbol sets - hold exactly when the constructor accepts the machine embedded in the raw shape over any "
            "Q, I, T, the rules about those sets and (MNTM) the explicit side conditions apart (C19_valid_tm_agrees); "
            "for DFA, NFA, GNFA (structural rules: initial/final state, final state without outgoing transitions, complete table, end states, label bit), "
            "NPDA, DPDA, DTM/NTM and MNTM every exception raised is the documented exception "
            "of a rule that really is broken (rules stated declaratively, one constructor per documented rule with its exception), a "
            "definition with a broken rule is rejected, and when all broken rules share one documented exception - in "
            "particular a single broken rule - exactly that exception is raised; PDA constructors raise only the four documented "
            "kinds; for DFA, NFA and GNFA the rules are also listed as propositions in the code's checking order and the exception raised is that of "
            "the FIRST broken rule of the list (C19_first_broken_rule_dfa/_nfa/_gnfa); the DPDA checker C02 reasons about is this checker; valid_pda is 'duplicate-free keys and the NPDA constructor accepts'; results of the Boolean DFA operations, of every expression tree of them, of DFA.from_nfa and of "
            "NFA.from_dfa pass validate() (collected from C04/C07; extended as further operations get their theorem); on a well-formed "
            "definition the constructor returns the same object with validation on or off. NOT proved, monitored on every run: that no "
            "operation reads the two process-wide flags (the same battery of ~75 operations per case runs in four separate interpreter "
            "processes; verdicts on all words up to length 5, state counts and exception kinds must be identical; every returned "
            "automaton is re-validated by validate() and by the model in all four); that the model's ORDER of checks is the code's "
            "(correspondence: implementation = model on pairs of corruptions; implementation = model = documented kind on "
            "every single-rule corruption; PDA/TM order as a list of propositions is not stated); the GNFA label rule beyond the structural level.",
            "The two flags are interpreter state (DESIGN 6): monitored, not proved. Open known finding: FA validate() accepts a "
            "transition row keyed by a name outside `states` (not a documented rule; TM classes do check it). Open known finding: "
            "GNFA.validate() accepts a transition into the initial state / initial = final state (class docstring forbids both; to_regex() then raises KeyError). PDA validate() does not "
            "check target states or pushed symbols and TM validate() does not check that the blank is outside the input symbols: "
            "neither is a documented/tested rule, none is generated.", "7/C19"),
}

PENDING = {}


def main():
    props = [json.loads(l) for l in open(os.path.join(VERIF, "properties.jsonl"))]
    checks, na = [], []
    for p in props:
        pid = p["id"]
        if pid in CHECKS:
            tech, text, extra, ref = CHECKS[pid]
            checks.append({
                "property_id": pid,
                "quick_cmd": f"/venv/bin/python harness/check.py {pid} --tier quick",
                "thorough_cmd": f"/venv/bin/python harness/check.py {pid} --tier thorough",
                "evidence_file": f"/verif/evidence/{pid}.json",
                "replay_cmd_template": "/venv/bin/python harness/check.py " + pid + " --replay {path}",
                "engine": "coq-model+extracted-driver",
                "level_claimed": {"category": "proof", "text": text, "design_ref": "DESIGN.md section " + ref},
                "level_note": NOTE + (" " + extra if extra else ""),
                "technique": tech,
            })
        else:
            na.append({"property_id": pid,
                       "reason": PENDING.get(pid, "check not built yet in this session (the technique applies; see DESIGN.md section 7)")})
    man = {
        "version": 1,
        "setup_cmd": "bash harness/build.sh",
        "hooks": {
            "guard": "CALEB531_AUTOMATA_VERIF",
            "enable": "no source hooks are needed: every observable is reached through the public API; checks import /repo's working tree directly",
            "baseline_off_cmd": "cd /repo && /venv/bin/python -m pytest -ra -q -p no:cacheprovider --timeout=900 --continue-on-collection-errors",
            "source_commits": [],
            "add_only": True,
        },
        "engines": [{
            "name": "coq-model+extracted-driver",
            "path": "/verif/coq, /verif/ocaml, /verif/harness",
            "serves_properties": [c["property_id"] for c in checks],
            "kind_free_text": "Rocq/Coq 8.16.1 development (models, specs, proofs; one Props/P_Cxx.v per property) + extracted OCaml model driver + Python differential harness",
        }],
        "checks": checks,
        "not_applicable": na,
        "notes": "See DESIGN.md. known_findings.json lists recorded defects; seeded/ holds validated property-breaking changes.",
    }
    with open(os.path.join(VERIF, "MANIFEST.json"), "w") as f:
        json.dump(man, f, indent=1)


if __name__ == "__main__":
    main()
