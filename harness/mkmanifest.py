#!/usr/bin/env python3
"""Regenerates MANIFEST.json from the table below (kept next to the checks it describes)."""
import json
import os

VERIF = os.path.dirname(os.path.dirname(os.path.abspath(__file__)))

NOTE = ("Trusted base: Coq 8.16.1 kernel; extraction (ExtrOcamlBasic only) + OCaml 4.13.1; ocaml/driver.ml; the Python "
        "harness (generators, adapters, renumbering, exception mapping). Axioms: none (every Print Assumptions answers "
        "'Closed under the global context'; the check fails otherwise). The theorems are about the Gallina model; the "
        "tie to /repo is the differential correspondence run on every invocation (hand-written model, not a translator).")

# property -> (technique, level text, extra note, design section)
CHECKS = {
    "C01": ("Coq theorems about executable DFA/NFA reader models + differential correspondence against /repo via extracted model",
            "Proved for all valid DFAs/NFAs and all words (unbounded): stepwise reading yields the textbook run (one configuration per "
            "symbol, k-th NFA set = states reachable on the first k symbols under epsilon-closure), verdict = textbook acceptance, foreign "
            "symbol / missing transition rejects, only Reject is ever raised. Model tied to the code by exact comparison of yields, "
            "outcome kind, accepts_input, `in`, read_input on generated machines x words.",
            "Open known finding: a state named None (sentinel collision).", "7/C01"),
    "C03": ("Coq theorems about executable models of TMTape and the DTM/NTM/MNTM simulators against textbook step relations on a "
            "bi-infinite tape + differential correspondence against /repo via the extracted model",
            "Proved for all tables, inputs and fuels (unbounded): tape write/move commute with the bi-infinite tape incl. L from cell 0 "
            "and R past the end; k-th DTM configuration = k-fold transition function; k-th NTM set = configurations reachable in k moves; "
            "DTM/NTM verdicts characterised exactly per fuel (accept iff final reached within budget, reject iff all branches stuck); "
            "MNTM BFS: visited configurations reachable, accept only on a reachable final state, reject only when every reachable "
            "configuration was visited and none is final; deterministic table as DTM/NTM/1-tape MNTM gives equal verdicts whenever the "
            "runs return. Partial: the breadth-first ORDER of MNTM visits (non-decreasing depth) is stated "
            "(C03_mntm_visits_reachable_statement) but only the reachability/completeness part is proved (..._partial). Model tied to the "
            "code by exact comparison of traces (state, head-relative non-blank cells), NTM levels as sets, generator endings, "
            "accepts_input/read_input under a step budget.",
            "Runs are compared up to the step budget only (halting is not assumed).", "7/C03"),
    "C17": ("Coq theorems about an executable, index-by-index model of MNTM.read_input_as_ntm's extended-tape splicing (after the "
            "left-boundary repair) against the C03 tape step and the multitape step relation + differential correspondence against /repo",
            "Proved for all machines with consistent tapes, inputs and fuels (unbounded): one virtual-tape write+move re-establishes the "
            "encoding for L/R/N in the interior, at the left end and at the right end (C17_apply_move_encodes), hence for all tapes of a "
            "transition; head extraction on an encoding never reports a malformed tape; one BFS iteration appends exactly the encodings of the "
            "multitape successors and accepts iff the state is final (C17_step_simulates); the simulation's verdict is sound for every fuel and "
            "it ends only by acceptance, the rejection exception or fuel exhaustion (C17_simulation_verdict); simulation and native run give "
            "the same verdict for every pair of fuels on which both return (C17_verdict_agreement). Model tied to the code by exact comparison "
            "of every yielded (state, extended tape, position) and the generator ending; the implementation's two runs are also compared with "
            "each other directly.",
            "Tape alphabets containing the marker characters '^' or '_' are outside the model (typed markers) and are not generated. "
            "The model is of the repaired left-boundary branch (DESIGN section 8 row 11); on a tree without that repair the check reports "
            "the defect as a violation.", "7/C17"),
}

PENDING = {}


def main():
    props = [json.loads(l) for l in open(os.path.join(VERIF, "properties.jsonl"))]
    checks, na = [], []
    for p in props:
        pid = p["id"]
        if pid in CHECKS:
            tech, text, extra, ref = CHECKS[pid]
            checks.append({
                "property_id": pid,
                "quick_cmd": f"/venv/bin/python harness/check.py {pid} --tier quick",
                "thorough_cmd": f"/venv/bin/python harness/check.py {pid} --tier thorough",
                "evidence_file": f"/verif/evidence/{pid}.json",
                "replay_cmd_template": "/venv/bin/python harness/check.py " + pid + " --replay {path}",
                "engine": "coq-model+extracted-driver",
                "level_claimed": {"category": "proof", "text": text, "design_ref": "DESIGN.md section " + ref},
                "level_note": NOTE + (" " + extra if extra else ""),
                "technique": tech,
            })
        else:
            na.append({"property_id": pid,
                       "reason": PENDING.get(pid, "check not built yet in this session (the technique applies; see DESIGN.md section 7)")})
    man = {
        "version": 1,
        "setup_cmd": "bash harness/build.sh",
        "hooks": {
            "guard": "CALEB531_AUTOMATA_VERIF",
            "enable": "no source hooks are needed: every observable is reached through the public API; checks import /repo's working tree directly",
            "baseline_off_cmd": "cd /repo && /venv/bin/python -m pytest -ra -q -p no:cacheprovider --timeout=900 --continue-on-collection-errors",
            "source_commits": [],
            "add_only": True,
        },
        "engines": [{
            "name": "coq-model+extracted-driver",
            "path": "/verif/coq, /verif/ocaml, /verif/harness",
            "serves_properties": [c["property_id"] for c in checks],
            "kind_free_text": "Rocq/Coq 8.16.1 development (models, specs, proofs; one Props/P_Cxx.v per property) + extracted OCaml model driver + Python differential harness",
        }],
        "checks": checks,
        "not_applicable": na,
        "notes": "See DESIGN.md. known_findings.json lists recorded defects; seeded/ holds validated property-breaking changes.",
    }
    with open(os.path.join(VERIF, "MANIFEST.json"), "w") as f:
        json.dump(man, f, indent=1)


if __name__ == "__main__":
    main()
