#!/usr/bin/env python3
"""Regenerates MANIFEST.json from the table below (kept next to the checks it describes)."""
import json
import os

VERIF = os.path.dirname(os.path.dirname(os.path.abspath(__file__)))

NOTE = ("Trusted base: Coq 8.16.1 kernel; extraction (ExtrOcamlBasic only) + OCaml 4.13.1; ocaml/driver.ml; the Python "
        "harness (generators, adapters, renumbering, exception mapping). Axioms: none (every Print Assumptions answers "
        "'Closed under the global context'; the check fails otherwise). The theorems are about the Gallina model; the "
        "tie to /repo is the differential correspondence run on every invocation (hand-written model, not a translator).")

# property -> (technique, level text, extra note, design section)
CHECKS = {
    "C01": ("Coq theorems about executable DFA/NFA reader models + differential correspondence against /repo via extracted model",
            "Proved for all valid DFAs/NFAs and all words (unbounded): stepwise reading yields the textbook run (one configuration per "
            "symbol, k-th NFA set = states reachable on the first k symbols under epsilon-closure), verdict = textbook acceptance, foreign "
            "symbol / missing transition rejects, only Reject is ever raised. Model tied to the code by exact comparison of yields, "
            "outcome kind, accepts_input, `in`, read_input on generated machines x words.",
            "Open known finding: a state named None (sentinel collision).", "7/C01"),
    "C02": ("Coq theorems about executable NPDA/DPDA reader models (Python stack orientation, level-by-level generator, DPDA loop, "
            "constructor's nondeterminism scan) against a declarative textbook PDA semantics + differential correspondence against /repo",
            "Proved for all tables, all words, all three acceptance modes and every fuel (unbounded; no validity hypothesis for the NPDA "
            "statements): stack replace puts the first pushed symbol on top; NPDA successor set = textbook one-move relation; the k-th set "
            "yielded by NPDA.read_input_stepwise is exactly the set of configurations reachable in k moves; NPDA verdict True => an accepting "
            "move sequence exists (start configuration included), False => none exists, and an accepted word is accepted on every large "
            "enough fuel; the DPDA constructor accepts a well-formed table iff no configuration has two applicable moves (only "
            "NondeterminismError otherwise); on such a table the k-th DPDA configuration is the unique configuration reachable in k moves, "
            "the DPDA verdict is the textbook verdict, only return/RejectionException end the run, and DPDA and NPDA verdicts coincide on "
            "every pair of fuels on which both return. Termination is not proved (it does not hold in general): Err Fuel is excluded by "
            "the statements, as the property's quantifier allows. Model tied to the code by exact comparison of every yielded "
            "configuration (set), the way the generator ends, accepts_input, the constructor's exception kind, and DPDA-vs-NPDA verdicts "
            "on the implementation alone; implementation always run under a budget of yields.",
            "The model follows DPDA.read_input_stepwise AFTER the repair of DESIGN section 8 row 1 (acceptance test on the start "
            "configuration); on a tree without that repair the check reports the defect as a VIOLATION. A stack symbol '' (PDAStack.top() "
            "answers '' on an empty stack) is outside the modelled domain.", "7/C02"),
}

PENDING = {}


def main():
    props = [json.loads(l) for l in open(os.path.join(VERIF, "properties.jsonl"))]
    checks, na = [], []
    for p in props:
        pid = p["id"]
        if pid in CHECKS:
            tech, text, extra, ref = CHECKS[pid]
            checks.append({
                "property_id": pid,
                "quick_cmd": f"/venv/bin/python harness/check.py {pid} --tier quick",
                "thorough_cmd": f"/venv/bin/python harness/check.py {pid} --tier thorough",
                "evidence_file": f"/verif/evidence/{pid}.json",
                "replay_cmd_template": "/venv/bin/python harness/check.py " + pid + " --replay {path}",
                "engine": "coq-model+extracted-driver",
                "level_claimed": {"category": "proof", "text": text, "design_ref": "DESIGN.md section " + ref},
                "level_note": NOTE + (" " + extra if extra else ""),
                "technique": tech,
            })
        else:
            na.append({"property_id": pid,
                       "reason": PENDING.get(pid, "check not built yet in this session (the technique applies; see DESIGN.md section 7)")})
    man = {
        "version": 1,
        "setup_cmd": "bash harness/build.sh",
        "hooks": {
            "guard": "CALEB531_AUTOMATA_VERIF",
            "enable": "no source hooks are needed: every observable is reached through the public API; checks import /repo's working tree directly",
            "baseline_off_cmd": "cd /repo && /venv/bin/python -m pytest -ra -q -p no:cacheprovider --timeout=900 --continue-on-collection-errors",
            "source_commits": [],
            "add_only": True,
        },
        "engines": [{
            "name": "coq-model+extracted-driver",
            "path": "/verif/coq, /verif/ocaml, /verif/harness",
            "serves_properties": [c["property_id"] for c in checks],
            "kind_free_text": "Rocq/Coq 8.16.1 development (models, specs, proofs; one Props/P_Cxx.v per property) + extracted OCaml model driver + Python differential harness",
        }],
        "checks": checks,
        "not_applicable": na,
        "notes": "See DESIGN.md. known_findings.json lists recorded defects; seeded/ holds validated property-breaking changes.",
    }
    with open(os.path.join(VERIF, "MANIFEST.json"), "w") as f:
        json.dump(man, f, indent=1)


if __name__ == "__main__":
    main()
