#!/usr/bin/env python3
"""Robustness sweep (supplementary to seeded.py, which is the run that counts): how often does the owning check catch
each seeded change when the random streams are different ?

  robust.py [ids...] [--seeds=1,2,3] [--jobs=8]

Runs only the correspondence half (--no-proof) of the owning check (+ meta.also_run) under each VERIF_SEED, against
scratch worktrees of /repo outside /repo and /verif (env VERIF_REPO / VERIF_OUT, development switches that registered
commands never set), several side by side; removes the worktrees afterwards.  Writes seeded/ROBUSTNESS.json:
{id: {"Cxx@seed": detected?}}.  /repo itself is not touched."""
import json
import os
import subprocess
import sys
from concurrent.futures import ThreadPoolExecutor

VERIF = os.path.dirname(os.path.dirname(os.path.abspath(__file__)))
ROOT = os.path.join(VERIF, "seeded")
BASE = f"/tmp/robust-{os.getpid()}"


def sh(cmd, **kw):
    return subprocess.run(cmd, shell=True, capture_output=True, text=True, **kw)


def worker(k, jobs, seeds, out):
    wt = f"{BASE}/w{k}"
    assert sh(f"git -C /repo worktree add --detach {wt}").returncode == 0
    try:
        for sid in jobs:
            d = os.path.join(ROOT, sid)
            meta = json.load(open(os.path.join(d, "meta.json")))
            sh(f"git -C {wt} checkout -- . && git -C {wt} clean -fdq")
            if sh(f"git -C {wt} apply {os.path.join(d, 'patch.diff')}").returncode != 0:
                out[sid] = {"error": "patch does not apply"}
                continue
            per = {}
            for p in [meta["property"]] + meta.get("also_run", []):
                for sd in seeds:
                    env = dict(os.environ, VERIF_REPO=wt, VERIF_OUT=f"{BASE}/out{k}", VERIF_SEED=sd)
                    try:
                        r = sh(f"/venv/bin/python harness/check.py {p} --tier quick --no-proof", cwd=VERIF, timeout=3000, env=env)
                        lines = r.stdout.splitlines()
                        viol = any(l.startswith("VIOLATION") for l in lines)
                        broke = any(l.startswith("  the check itself failed") for l in lines)
                        per[f"{p}@{sd}"] = "harness-error" if broke else viol
                    except subprocess.TimeoutExpired:
                        per[f"{p}@{sd}"] = "timeout"
            out[sid] = per
            n = sum(1 for v in per.values() if v is True)
            print(sid, f"{n}/{len(per)}", " ".join(k2 for k2, v in per.items() if v is not True), flush=True)
    finally:
        sh(f"git -C /repo worktree remove --force {wt}")


def main():
    ids = [a for a in sys.argv[1:] if not a.startswith("--")]
    seeds = next((a.split("=", 1)[1].split(",") for a in sys.argv[1:] if a.startswith("--seeds=")), ["1", "2", "3"])
    jobs = int(next((a.split("=", 1)[1] for a in sys.argv[1:] if a.startswith("--jobs=")), "8"))
    ids = ids or sorted(d for d in os.listdir(ROOT) if os.path.isfile(os.path.join(ROOT, d, "meta.json")))
    ids = [i for i in ids if os.path.isfile(os.path.join(ROOT, i, "meta.json"))]
    os.makedirs(BASE, exist_ok=True)
    out = {}
    try:
        with ThreadPoolExecutor(jobs) as ex:
            list(ex.map(lambda k: worker(k, ids[k::jobs], seeds, out), range(jobs)))
    finally:
        sh(f"rm -rf {BASE}; git -C /repo worktree prune")
    resfile = os.path.join(ROOT, "ROBUSTNESS.json")
    results = json.load(open(resfile)) if os.path.exists(resfile) else {}
    for sid, per in out.items():
        results.setdefault(sid, {}).update(per)
    json.dump(results, open(resfile, "w"), indent=1, sort_keys=True)
    weak = {s: p for s, p in out.items() if not all(v is True for v in p.values())}
    print(f"{len(out) - len(weak)}/{len(out)} caught under every seed; not always: {sorted(weak)}")


if __name__ == "__main__":
    sys.exit(main())
