"""Python values <-> itree text; canonical renumbering of states and symbols."""
from __future__ import annotations


def tree(x) -> str:
    """Nested lists/tuples of non-negative ints (bools count as 0/1, None as [])."""
    if x is None:
        return "[]"
    if isinstance(x, bool):
        return "1" if x else "0"
    if isinstance(x, int):
        if x < 0:
            raise ValueError("negative int on the wire")
        return str(x)
    return "[" + ",".join(tree(y) for y in x) + "]"


def parse(s: str):
    pos = 0

    def go():
        nonlocal pos
        if s[pos] == "[":
            pos += 1
            items = []
            if s[pos] == "]":
                pos += 1
                return items
            while True:
                items.append(go())
                if s[pos] == ",":
                    pos += 1
                elif s[pos] == "]":
                    pos += 1
                    return items
                else:
                    raise ValueError("bad tree: " + s)
        st = pos
        while pos < len(s) and s[pos].isdigit():
            pos += 1
        return int(s[st:pos])

    r = go()
    if pos != len(s):
        raise ValueError("trailing input: " + s)
    return r


def sort_key(v):
    """Total order on heterogeneous hashable state names (stable across runs)."""
    if isinstance(v, bool):
        return (0, int(v))
    if isinstance(v, int):
        return (1, v)
    if isinstance(v, str):
        return (2, v)
    if isinstance(v, tuple):
        return (3, tuple(sort_key(x) for x in v))
    if isinstance(v, frozenset):
        return (4, tuple(sorted(sort_key(x) for x in v)))
    if v is None:
        return (5, 0)
    return (6, repr(v))


class Renum:
    """Dense numbering of a collection of hashable names, in sort_key order."""

    def __init__(self, names):
        self.names = sorted(set(names), key=sort_key)
        self.idx = {n: i for i, n in enumerate(self.names)}

    def __call__(self, n):
        return self.idx[n]

    def __len__(self):
        return len(self.names)


class SymMap:
    """Alphabet symbols numbered in code-point order (or by a user key); symbols
    outside the alphabet get the next numbers (sorted), so they stay foreign."""

    def __init__(self, input_symbols, extra="", key=None):
        base = sorted(input_symbols, key=key) if key else sorted(input_symbols)
        foreign = sorted(set(extra) - set(input_symbols))
        self.syms = base
        self.all = base + foreign
        self.idx = {c: i for i, c in enumerate(self.all)}

    def __call__(self, c):
        return self.idx[c]

    def word(self, s):
        return [self.idx[c] for c in s]

    def unword(self, w):
        return "".join(self.all[i] for i in w)

    @property
    def n(self):
        return len(self.syms)


def dfa_names(d):
    names = set(d.states) | set(d.final_states) | {d.initial_state}
    for q, row in d.transitions.items():
        names.add(q)
        names.update(row.values())
    return names


def enc_dfa(d, st: Renum = None, sy: SymMap = None):
    """DFA object (or any object with the same attributes) -> wire value."""
    st = st or Renum(dfa_names(d))
    sy = sy or SymMap(d.input_symbols, "".join(c for row in d.transitions.values() for c in row))
    trans = [
        [st(q), sorted([sy(a), st(t)] for a, t in row.items())]
        for q, row in sorted(d.transitions.items(), key=lambda kv: st(kv[0]))
    ]
    return [
        sorted(st(q) for q in d.states),
        [sy(a) for a in sy.syms],
        trans,
        st(d.initial_state),
        sorted(st(q) for q in d.final_states),
        bool(d.allow_partial),
    ]


def nfa_names(n):
    names = set(n.states) | set(n.final_states) | {n.initial_state}
    for q, row in n.transitions.items():
        names.add(q)
        for ts in row.values():
            names.update(ts)
    return names


def enc_nfa(n, st: Renum = None, sy: SymMap = None):
    st = st or Renum(nfa_names(n))
    sy = sy or SymMap(n.input_symbols, "".join(c for row in n.transitions.values() for c in row))
    trans = [
        [
            st(q),
            sorted([0 if a == "" else sy(a) + 1, sorted(st(t) for t in ts)] for a, ts in row.items()),
        ]
        for q, row in sorted(n.transitions.items(), key=lambda kv: st(kv[0]))
    ]
    return [
        sorted(st(q) for q in n.states),
        [sy(a) for a in sy.syms],
        trans,
        st(n.initial_state),
        sorted(st(q) for q in n.final_states),
    ]


def dec_res(r):
    """[1, v] -> ('ok', v); [0, code] -> ('err', code)."""
    if r[0] == 1:
        return ("ok", r[1])
    return ("err", r[1])


# error codes, as Base/Util.v err_code
REJECT, KEYERR, INDEXERR, MISMATCH, INFINITE, EMPTY, VALUEERR, FUEL = 1, 2, 3, 5, 6, 7, 8, 9
BAD_INPUT = 99


def exc_code(e: BaseException) -> int:
    """Python exception -> the model's error enum."""
    import automata.base.exceptions as ex

    if isinstance(e, ex.RejectionException):
        return REJECT
    if isinstance(e, KeyError):
        return KEYERR
    if isinstance(e, IndexError):
        return INDEXERR
    if isinstance(e, ex.SymbolMismatchError):
        return MISMATCH
    if isinstance(e, ex.InfiniteLanguageException):
        return INFINITE
    if isinstance(e, ex.EmptyLanguageException):
        return EMPTY
    if isinstance(e, ValueError):
        return VALUEERR
    table = [
        (ex.InvalidStateError, 101), (ex.InvalidSymbolError, 102), (ex.MissingStateError, 103),
        (ex.MissingSymbolError, 104), (ex.InitialStateError, 105), (ex.FinalStateError, 106),
        (ex.LexerError, 111), (ex.InvalidRegexError, 110),
    ]
    import automata.pda.exceptions as pda_ex

    table += [(pda_ex.NondeterminismError, 120), (pda_ex.InvalidAcceptanceModeError, 121)]
    import automata.tm.exceptions as tm_ex

    table += [(tm_ex.InvalidDirectionError, 130), (tm_ex.InconsistentTapesException, 131)]
    for cls, code in table:
        if isinstance(e, cls):
            return code
    return 50 + (abs(hash(type(e).__name__)) % 40)
