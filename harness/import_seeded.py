#!/usr/bin/env python3
"""Validate sub-agent mutations and keep the good ones:  import_seeded.py <agent-output-dir> <property>

For each <dir>/<X>/patch.diff + demo.py: in a scratch worktree of /repo (under /tmp, removed afterwards):
demo exits 0 on the clean tree; the patch applies; the pinned test suite gives exactly the baseline pass/fail
sets; demo exits non-zero with the patch. Kept as /verif/seeded/<prop>-<X>/ {patch.diff, demo.py, notes.md, meta.json}."""
import json
import os
import re
import shutil
import subprocess
import sys

VERIF = os.path.dirname(os.path.dirname(os.path.abspath(__file__)))


def sh(cmd, **kw):
    return subprocess.run(cmd, shell=True, capture_output=True, text=True, **kw)


def test_ids(wt):
    r = sh(f"cd {wt} && PYTHONPATH={wt} /venv/bin/python -m pytest -q -p no:cacheprovider --timeout=900 "
           f"--continue-on-collection-errors -rA 2>&1 | grep -E '^(PASSED|FAILED|ERROR) '", timeout=1800)
    passed = sorted(l.split()[1] for l in r.stdout.splitlines() if l.startswith("PASSED"))
    failed = sorted(l.split()[1] for l in r.stdout.splitlines() if not l.startswith("PASSED"))
    return passed, failed


def main():
    src, prop = sys.argv[1], sys.argv[2]
    tag = sys.argv[3] if len(sys.argv) > 3 else ""
    wt = f"/tmp/seedcheck-{prop}"
    sh(f"git -C /repo worktree remove --force {wt}")
    assert sh(f"git -C /repo worktree add --detach {wt}").returncode == 0
    try:
        base = test_ids(wt)
        print("baseline:", len(base[0]), "passed", len(base[1]), "failed")
        for x in sorted(os.listdir(src)):
            d = os.path.join(src, x)
            if not os.path.isfile(os.path.join(d, "patch.diff")):
                continue
            sid = f"{prop}-{tag}{x}"
            sh(f"git -C {wt} checkout -- . && git -C {wt} clean -fdq")
            demo = os.path.join(d, "demo.py")
            r0 = sh(f"PYTHONHASHSEED=0 /venv/bin/python {demo} {wt}", timeout=600)
            ap = sh(f"git -C {wt} apply {os.path.join(d, 'patch.diff')}")
            if ap.returncode != 0:
                print(sid, "REJECTED: patch does not apply", ap.stderr[:200])
                continue
            ids = test_ids(wt)
            r1 = sh(f"PYTHONHASHSEED=0 /venv/bin/python {demo} {wt}", timeout=600)
            ok = r0.returncode == 0 and r1.returncode != 0 and ids == base
            print(sid, "demo clean:", r0.returncode, "demo patched:", r1.returncode, "tests same:", ids == base,
                  "-> KEPT" if ok else "-> REJECTED")
            if not ok:
                continue
            out = os.path.join(VERIF, "seeded", sid)
            os.makedirs(out, exist_ok=True)
            shutil.copy(os.path.join(d, "patch.diff"), out)
            shutil.copy(demo, out)
            notes = os.path.join(d, "notes.md")
            if os.path.exists(notes):
                shutil.copy(notes, out)
            files = re.findall(r"^\+\+\+ b/(\S+)", open(os.path.join(d, "patch.diff")).read(), re.M)
            meta = {"id": sid, "property": prop, "files": files,
                    "needs": (open(notes).read()[:1500] if os.path.exists(notes) else ""),
                    "validated": {"demo_exit_clean": r0.returncode, "demo_exit_patched": r1.returncode,
                                  "tests_passed": len(ids[0]), "tests_failed": len(ids[1]), "same_as_baseline": True,
                                  "demo_output_patched": (r1.stdout + r1.stderr)[-600:]},
                    "ran": ["git apply patch.diff (scratch worktree of /repo)", "pinned pytest command, pass/fail id sets compared with baseline",
                            "demo.py <worktree> before and after"]}
            json.dump(meta, open(os.path.join(out, "meta.json"), "w"), indent=1)
    finally:
        sh(f"git -C /repo worktree remove --force {wt}")


if __name__ == "__main__":
    main()
