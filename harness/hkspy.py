"""Harness-side observation of the union-find inside DFA.__eq__ / NFA.__eq__ (C06, C09).

`__eq__` creates its UnionFind through the attribute `nx.utils.union_find.UnionFind` at call time, so a
recording subclass can be put there for the duration of one comparison (no change to the library).  What is
recorded is what the mirror model (coq/Model/HK.v) needs as its schedule and what it predicts:

* calls  - the arguments of every `union` call, in order (the first is the initial pair; every later one is the
           pair of roots that is also pushed on the stack);
* first_wins - the ordered root pairs on which the first root became the root of the merged tree (the model
           consults this only when the two weights are equal; everything else is determined);
* the iteration order of `self.input_symbols` is read off the operand itself.
"""
from __future__ import annotations

import contextlib

import networkx as nx

_Base = nx.utils.union_find.UnionFind


class _Recorder:
    def __init__(self):
        self.calls = []
        self.first_wins = []


@contextlib.contextmanager
def spy():
    rec = _Recorder()

    class SpyUF(_Base):
        def union(self, *objects):
            rec.calls.append(tuple(objects))
            roots = [self[x] for x in objects]  # what union itself does first; idempotent
            super().union(*objects)
            if len(roots) == 2 and roots[0] != roots[1] and self.parents[roots[1]] == roots[0]:
                rec.first_wins.append((roots[0], roots[1]))

    module = nx.utils.union_find
    module.UnionFind = SpyUF
    try:
        yield rec
    finally:
        module.UnionFind = _Base


def observe_eq(a, b):
    """Run a == b under the spy: (outcome of ==, recorder)."""
    from props.common import outcome

    with spy() as rec:
        got = outcome(lambda: a == b)
    return got, rec
