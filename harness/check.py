#!/venv/bin/python
"""Entry point:  check.py Cxx [--tier quick|thorough] [--replay file]"""
from __future__ import annotations

import argparse
import importlib
import json
import os
import sys
import traceback

if os.environ.get("PYTHONHASHSEED") != "0":
    os.environ["PYTHONHASHSEED"] = "0"
    os.execv(sys.executable, [sys.executable, "-B"] + sys.argv)

HERE = os.path.dirname(os.path.abspath(__file__))
sys.path.insert(0, HERE)
sys.path.insert(0, os.environ.get("VERIF_REPO", "/repo"))   # implementation under test: /repo's working tree
# (VERIF_REPO points development runs at a scratch copy; registered commands never set it)
sys.dont_write_bytecode = True

import core  # noqa: E402


def main():
    ap = argparse.ArgumentParser()
    ap.add_argument("prop")
    ap.add_argument("--tier", default=os.environ.get("VERIF_TIER", "quick"))
    ap.add_argument("--replay")
    ap.add_argument("--no-proof", action="store_true", help="(development) skip the proof step")
    a = ap.parse_args()
    tier = os.environ.get("VERIF_TIER") or a.tier
    if tier not in ("quick", "thorough"):
        tier = "quick"
    seed = int(os.environ.get("VERIF_SEED", "20261001"))
    prop = a.prop.upper()
    mod = importlib.import_module("props." + prop.lower())
    ctx = core.Ctx(prop, tier, seed)

    if a.replay:
        case = json.load(open(a.replay))
        core.build()
        mod.replay(ctx, case)
        return 0

    if a.no_proof:
        core.build()
        proof = {"obligations": 0, "discharged": 0, "assumptions": [], "ok": True, "log": "", "theorems": []}
    else:
        proof = core.proof_step(prop, tier)
    try:
        mod.run(ctx)
    except Exception:
        tb = traceback.format_exc()
        ctx.violation("the check itself failed: " + tb.splitlines()[-1],
                      {"kind": "harness-error", "traceback": tb, "correspondence": prop + "/harness"}, confirmed=False)
    if not proof["ok"]:
        if ctx.violations:
            print(f"  (proof step for {prop} also failed; see evidence)")
        else:
            ctx.violation(
                f"proof obligation no longer checks: Props/P_{prop}.v ({', '.join(proof['theorems']) or 'missing'}); "
                "correspondence search found no failing input",
                {"kind": "proof-broken", "theorem_file": f"coq/Props/P_{prop}.v", "theorems": proof["theorems"],
                 "log_tail": proof["log"][-1500:]}, confirmed=False)
    path = core.write_evidence(ctx, proof)
    print(f"{prop} {tier}: obligations={proof['obligations']} discharged={proof['discharged']} "
          f"evaluations={ctx.evaluations} distinct_nontrivial={len(ctx.distinct)} "
          f"violations={len(ctx.violations)} known={len(ctx.known_reported)} wall={core.time.time() - ctx.t0:.1f}s -> {path}")
    return 1 if ctx.violations else 0


if __name__ == "__main__":
    sys.exit(main())
