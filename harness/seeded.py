#!/usr/bin/env python3
"""Run the registered checks against the validated property-breaking changes under /verif/seeded.

  seeded.py [ids...] [--tier quick|thorough] [--all-props]

For every seeded/<id>/ (patch.diff + meta.json): /repo must be clean; apply the patch, run the check of the
property the change breaks (and with --all-props every check), record which checks report a VIOLATION, undo
the patch (git checkout -- .) whatever happens. Writes seeded/RESULTS.json. Never commits anything to /repo."""
import json
import os
import subprocess
import sys

VERIF = os.path.dirname(os.path.dirname(os.path.abspath(__file__)))
REPO = "/repo"


def sh(cmd, **kw):
    return subprocess.run(cmd, shell=True, capture_output=True, text=True, **kw)


def main():
    args = [a for a in sys.argv[1:] if not a.startswith("--")]
    tier = "thorough" if "--tier=thorough" in sys.argv or "thorough" in sys.argv[1:] and "--tier" in sys.argv else "quick"
    allprops = "--all-props" in sys.argv
    if sh("git -C /repo status --porcelain --untracked-files=no").stdout.strip():
        print("refusing: /repo has uncommitted changes")
        return 2
    root = os.path.join(VERIF, "seeded")
    ids = args or sorted(d for d in os.listdir(root) if os.path.isfile(os.path.join(root, d, "patch.diff")))
    ids = [i for i in ids if os.path.isfile(os.path.join(root, i, "meta.json"))]
    man = json.load(open(os.path.join(VERIF, "MANIFEST.json")))
    cmds = {c["property_id"]: c["quick_cmd" if tier == "quick" else "thorough_cmd"] for c in man["checks"]}
    resfile = os.path.join(root, "RESULTS.json")
    results = json.load(open(resfile)) if os.path.exists(resfile) else {}
    for sid in ids:
        d = os.path.join(root, sid)
        meta = json.load(open(os.path.join(d, "meta.json")))
        props = list(cmds) if allprops else [meta["property"]] + meta.get("also_run", [])
        ap = sh(f"git -C {REPO} apply {os.path.join(d, 'patch.diff')}")
        if ap.returncode != 0:
            print(sid, "patch does not apply:", ap.stderr.strip()[:200])
            results[sid] = {"error": "patch does not apply"}
            continue
        try:
            hit = {}
            for p in props:
                if p not in cmds:
                    hit[p] = "no-check"
                    continue
                r = sh(cmds[p], cwd=VERIF, timeout=3600)
                viol = [l for l in r.stdout.splitlines() if l.startswith("VIOLATION")]
                hit[p] = {"exit": r.returncode, "violations": len(viol), "first": (viol[0] if viol else ""),
                          "detail": next((l.strip() for l in r.stdout.splitlines() if l.startswith("  ")), "")[:300]}
                print(sid, p, ("HARNESS-ERROR" if "the check itself failed" in hit[p]["detail"] else "DETECTED") if viol else "missed", hit[p]["detail"][:160], flush=True)
            results[sid] = {"property": meta["property"], "tier": tier, "checks": hit,
                            "detected_by": [p for p, h in hit.items() if isinstance(h, dict) and h["violations"]]}
        finally:
            sh(f"git -C {REPO} checkout -- .")
    json.dump(results, open(resfile, "w"), indent=1, sort_keys=True)
    return 0


if __name__ == "__main__":
    sys.exit(main())
