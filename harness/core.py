"""Shared machinery of the checks: build/proof step, model driver, counting,
violations, known findings, evidence."""
from __future__ import annotations

import hashlib
import json
import os
import random
import re
import subprocess
import sys
import time

VERIF = os.path.dirname(os.path.dirname(os.path.abspath(__file__)))
COQ = os.path.join(VERIF, "coq")
DRIVER = os.path.join(VERIF, "bin", "model_driver")
REPO = "/repo"
# (development only, like VERIF_REPO: sweeps that run many checks side by side write their evidence and replays elsewhere;
# registered commands never set it)
OUT = os.environ.get("VERIF_OUT", VERIF)

FORBIDDEN = re.compile(
    r"\b(Admitted|admit|Axiom|Axioms|Parameter|Parameters|Conjecture|Conjectures|Admit Obligations)\b"
    r"|Unset\s+Guard|bypass_check|type-in-type|impredicative-set|Unset\s+Universe|Unset\s+Positivity"
)
# axioms declared by the standard library that a proof may rely on (named in DESIGN section 6)
ALLOWED_AXIOMS = ()

TRUSTED_BASE = [
    "Coq 8.16.1 kernel (coqc); no native_compute",
    "Coq extraction with ExtrOcamlBasic only (bool, option, unit, list, prod, sumbool, sumor mapped to OCaml; nat/N/positive stay inductive); OCaml 4.13.1",
    "ocaml/driver.ml (itree parser/printer, int<->N/nat conversion, read-eval-print loop)",
    "Python harness: generators, adapters calling /repo, state/symbol renumbering, exception->enum mapping, comparison of answers",
    "modelled, not verified: the Python implementation itself (CPython dict/set/generator semantics, networkx, frozendict, cached_method, random.Random)",
]


def run(cmd, timeout, cwd=None, inp=None):
    p = subprocess.run(cmd, cwd=cwd, input=inp, capture_output=True, text=True, timeout=timeout)
    return p.returncode, p.stdout, p.stderr


def build(log=None):
    """Bring coq/ and the driver up to date (no-op when fresh)."""
    rc, out, err = run(["bash", os.path.join(VERIF, "harness", "build.sh")], 3400)
    if log is not None:
        log.append(out[-2000:] + err[-2000:])
    return rc == 0, out + err


def scan_forbidden():
    hits = []
    for root, _, files in os.walk(COQ):
        for f in files:
            if f.endswith(".v"):
                p = os.path.join(root, f)
                txt = open(p).read()
                # strip comments (non-nested approximation is enough: we never write the tokens in comments)
                for m in FORBIDDEN.finditer(txt):
                    hits.append(f"{os.path.relpath(p, VERIF)}:{txt[:m.start()].count(chr(10)) + 1}:{m.group(0)}")
    return hits


def coqchk_step(prop: str, res):
    """Thorough tier: re-check the property's compiled files and all they depend on with the independent checker."""
    try:
        rc, out, err = run(["coqchk", "-o", "-silent", "-Q", ".", "AV", f"AV.Props.P_{prop}"], 3000, cwd=COQ)
    except subprocess.TimeoutExpired:
        res["coqchk"] = "timed out"
        return False
    tail = out[out.find("CONTEXT SUMMARY"):] if "CONTEXT SUMMARY" in out else (out + err)[-800:]
    res["coqchk"] = " ".join(tail.split())
    clean = all(f"* {k}: <none>" in tail for k in (
        "Axioms", "Constants/Inductives relying on type-in-type",
        "Constants/Inductives relying on unsafe (co)fixpoints", "Inductives whose positivity is assumed"))
    return rc == 0 and clean


def proof_step(prop: str, tier: str = "quick"):
    """Re-check Props/P_<prop>.v; returns dict(obligations, discharged, assumptions, ok, log)."""
    res = {"obligations": 0, "discharged": 0, "assumptions": [], "ok": False, "log": "", "theorems": []}
    ok, log = build()
    if not ok:
        res["log"] = "build failed:\n" + log[-3000:]
        # still count the theorems that are stated
        src = os.path.join(COQ, "Props", f"P_{prop}.v")
        if os.path.exists(src):
            res["theorems"] = re.findall(r"^\s*Theorem\s+(\w+)", open(src).read(), re.M)
            res["obligations"] = len(res["theorems"])
        return res
    hits = scan_forbidden()
    src = os.path.join(COQ, "Props", f"P_{prop}.v")
    if not os.path.exists(src):
        res["log"] = "no property file " + src
        return res
    # P_Cxx.v plus optional continuation files P_Cxxb.v, P_Cxxc.v ...
    files = [f"P_{prop}.v"] + sorted(f for f in os.listdir(os.path.join(COQ, "Props"))
                                      if re.fullmatch(rf"P_{prop}[a-z]\.v", f))
    thms, out = [], ""
    for fn in files:
        text = open(os.path.join(COQ, "Props", fn)).read()
        thms += re.findall(r"^\s*Theorem\s+(\w+)", text, re.M)
    res["theorems"] = thms
    res["obligations"] = len(thms)
    for fn in files:
        try:
            rc, o, err = run(["coqc", "-Q", ".", "AV", f"Props/{fn}"], 900, cwd=COQ)
        except subprocess.TimeoutExpired:
            res["log"] = "coqc timed out on " + fn
            return res
        res["log"] = (o + err)[-4000:]
        if rc != 0:
            return res
        out += o
    # one answer per Print Assumptions
    answers = re.split(r"(?=Closed under the global context|Axioms:)", out)
    answers = [a.strip() for a in answers if a.startswith("Closed under") or a.startswith("Axioms:")]
    res["assumptions"] = answers
    closed = 0
    bad = []
    for a in answers:
        if a.startswith("Closed under"):
            closed += 1
        else:
            names = re.findall(r"^([\w.']+)\s*:", a, re.M)
            extra = [n for n in names if n not in ALLOWED_AXIOMS and n != "Axioms"]
            if extra:
                bad.append(extra)
            else:
                closed += 1
    res["discharged"] = min(closed, len(thms))
    if hits:
        res["log"] += "\nforbidden tokens: " + "; ".join(hits)
    res["ok"] = (not hits) and not bad and len(answers) >= len(thms) and closed >= len(thms) and len(thms) > 0
    if bad:
        res["log"] += "\nunexpected axioms: " + repr(bad)
    if res["ok"] and tier == "thorough":
        if not coqchk_step(prop, res):
            res["ok"] = False
            res["log"] += "\ncoqchk: " + str(res.get("coqchk"))
    return res


class Driver:
    """Batch interface to bin/model_driver."""

    def __init__(self):
        self.calls = 0

    TIMEOUT_ANSWER = [0, 96]     # "the driver did not answer this request in time" (never a model answer)

    def batch(self, items, timeout=300, tolerant=False, item_timeout=60):
        """items: iterable of (prop, op, tree_text) -> list of parsed answers.
        tolerant=True: a request the driver cannot answer within item_timeout yields TIMEOUT_ANSWER instead of an
        exception (the batch is bisected); the caller must count such answers as inconclusive, never as agreement."""
        items = list(items)
        if not items:
            return []
        try:
            return self._run(items, timeout)
        except subprocess.TimeoutExpired:
            if not tolerant:
                # a large batch on a loaded machine: halves get the full time limit each; a single request that does
                # not come back in time is still an error
                if len(items) == 1:
                    raise
                mid = len(items) // 2
                return self.batch(items[:mid], timeout) + self.batch(items[mid:], timeout)
        if len(items) == 1:
            return [list(self.TIMEOUT_ANSWER)]
        mid = len(items) // 2
        t = max(item_timeout, timeout // 2)
        return (self.batch(items[:mid], t, True, item_timeout) + self.batch(items[mid:], t, True, item_timeout))

    def _run(self, items, timeout):
        from enc import parse

        inp = "".join(f"{p} {o} {t}\n" for p, o, t in items)
        env = dict(os.environ)
        pr = subprocess.run(
            ["bash", "-c", f"ulimit -s unlimited 2>/dev/null; exec {DRIVER}"],
            input=inp, capture_output=True, text=True, timeout=timeout, env=env,
        )
        lines = pr.stdout.split("\n")
        if lines and lines[-1] == "":
            lines.pop()
        if len(lines) != len(items):
            raise RuntimeError(f"driver answered {len(lines)} lines for {len(items)} requests: {pr.stderr[-500:]}")
        self.calls += len(items)
        return [parse(l) for l in lines]


class Ctx:
    def __init__(self, prop, tier, seed):
        self.prop, self.tier, self.seed = prop, tier, seed
        self.rng = random.Random(seed * 1000003 + int(prop[1:]))
        self.driver = Driver()
        self.t0 = time.time()
        self.evaluations = 0
        self.validated = 0
        self.distinct = set()
        self.samples = []
        self.dist = {}
        self.violations = []
        self.known_reported = []
        self.structural = 0
        self.notes = []
        self.rule = ""
        self.exhaustive = False
        self.exhaustive_scope = ""
        self.known = load_known(prop)

    def n(self, quick, thorough):
        return thorough if self.tier == "thorough" else quick

    def tally(self, key, k=1):
        self.dist[key] = self.dist.get(key, 0) + k

    def case(self, fingerprint, nontrivial, sample=None, validated=True):
        """Count one evaluated case; fingerprint identifies it up to canonical form."""
        self.evaluations += 1
        if validated:
            self.validated += 1
        if nontrivial:
            h = hashlib.blake2b(repr(fingerprint).encode(), digest_size=8).digest()
            self.distinct.add(h)
        if sample is not None and len(self.samples) < 6:
            self.samples.append(sample)

    def violation(self, what, replay, confirmed=True):
        """Record a violation (unless it matches an open known finding)."""
        for k in self.known:
            if k["status"] == "open" and k.get("_match") and k["_match"](replay):
                self.report_known(k)
                return
        os.makedirs(os.path.join(OUT, "replays"), exist_ok=True)
        body = dict(replay)
        body.update({"property": self.prop, "what": what, "seed": self.seed, "tier": self.tier,
                     "confirmed_on_implementation": confirmed})
        blob = json.dumps(body, sort_keys=True, default=repr)
        name = f"{self.prop}-{hashlib.blake2b(blob.encode(), digest_size=6).hexdigest()}.json"
        path = os.path.join(OUT, "replays", name)
        body["replay_cmd"] = f"cd /verif && /venv/bin/python harness/check.py {self.prop} --replay {path}"
        with open(path, "w") as f:
            json.dump(body, f, indent=1, sort_keys=True, default=repr)
        if len(self.violations) < 5:
            tail = "" if confirmed else " no-failing-input-found"
            print(f"VIOLATION property={self.prop} replay={path}{tail}", flush=True)
            print(f"  {what}", flush=True)
        self.violations.append(path)

    def open_finding(self, fid, reproduces, what, replay=None):
        """Reproducer of an OPEN known finding: prints its KNOWN-FINDING line while it reproduces and is listed as open;
        a reproducing defect that is not listed (or listed as fixed) is a violation; one that no longer reproduces is noted."""
        k = next((k for k in self.known if k["id"] == fid), None)
        if reproduces:
            if k is not None and k["status"] == "open":
                self.report_known(k)
            else:
                self.violation(f"{fid}: {what}", dict(replay or {}, kind="finding", finding=fid), confirmed=True)
        elif k is not None and k["status"] == "open":
            self.notes.append(f"known finding {fid} no longer reproduces")

    def report_known(self, k):
        if k["id"] not in self.known_reported:
            self.known_reported.append(k["id"])
            print(f"KNOWN-FINDING: property={self.prop} {k['id']}: {k['what']}", flush=True)


def load_known(prop):
    p = os.path.join(VERIF, "known_findings.json")
    if not os.path.exists(p):
        return []
    return [dict(k) for k in json.load(open(p)).get("findings", []) if k["property"] == prop]


def source_digests(prop):
    """sha256 of the implementation files the property is anchored in, as they are in the tree under test."""
    out = {}
    try:
        repo = os.environ.get("VERIF_REPO", REPO)
        for l in open(os.path.join(VERIF, "properties.jsonl")):
            d = json.loads(l)
            if d["id"] == prop:
                for f in d.get("anchors", {}).get("files", []):
                    fp = os.path.join(repo, f)
                    out[f] = hashlib.sha256(open(fp, "rb").read()).hexdigest()[:16] if os.path.exists(fp) else "missing"
        out["repo_head"] = subprocess.run(["git", "-C", repo, "rev-parse", "--short", "HEAD"], capture_output=True, text=True).stdout.strip()
        out["repo_dirty"] = bool(subprocess.run(["git", "-C", repo, "status", "--porcelain", "--untracked-files=no"],
                                                capture_output=True, text=True).stdout.strip())
    except Exception as e:  # noqa: BLE001
        out["error"] = repr(e)
    return out


def write_evidence(ctx: Ctx, proof):
    cov = {
        "obligations": proof["obligations"],
        "discharged": proof["discharged"],
        "checker_cmd": f"cd /verif/coq && make && coqc -Q . AV Props/P_{ctx.prop}.v   (Print Assumptions under every theorem)",
        "trusted_base": TRUSTED_BASE,
        "theorems": proof["theorems"],
        "assumptions_printed": proof["assumptions"],
        "coqchk": proof.get("coqchk", "not run in this tier (thorough runs coqchk -o on the property's files)"),
        "evaluations": ctx.evaluations,
        "distinct_nontrivial": len(ctx.distinct),
        "rule": ctx.rule,
        "samples": ctx.samples,
        "traces_validated_against_impl": ctx.validated,
        "exhaustive": ctx.exhaustive,
        "exhaustive_scope": ctx.exhaustive_scope,
        "distribution": ctx.dist,
        "structural_differences": ctx.structural,
        "known_findings_reported": ctx.known_reported,
        "model_driver_calls": ctx.driver.calls,
        "implementation_under_test": source_digests(ctx.prop),
        "notes": ctx.notes,
    }
    if not proof["ok"]:
        cov["proof_log_tail"] = proof["log"][-1500:]
    ev = {
        "property_id": ctx.prop,
        "tier": ctx.tier,
        "seed": ctx.seed,
        "level": "proof",
        "coverage": cov,
        "assumptions": [
            "theorems are about the Gallina model; the tie to /repo is the differential correspondence run recorded under coverage.evaluations / traces_validated_against_impl",
        ],
        "wall_s": round(time.time() - ctx.t0, 2),
        "violations": len(ctx.violations),
    }
    os.makedirs(os.path.join(OUT, "evidence"), exist_ok=True)
    path = os.path.join(OUT, "evidence", f"{ctx.prop}.json")
    with open(path, "w") as f:
        json.dump(ev, f, indent=1, default=repr)
    return path
