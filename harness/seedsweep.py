#!/usr/bin/env python3
"""False-alarm sweep on the unchanged tree: every check's correspondence half (--no-proof) under several VERIF_SEED
values, side by side (evidence and replays diverted with VERIF_OUT, a development switch).  Any VIOLATION line is a
false alarm (or a new finding) to investigate.   seedsweep.py [--seeds=1,2,3] [--jobs=8] [--tier=quick] [--with-proof] [Cxx ...]"""
import json
import os
import subprocess
import sys
from concurrent.futures import ThreadPoolExecutor

VERIF = os.path.dirname(os.path.dirname(os.path.abspath(__file__)))


def main():
    props = [a for a in sys.argv[1:] if not a.startswith("--")] or [f"C{i:02d}" for i in range(1, 21)]
    seeds = next((a.split("=", 1)[1].split(",") for a in sys.argv[1:] if a.startswith("--seeds=")), ["1", "2", "3"])
    jobs = int(next((a.split("=", 1)[1] for a in sys.argv[1:] if a.startswith("--jobs=")), "8"))
    tier = next((a.split("=", 1)[1] for a in sys.argv[1:] if a.startswith("--tier=")), "quick")
    noproof = "" if "--with-proof" in sys.argv else " --no-proof"     # --with-proof: the registered command as it is
    base = f"/tmp/seedsweep-{os.getpid()}"
    work = [(p, s) for s in seeds for p in props]
    bad = []

    def one(ps):
        p, s = ps
        env = dict(os.environ, VERIF_SEED=s, VERIF_OUT=f"{base}/{p}-{s}", VERIF_TIER=tier)
        r = subprocess.run(f"/venv/bin/python harness/check.py {p} --tier {tier}{noproof}", shell=True, cwd=VERIF,
                           capture_output=True, text=True, env=env, timeout=14000)
        viol = [l for l in r.stdout.splitlines() if l.startswith("VIOLATION")]
        detail = [l.strip() for l in r.stdout.splitlines() if l.startswith("  ")][:2]
        print(p, s, "exit", r.returncode, f"{len(viol)} violation(s)", " | ".join(detail)[:400] if viol else "", flush=True)
        if viol or r.returncode != 0:
            bad.append((p, s, detail))

    with ThreadPoolExecutor(jobs) as ex:
        list(ex.map(one, work))
    subprocess.run(f"rm -rf {base}", shell=True)
    print(f"{len(work) - len(bad)}/{len(work)} runs quiet; alarms: {sorted((p, s) for p, s, _ in bad)}")
    return 1 if bad else 0


if __name__ == "__main__":
    sys.exit(main())
