#!/bin/bash
# Run every registered quick (or thorough) check sequentially; summary at the end.
cd "$(dirname "$0")/.."
tier=${1:-quick}
for p in C01 C02 C03 C04 C05 C06 C07 C08 C09 C10 C11 C12 C13 C14 C15 C16 C17 C18 C19 C20; do
  /venv/bin/python harness/check.py $p --tier $tier 2>&1 | grep -E "^(VIOLATION|KNOWN-FINDING|C[0-9]+ (quick|thorough):)" | cut -c1-260
done
