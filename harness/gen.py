"""Structured generators (one PRNG drives everything)."""
from __future__ import annotations

import itertools

NAME_POOLS = {
    "int": lambda i: i,
    "negint": lambda i: -i - 1,
    "str": lambda i: "q%d" % i,
    "strmix": lambda i: ["", "a", "0", "q", "-1", "None", "s t", "é"][i % 8] + ("" if i < 8 else str(i)),
    "tuple": lambda i: (i // 2, "x" if i % 2 else "y"),
    "fset": lambda i: frozenset(range(i)),
    "mixed": lambda i: [0, "0", (0,), frozenset([0]), -1, "", (), frozenset(), 1, "1"][i % 10] if i < 10 else i,
}


def pick_names(rng, n, kind=None):
    kind = kind or rng.choice(list(NAME_POOLS))
    f = NAME_POOLS[kind]
    names = [f(i) for i in range(n)]
    assert len(set(names)) == n
    return names, kind


ALPHABETS = ["a", "ab", "abc", "01", "ba", "xyz", "é1"]


def rand_alphabet(rng, maxk=3):
    k = rng.randint(1, maxk)
    return rng.choice([a for a in ALPHABETS if len(a) == k])


def rand_dfa_def(rng, nmax=6, alphabet=None, partial=None, names=None, density=None, p_final=None):
    """Random DFA definition (kwargs dict). Shapes: unreachable states, dead states reached
    by explicit edges, empty/universal languages, final initial state all occur."""
    sigma = alphabet if alphabet is not None else rand_alphabet(rng)
    n = rng.randint(1, nmax)
    if names is None:
        names, _ = pick_names(rng, n)
    else:
        names = names[:n]
        n = len(names)
    if partial is None:
        partial = rng.random() < 0.55
    if density is None:
        density = rng.choice([1.0, 0.9, 0.7, 0.5, 0.3]) if partial else 1.0
    if p_final is None:
        p_final = rng.choice([0.0, 0.2, 0.4, 0.6, 1.0]) if rng.random() < 0.3 else rng.choice([0.3, 0.5])
    # bias targets so that some states are unreachable / dead
    live = names if rng.random() < 0.6 else names[: max(1, n - rng.randint(0, 2))]
    trans = {}
    for q in names:
        row = {}
        for a in sigma:
            if not partial or rng.random() < density:
                row[a] = rng.choice(live) if rng.random() < 0.8 else rng.choice(names)
        trans[q] = row
    finals = {q for q in names if rng.random() < p_final}
    return dict(states=set(names), input_symbols=set(sigma), transitions=trans,
                initial_state=names[0] if rng.random() < 0.8 else rng.choice(names),
                final_states=finals, allow_partial=partial)


def add_dfa_stray_rows(rng, d):
    """The same DFA with one or two extra transition rows keyed by names that are not states (validate() accepts them;
    they belong to no state, so language and answers are unchanged).  Names the library picks itself for implicit
    states are favoured: -1, -2 (trap ids), the least unused natural number."""
    d = dict(d)
    d["transitions"] = {q: dict(row) for q, row in d["transitions"].items()}
    states = set(d["states"])
    cand = [x for x in (-1, -2, next(i for i in range(1000) if i not in states), 7, "stray", ("s", 0)) if x not in states]
    targets = sorted(states, key=repr)
    for name in rng.sample(cand, rng.choice([1, 1, 2])):
        if d.get("allow_partial", False) and rng.random() < 0.5:
            row = {a: rng.choice(targets) for a in d["input_symbols"] if rng.random() < 0.7}
        else:
            row = {a: rng.choice(targets) for a in d["input_symbols"]}
        d["transitions"][name] = row
    return d


def rand_nfa_def(rng, nmax=5, alphabet=None, names=None, p_eps=None):
    """Random NFA definition: epsilon edges and cycles, states without a row, empty target
    sets, unreachable parts."""
    sigma = alphabet if alphabet is not None else rand_alphabet(rng)
    if p_eps is None and names is None and nmax >= 3 and rng.random() < 0.3:
        return rand_nfa_eps_rich(rng, nmax=nmax, alphabet=sigma)
    n = rng.randint(1, nmax)
    if names is None:
        names, _ = pick_names(rng, n)
    else:
        names = names[:n]
        n = len(names)
    if p_eps is None:
        p_eps = rng.choice([0.0, 0.15, 0.3, 0.5])
    trans = {}
    for i, q in enumerate(names):
        if i > 0 and rng.random() < 0.15:
            continue  # state without a transition entry
        row = {}
        for a in sigma:
            r = rng.random()
            if r < 0.25:
                continue
            if r < 0.32:
                row[a] = set()
                continue
            k = rng.choice([1, 1, 1, 2, 2, 3])
            row[a] = {rng.choice(names) for _ in range(k)}
        if rng.random() < p_eps:
            row[""] = {rng.choice(names) for _ in range(rng.choice([1, 1, 2]))}
        trans[q] = row
    if names[0] not in trans and n > 1:
        trans[names[0]] = {}
    finals = {q for q in names if rng.random() < rng.choice([0.2, 0.4, 0.6])}
    return dict(states=set(names), input_symbols=set(sigma), transitions=trans,
                initial_state=names[0], final_states=finals)


def rand_word(rng, sigma, maxlen=8, p_foreign=0.0, foreign="#Z"):
    k = rng.randint(0, maxlen)
    out = []
    for _ in range(k):
        if p_foreign and rng.random() < p_foreign:
            out.append(rng.choice(foreign))
        else:
            out.append(rng.choice(sigma))
    return "".join(out)


def all_words(sigma, maxlen):
    for k in range(maxlen + 1):
        for t in itertools.product(sigma, repeat=k):
            yield "".join(t)


def rand_dfa_with_dead(rng, alphabet=None, nlive=None, ndead=None, partial=None):
    """DFA with a block of dead states (cannot reach a final state) that live states enter by
    explicit transitions - the shape minimisation / to_partial must treat like missing edges."""
    sigma = alphabet if alphabet is not None else rand_alphabet(rng)
    nlive = nlive or rng.randint(1, 4)
    ndead = ndead or rng.randint(1, 3)
    names, _ = pick_names(rng, nlive + ndead, rng.choice(["int", "negint", "str", "tuple"]))
    live, dead = names[:nlive], names[nlive:]
    if partial is None:
        partial = rng.random() < 0.5
    trans = {}
    for q in live:
        row = {}
        for a in sigma:
            r = rng.random()
            if partial and r < 0.2:
                continue
            row[a] = rng.choice(dead) if r < 0.45 else rng.choice(live)
        trans[q] = row
    for q in dead:
        row = {}
        for a in sigma:
            if partial and rng.random() < 0.3:
                continue
            row[a] = rng.choice(dead)
        trans[q] = row
    finals = {q for q in live if rng.random() < 0.5} or {rng.choice(live)}
    return dict(states=set(names), input_symbols=set(sigma), transitions=trans, initial_state=live[0],
                final_states=finals, allow_partial=partial)


def rand_nfa_eps_rich(rng, nmax=6, alphabet=None, long=False):
    """NFA whose empty-string edges form long cycles, chains, diamonds and chords (closure
    computations that share or memoise partial results go wrong on exactly these), with sparse
    symbol edges so that the closure decides acceptance."""
    sigma = alphabet if alphabet is not None else rand_alphabet(rng)
    n = rng.randint(3, max(3, nmax))
    names, _ = pick_names(rng, n)
    order = names[:]
    rng.shuffle(order)
    eps = {q: set() for q in names}
    shape = rng.choice(["ring", "ring", "chain", "two_rings", "diamond"])
    k = n if long else rng.randint(3, n)
    if long:
        shape = rng.choice(["ring", "chain"])
    if shape == "ring":
        for i in range(k):
            eps[order[i]].add(order[(i + 1) % k])
    elif shape == "chain":
        for i in range(k - 1):
            eps[order[i]].add(order[i + 1])
        if rng.random() < 0.5:
            eps[order[k - 1]].add(order[rng.randrange(k - 1)])
    elif shape == "two_rings":
        h = max(2, k // 2)
        for i in range(h):
            eps[order[i]].add(order[(i + 1) % h])
        rest = order[h - 1:k]
        for i in range(len(rest)):
            eps[rest[i]].add(rest[(i + 1) % len(rest)])
    else:
        for q in order[1:k - 1]:
            eps[order[0]].add(q)
            eps[q].add(order[k - 1])
        if rng.random() < 0.5:
            eps[order[k - 1]].add(order[0])
    for _ in range(rng.randint(0, 2)):
        eps[rng.choice(names)].add(rng.choice(names))
    trans = {}
    for q in names:
        row = {}
        for a in sigma:
            if rng.random() < 0.35:
                row[a] = {rng.choice(names) for _ in range(rng.choice([1, 1, 2]))}
        if eps[q]:
            row[""] = set(eps[q])
        if row or rng.random() < 0.7 or q == names[0]:
            trans[q] = row
    finals = {q for q in names if rng.random() < 0.3} or {rng.choice(names)}
    init = rng.choice(names)
    trans.setdefault(init, {})
    return dict(states=set(names), input_symbols=set(sigma), transitions=trans,
                initial_state=init, final_states=finals)


def lasso_nfa_def(rng, sigma, tail=None, period=None, unroll=1, extra_nondet=False):
    """Tail of length t into a cycle of length p*unroll on the first symbol (other symbols, if any,
    follow the same skeleton with probability 1/2): ultimately periodic languages. Pairs of lassos with
    periods such as 2 vs 3, or p vs its unrolling, stress union-find based equivalence checks."""
    t = rng.randint(0, 3) if tail is None else tail
    p = rng.randint(1, 5) if period is None else period
    n = t + p * unroll
    fin_tail = [rng.random() < 0.4 for _ in range(t)]
    fin_cyc = [rng.random() < 0.5 for _ in range(p)]
    trans = {}
    for i in range(n):
        nxt = i + 1 if i + 1 < n else t
        row = {sigma[0]: {nxt}}
        for a in sigma[1:]:
            if rng.random() < 0.5:
                row[a] = {nxt}
        if extra_nondet and rng.random() < 0.3:
            row[sigma[0]] = {nxt, rng.randrange(n)} if rng.random() < 0.5 else {nxt}
        trans[i] = row
    finals = {i for i in range(t) if fin_tail[i]} | {t + j for j in range(p * unroll) if fin_cyc[j % p]}
    return dict(states=set(range(n)), input_symbols=set(sigma), transitions=trans, initial_state=0,
                final_states=finals), (t, p, fin_tail, fin_cyc)


def coprime_cycles_pair(rng):
    """(A, B, tag) over {a}: A guesses between a cycle of length p and one of length q (accepts a^n iff p | n or q | n),
    B is the single cycle of length lcm(p, q) with the same language, or with one flag flipped somewhere on it."""
    import math
    p, q = rng.choice([(2, 3), (3, 4), (2, 5), (3, 5), (4, 5), (2, 7), (3, 7), (4, 6), (2, 4)])
    A = [("A", i) for i in range(p)]
    B = [("B", i) for i in range(q)]
    trans = {"s": {"a": {A[1 % p], B[1 % q]}}}
    for i in range(p):
        trans[A[i]] = {"a": {A[(i + 1) % p]}}
    for i in range(q):
        trans[B[i]] = {"a": {B[(i + 1) % q]}}
    a = dict(states={"s"} | set(A) | set(B), input_symbols={"a"}, transitions=trans, initial_state="s",
             final_states={"s", A[0], B[0]})
    n = p * q // math.gcd(p, q)
    fin = {i for i in range(n) if i % p == 0 or i % q == 0}
    tag = "coprime_cycles_equal"
    if rng.random() < 0.65:
        fin ^= {rng.randrange(n)}
        tag = "coprime_cycles_one_flag"
    b = dict(states=set(range(n)), input_symbols={"a"}, transitions={i: {"a": {(i + 1) % n}} for i in range(n)},
             initial_state=0, final_states=fin)
    return (a, b, tag) if rng.random() < 0.5 else (b, a, tag)


def prefix_agreeing_lassos(rng):
    """(A, B, tag) over {a}: A is a random lasso; B is a lasso of another shape whose flags are A's verdicts on the first
    |B| lengths, so the two languages agree on every word shorter than |B| and (usually) differ on a longer one."""
    t, p = rng.randint(0, 3), rng.randint(2, 5)
    fa = [rng.random() < 0.5 for _ in range(t + p)]
    acc_a = lambda n: fa[n] if n < t + p else fa[t + (n - t) % p]      # noqa: E731
    t2, p2 = rng.randint(0, 3), rng.choice([x for x in range(1, 6) if x != p])
    n2 = t2 + p2

    def lasso(n, t0, flags):
        return dict(states=set(range(n)), input_symbols={"a"},
                    transitions={i: {"a": {i + 1 if i + 1 < n else t0}} for i in range(n)}, initial_state=0,
                    final_states={i for i in range(n) if flags[i]})
    a = lasso(t + p, t, fa)
    b = lasso(n2, t2, [acc_a(i) for i in range(n2)])
    return (a, b, "lasso_prefix_agreeing") if rng.random() < 0.5 else (b, a, "lasso_prefix_agreeing")


def lasso_pair(rng, sigma):
    """(A, B, tag): same skeleton with different unrolling (equivalent), or one cycle flag changed, or
    independent lassos (period 2 vs 3 etc.)."""
    t, p = rng.randint(0, 3), rng.randint(1, 4)
    st = rng.getstate()
    a, _ = lasso_nfa_def(rng, sigma, t, p, 1)
    r = rng.random()
    if r < 0.4:
        rng.setstate(st)
        b, _ = lasso_nfa_def(rng, sigma, t, p, rng.choice([2, 3]))
        return a, b, "lasso_unrolled"
    if r < 0.7:
        rng.setstate(st)
        b, _ = lasso_nfa_def(rng, sigma, t, p, rng.choice([1, 2]))
        q = rng.choice(sorted(b["states"]))
        b["final_states"] = set(b["final_states"]) ^ {q}
        return a, b, "lasso_one_flag"
    b, _ = lasso_nfa_def(rng, sigma)
    return a, b, "lasso_independent"
