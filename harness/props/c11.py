"""C11 - regex validation and comparison helpers agree with compilation and are exact
(correspondence half)."""
from __future__ import annotations

import itertools

import enc
import automata.regex.regex as regex
from automata.fa.nfa import NFA
from props.common import outcome
from props import regex_common as rc

RULE = ("every sequence of up to 4 tokens (thorough 5) over the 12 documented token kinds a b . | & ^ * + ? {1,2} ( ) and "
        "blank, every sequence of 5 (thorough 6-7) over one representative per token class, random longer sequences and "
        "random valid expressions: outcome kind of regex.validate, outcome kind of NFA.from_regex, their agreement, and "
        "agreement of both with the model (bounds with different digit counts such as {2,10} and {10,9} included); isequal/issubset/issuperset on random pairs of valid expressions (many built to "
        "be equal / included) over a common alphabet, half of them over an alphabet not used before in the process and right after regex.validate on the same expressions, vs the model and vs the word-level evaluation of the denotations; "
        "distinct = distinct string (pair of strings); non-trivial = at least 2 tokens (helpers: the answer is not the "
        "same for all three)")

KINDS = ["a", "b", ".", "|", "&", "^", "*", "+", "?", "{1,2}", "(", ")", " "]
CLASSES = ["a", "|", "*", "(", ")", " "]
REGEX_ERRS = (110, 111)


def kind_of(out):
    return "ok" if out[0] == "ok" else out[1]


def check_strings(ctx, strings, tag):
    items = [(11, 8, enc.tree([rc.chars(s)])) for s in strings]
    answers = ctx.driver.batch(items, tolerant=True, item_timeout=60)
    for s, ans in zip(strings, answers):
        if ans == [0, 96]:
            # the model did not answer within the driver's time limit (deeply nested repetitions): inconclusive;
            # the implementation-only half of the property (validate and from_regex agree) is still checked
            ctx.tally("model_timed_out")
            iv, ic = outcome(lambda: regex.validate(s)), outcome(lambda: NFA.from_regex(s))
            if (kind_of(iv) == "ok") != (kind_of(ic) == "ok"):
                ctx.violation(f"regex {s!r}: validate {kind_of(iv)} but from_regex {kind_of(ic)}",
                              {"kind": "tokens", "regex": s, "tag": tag}, confirmed=True)
            continue
        mv, mc = enc.dec_res(ans[0]), enc.dec_res(ans[1])
        iv = outcome(lambda: regex.validate(s))
        ic = outcome(lambda: NFA.from_regex(s))
        problems, confirmed = [], False
        kv, kc = kind_of(iv), kind_of(ic)
        # the property, on the implementation alone
        if (kv == "ok") != (kc == "ok"):
            problems.append(f"validate {'passes' if kv == 'ok' else 'fails (' + iv[2] + ')'} but from_regex "
                            f"{'succeeds' if kc == 'ok' else 'raises ' + ic[2]}")
            confirmed = True
        if kv != "ok" and kv not in REGEX_ERRS:
            problems.append(f"validate raises {iv[2]}, not a regex error type")
            confirmed = True
        if kc != "ok" and kc not in REGEX_ERRS:
            problems.append(f"from_regex raises {ic[2]}, not a regex error type")
            confirmed = True
        # agreement with the model
        if kind_of(mv) != kv:
            problems.append(f"validate outcome {kv} ({iv[2] if kv != 'ok' else ''}), model {kind_of(mv)}")
        if kind_of(mc) != kc:
            problems.append(f"from_regex outcome {kc} ({ic[2] if kc != 'ok' else ''}), model {kind_of(mc)}")
        ctx.tally("valid" if kv == "ok" else "invalid_%s" % kv)
        ntok = len(s.replace(" ", "").replace("\t", ""))
        ctx.case(s, ntok >= 2, sample={"regex": s, "validate": kv, "from_regex": kc})
        if problems:
            ctx.violation(f"regex {s!r}: " + "; ".join(problems),
                          {"kind": "tokens", "regex": s, "problems": problems, "tag": tag}, confirmed=confirmed)


def derive_pair(rng, sigma):
    """(r1, r2, relation known by construction or None)."""
    r = rc.rand_ast(rng, sigma, rng.choice([1, 2, 2, 3]), p_prod=0.1, prod_budget=[1])
    k = rng.random()
    if k < 0.06:
        # upper bound 0: exactly the empty string, whatever the operand
        return ("rep", r, 0, 0), ("eps",), "eq"
    if k < 0.09:
        s = rc.rand_ast(rng, sigma, 2, p_prod=0.0)
        return ("cat", ("rep", r, 0, 0), s), s, "eq"
    if k < 0.12:
        return r, ("union", r, r), "eq"
    if k < 0.17:
        return ("union", ("eps",), r), ("opt", r), "eq"
    if k < 0.25:
        # a repetition written directly after another postfix operator applies to the whole operand before it
        return rng.choice([
            (("rep", ("opt", r), 2, 2), ("union", ("eps",), ("union", r, ("cat", r, r))), "eq"),
            (("rep", ("star", r), 2, 2), ("star", r), "eq"),
            (("rep", ("plus", r), 1, 2), ("plus", r), "eq"),
            (("opt", ("rep", r, 2, 2)), ("union", ("eps",), ("cat", r, r)), "eq"),
            (("star", ("rep", r, 1, 2)), ("star", r), "eq")])
    if k < 0.29:
        return ("star", ("star", r)), ("star", r), "eq"
    if k < 0.32:
        return ("plus", ("opt", r)), ("rep", r, 0, None), "eq"
    if k < 0.42:
        s = rc.rand_ast(rng, sigma, 2, p_prod=0.0)
        return ("union", r, s), ("union", s, r), "eq"
    if k < 0.52:
        return ("rep", r, 1, 3), ("union", r, ("union", ("cat", r, r), ("cat", ("cat", r, r), r))), "eq"
    if k < 0.64:
        s = rc.rand_ast(rng, sigma, 2, p_prod=0.0)
        return r, ("union", r, s), "sub"
    if k < 0.74:
        s = rc.rand_ast(rng, sigma, 2, p_prod=0.0)
        return ("union", s, r), r, "sup"
    if k < 0.80:
        return ("rep", r, 2, 2), ("rep", r, 1, None), None
    s = rc.rand_ast(rng, sigma, rng.choice([1, 2, 3]), p_prod=0.1, prod_budget=[1])
    return r, s, None


def check_pairs(ctx, pairs, tag, validate_first=False):
    """pairs: (s1, s2, sigma str, r1, r2, known) with r1/r2 ASTs (or None for replays)."""
    items = []
    for s1, s2, sigma, r1, r2, known in pairs:
        items.append((11, 6, enc.tree([rc.chars(s1), rc.chars(s2), rc.alpha_arg(sigma)])))
    answers = ctx.driver.batch(items, tolerant=True, item_timeout=60)
    for (s1, s2, sigma, r1, r2, known), ans in zip(pairs, answers):
        if ans == [0, 96]:
            ctx.tally("model_timed_out")
            continue
        model = [enc.dec_res(a) for a in ans]
        if validate_first:
            # a query after another query: validation of the same expressions first must not change the answers
            outcome(lambda: regex.validate(s1))
            outcome(lambda: regex.validate(s2))
            ctx.tally("helpers_after_validate")
        impl = [outcome(lambda: f(s1, s2, input_symbols=set(sigma)))
                for f in (regex.isequal, regex.issubset, regex.issuperset)]
        problems, confirmed = [], False
        n = 6 if len(sigma) <= 2 else 5
        if r1 is not None:
            A, B = rc.den_upto(r1, sorted(sigma), n), rc.den_upto(r2, sorted(sigma), n)
            rel = {"isequal": A == B, "issubset": A <= B, "issuperset": A >= B}
        else:
            rel = None
        for name, i, m in zip(("isequal", "issubset", "issuperset"), impl, model):
            iv = ("ok", bool(i[1])) if i[0] == "ok" else ("err", i[1])
            mv = ("ok", m[1] == 1) if m[0] == "ok" else ("err", m[1])
            if mv == ("err", enc.FUEL):
                ctx.tally("comparator_inconclusive")
                continue
            if iv != mv:
                problems.append(f"{name} = {iv}, model {mv}")
            if rel is not None and iv == ("ok", True) and not rel[name]:
                problems.append(f"{name} is True but the languages differ on a word of length <= {n}")
                confirmed = True
            if known == "eq" and iv == ("ok", False):
                problems.append(f"{name} is False but the second expression is an equivalent rewriting of the first")
                confirmed = True
            if known == "sub" and name == "issubset" and iv == ("ok", False):
                problems.append("issubset is False but the second expression is first|s")
                confirmed = True
            if known == "sup" and name == "issuperset" and iv == ("ok", False):
                problems.append("issuperset is False but the first expression is s|second")
                confirmed = True
        bools = tuple(i[1] if i[0] == "ok" else None for i in impl)
        ctx.tally("helpers_%s" % "".join("T" if b else "F" for b in bools))
        ctx.case((s1, s2, sigma), len(set(bools)) > 1,
                 sample={"re1": s1, "re2": s2, "input_symbols": sigma, "isequal/issubset/issuperset": repr(bools)})
        if problems:
            ctx.violation(f"helpers on ({s1!r}, {s2!r}, input_symbols={sigma!r}): " + "; ".join(problems),
                          {"kind": "pair", "re1": s1, "re2": s2, "input_symbols": sigma, "ast1": repr(r1),
                           "ast2": repr(r2), "known": known, "problems": problems, "tag": tag,
                           "validate_first": validate_first}, confirmed=confirmed)


def seqs(kinds, n):
    for t in itertools.product(kinds, repeat=n):
        yield "".join(t)


def run(ctx):
    ctx.rule = RULE
    rng = ctx.rng
    # exhaustive token sequences
    strings = []
    top = ctx.n(4, 5)
    for n in range(0, top + 1):
        strings.extend(seqs(KINDS[:1] + KINDS[2:] if n == top and top == 5 else KINDS, n))
    for n in ctx.n([5], [6, 7]):
        strings.extend(seqs(CLASSES, n))
    strings = list(dict.fromkeys(strings))
    for i in range(0, len(strings), 1000):     # (small batches: each driver call has its own time limit)
        check_strings(ctx, strings[i:i + 1000], "exhaustive")
    ctx.exhaustive = True
    ctx.exhaustive_scope = (
        f"every token sequence of length <= {top} over a b . | & ^ * + ? {{1,2}} ( ) blank"
        + (" (length 5 without b)" if top == 5 else "")
        + f" and every sequence of length {ctx.n('5', '6 and 7')} over one representative per token class (a | * ( ) blank): "
        "outcome kinds of regex.validate and NFA.from_regex")
    # random longer token sequences (other bounds, tabs, nested quantifiers) and valid expressions
    more = []
    toks = KINDS + ["\t", "{0,0}", "{2,}", "{,3}", "{,}", "{3,1}", "c", "()", "{ 1 , 2 }"]
    for _ in range(ctx.n(1500, 30000)):
        k = rng.randint(6, 12)
        more.append("".join(rng.choice(toks) for _ in range(k)))
    for _ in range(ctx.n(300, 4000)):
        sigma = rng.choice(["a", "ab", "abc"])
        more.append(rc.print_ast(rc.rand_ast(rng, sigma, rng.choice([2, 3, 4])), rng, 0.15, 0.15))
    # one quantifier whose bounds have different digit counts (nesting them would only make the automata large)
    for _ in range(ctx.n(60, 600)):
        q = rng.choice(["{2,10}", "{10,9}", "{9,12}", "{11,2}", "{10,}", "{,10}", "{9,10}", "{10,10}"])
        pre = "".join(rng.choice(["a", "b", "(ab)", "a|", "b*", "(a|b)", "."]) for _ in range(rng.randint(0, 2)))
        post = "".join(rng.choice(["a", "b", "|b", "c", "*", ")", ""]) for _ in range(rng.randint(0, 2)))
        more.append(pre + rng.choice(["a", "(ab)", "(a|b)", ".", ""]) + q + post)
    more += ["", " ", "\t", "  \t ", "( )", "a{3,1}", "a{1,1}", "\n", "a\nb", "a\r", "a{2,1}|", "(a{2,1}", "|a{2,1}", "a{2,10}", "a{10,9}", "(ab){9,12}",
             "(ab){11,2}", "a{10,10}", "a{9,10}", "a{10,2}", "a{02,3}", "a{3,02}", "a{10,}", "a{,10}", "a{ ,2}", "a{1, }", "a{ , }", "a{\t,2}", "a{ 0 , 2 }", "(ab){ ,1}b", "a{ 2, }*"]
    more = list(dict.fromkeys(more))
    for i in range(0, len(more), 400):
        check_strings(ctx, more[i:i + 400], "random")
    # helpers
    pairs = []
    npairs = ctx.n(260, 5000)
    for j in range(npairs):
        if (j // 100) % 2 == 0:
            # the batches that call validate first: alphabets that were not used before in this process
            sigma = "".join(sorted(rng.sample(rc.POOL[:52], rng.choice([1, 2, 2, 3]))))
        else:
            sigma = rng.choice(["a", "ab", "ab", "abc"])
        r1, r2, known = derive_pair(rng, sigma)
        if rng.random() < 0.3:
            r1, r2 = r2, r1
            known = {"eq": "eq", "sub": "sup", "sup": "sub", None: None}[known]
        s1 = rc.print_ast(r1, rng, 0.1, 0.1)
        s2 = rc.print_ast(r2, rng, 0.1, 0.1)
        pairs.append((s1, s2, sigma, r1, r2, known))
    for i in range(0, len(pairs), 100):
        check_pairs(ctx, pairs[i:i + 100], "random", validate_first=(i // 100) % 2 == 0)


def replay(ctx, case):
    if case["kind"] == "tokens":
        check_strings(ctx, [case["regex"]], "replay")
    else:
        r1 = eval(case["ast1"]) if case.get("ast1") not in (None, "None") else None
        r2 = eval(case["ast2"]) if case.get("ast2") not in (None, "None") else None
        check_pairs(ctx, [(case["re1"], case["re2"], case["input_symbols"], r1, r2, case.get("known"))], "replay",
                    validate_first=case.get("validate_first", False))
    print("replay:", "VIOLATION reproduced" if ctx.violations else "no disagreement")
