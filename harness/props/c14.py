"""C14 - successor / predecessor traversal (correspondence half).

Implementation: DFA.successors / successor / predecessors / predecessor (explicit stack machine).
Model: Model/Succ.v (specification model: filter over the dictionary-order enumeration), proved in
Props/P_C14.v; additionally Model/SuccMachine.v (mirror of the stack machine after the repairs b46f35e, e6d88f7,
366d64a, d88b819) is run on every case and must agree with both the implementation and the specification model.
Observables compared exactly: the whole generated word list, the single-step result, the exception kind.

Symbols on the wire: every character in play (the alphabet AND the characters of start strings outside it) is
numbered by its rank under the ordering (`order` string covering all of them, or code points), so the alphabet
is in general a non-contiguous set of codes and `<` on codes is the ordering for foreign characters too."""
from __future__ import annotations

import itertools

import enc
import gen
from props.common import drain, load_def, mk_dfa, outcome

RULE = ("random valid DFAs (1-6 states, 1-3 symbols incl. alphabets with gaps such as 'ac', 'bdf'; partial/complete, 7 "
        "state-name pools) plus built acyclic DFAs "
        "(finite languages; optionally completed with a trap, optionally with an unproductive cycle), empty languages and "
        "DFAs over the EMPTY alphabet (initial state final or not; every start/strict/window/direction combination); "
        "per DFA one symbol order key (None / reversed / a permutation, defined on the alphabet and on 2-4 characters "
        "outside it whose ranks interleave with the alphabet's), starts None, '', accepted words, rejected words, "
        "words falling off a partial DFA, words longer than max_length, words with characters outside the alphabet "
        "(below / between / above the alphabet's in the ordering); both strictness values; windows (min,max) in "
        "{(0,None),(0,4),(1,3),(2,2),(3,None)} (max_length always given when the language is infinite); forward and "
        "reverse direction. One case = one (DFA, key, start, strict, window, direction) call: the full word list of the "
        "generator and the single-step result are compared exactly with the proved model. distinct = distinct canonical "
        "(DFA numbered by key rank, start, strict, window, direction); non-trivial = the answer list has >= 2 words")

WINDOWS_FINITE = [(0, None), (0, 4), (1, 3), (2, 2), (3, None)]
WINDOWS_INFINITE = [(0, 4), (1, 3), (2, 2), (3, 5)]
MAX_REPORT = 3
NAME = {"succ": "successor", "pred": "predecessor"}


ALPHABETS14 = gen.ALPHABETS + ["ac", "bd", "ace", "bdf", "b", "m", "13"]
FOREIGN_POOL = "#0`abcdefg~"


def key_of(order):
    """order = ALL characters in play (alphabet and foreign characters of start strings) as a string in ascending
    key order, or None for the default (code point) order."""
    return None if order is None else order.index


class RankMap:
    """Wire numbering for C14: every character in play gets its rank under the ordering; .syms is the alphabet in
    ascending order (a possibly non-contiguous set of codes), .all the whole universe."""

    def __init__(self, input_symbols, extra="", key=None):
        uni = set(input_symbols) | set(extra)
        self.all = sorted(uni, key=key) if key else sorted(uni)
        self.idx = {c: i for i, c in enumerate(self.all)}
        self.syms = [c for c in self.all if c in input_symbols]

    def __call__(self, c):
        return self.idx[c]

    def word(self, s):
        return [self.idx[c] for c in s]

    def unword(self, w):
        return "".join(self.all[i] for i in w)


def pick_foreign(rng, sigma):
    """2-4 characters outside the alphabet, preferring ones that fall between / around the alphabet's."""
    cand = [c for c in FOREIGN_POOL if c not in sigma]
    rng.shuffle(cand)
    return "".join(sorted(cand[:rng.randint(2, 4)]))


def below_alphabet(sy, s):
    """a character of the start string ranks below every alphabet symbol (the shape repaired by 366d64a)"""
    return bool(sy.syms) and s is not None and any(sy(c) < sy(sy.syms[0]) for c in s)


def acyclic_def(rng, sigma, nmax=6):
    """Finite language: edges only go to higher-numbered states; variants: completed with a trap,
    an unproductive cycle (reachable, not co-accessible), unreachable junk."""
    n = rng.randint(1, nmax)
    dens = rng.choice([0.4, 0.6, 0.9])
    trans = {i: {} for i in range(n)}
    for i in range(n):
        for a in sigma:
            if i + 1 < n and rng.random() < dens:
                trans[i][a] = rng.randint(i + 1, n - 1)
    finals = {i for i in range(n) if rng.random() < 0.5}
    if rng.random() < 0.85:
        finals.add(n - 1)
        for i in range(n - 1):     # make the last state reachable along a chain, so the language is rarely empty
            if not trans[i]:
                trans[i][rng.choice(sigma)] = i + 1
    states = set(range(n))
    variant = rng.choice(["partial", "partial", "trap", "deadcycle", "junk"])
    partial = True
    if variant in ("trap", "deadcycle"):
        t, u = n, n + 1
        states |= {t}
        trans[t] = {a: t for a in sigma}
        if variant == "deadcycle":
            states |= {u}
            trans[u] = {a: t for a in sigma}
            trans[t] = {a: u for a in sigma}
        for i in range(n):
            for a in sigma:
                trans[i].setdefault(a, t)
        partial = rng.random() < 0.5
    elif variant == "junk":
        j = n
        states |= {j}
        trans[j] = {a: rng.choice([j, 0]) for a in sigma}
        finals |= {j} if rng.random() < 0.5 else set()
    names, _ = gen.pick_names(rng, len(states))
    nm = dict(zip(sorted(states), names))
    return dict(states={nm[q] for q in states}, input_symbols=set(sigma),
                transitions={nm[q]: {a: nm[t] for a, t in row.items()} for q, row in trans.items()},
                initial_state=nm[0], final_states={nm[q] for q in finals}, allow_partial=partial)


def walk(d, s):
    """(state or None after reading s, fell_off) by direct table walk."""
    q = d.initial_state
    for c in s:
        row = d.transitions.get(q, {})
        if c not in row:
            return None
        q = row[c]
    return q


def lang_upto(d, alphabet, maxlen):
    """Accepted words up to a length by direct table walk (independent oracle; only descends along edges)."""
    out = []
    level = [("", d.initial_state)]
    for k in range(maxlen + 1):
        nxt = []
        for w, q in level:
            if q in d.final_states:
                out.append(w)
            if k < maxlen:
                for a in alphabet:
                    t = d.transitions.get(q, {}).get(a)
                    if t is not None:
                        nxt.append((w + a, t))
        level = nxt
    return out


def oracle(d, sy, start, strict, lo, hi, reverse, finite):
    """Brute-force expected list (search aid / confirmation only, not a proof)."""
    rank, order_syms = sy.idx, sy.syms
    kf = lambda w: [rank[c] for c in w]  # noqa: E731  (list comparison = dictionary order, prefix smaller)
    if reverse and not finite:
        return ("err", enc.INFINITE)
    top = hi if hi is not None else len(d.states)
    words = [w for w in lang_upto(d, order_syms, top) if lo <= len(w)]
    if start is not None:
        s = kf(start)
        if reverse:
            words = [w for w in words if kf(w) < s or (not strict and kf(w) == s)]
        else:
            words = [w for w in words if kf(w) > s or (not strict and kf(w) == s)]
    words.sort(key=kf, reverse=reverse)
    return ("ok", words)


def classify_start(d, s, hi):
    if s is None:
        return "start_None"
    if s == "":
        return "start_empty"
    if any(c not in d.input_symbols for c in s):
        return "start_has_foreign_symbol"
    if hi is not None and len(s) > hi:
        return "start_longer_than_max"
    q = walk(d, s)
    if q is None:
        return "start_falls_off"
    return "start_accepted" if q in d.final_states else "start_rejected"


def pick_starts(rng, d, sigma, finite, foreign=""):
    acc = lang_upto(d, sigma, 5)
    starts = [None, ""]
    if foreign:
        # characters outside the alphabet: alone, inside / at the end of an accepted word, in a random word
        starts.append(rng.choice(foreign))
        base = rng.choice(acc) if acc else gen.rand_word(rng, sigma, 3)
        i = rng.randint(0, len(base))
        starts.append(base[:i] + rng.choice(foreign) + base[i:])
        starts.append(base + rng.choice(foreign))
        starts.append("".join(rng.choice(sigma + foreign) for _ in range(rng.randint(1, 4))))
        if sigma:
            starts.append(rng.choice(sigma) + rng.choice(foreign) + rng.choice(foreign))
    if acc:
        starts.append(rng.choice(acc))
        starts.append(max(acc, key=len))
    for _ in range(3):
        starts.append(gen.rand_word(rng, sigma, rng.choice([1, 2, 3, 5, 6])))
    # a word that certainly falls off / is rejected when there is such a thing
    if acc:
        w = rng.choice(acc)
        starts.append(w + rng.choice(sigma))
    seen, out = set(), []
    for s in starts:
        if s not in seen:
            seen.add(s)
            out.append(s)
    return out


def impl_call(d, reverse, start, strict, key, lo, hi):
    kw = dict(strict=strict, key=key, min_length=lo, max_length=hi)
    if reverse:
        ys, oc = drain(lambda: d.predecessors(start, **kw))
        one = outcome(lambda: d.predecessor(start, **kw))
    else:
        ys, oc = drain(lambda: d.successors(start, **kw))
        one = outcome(lambda: d.successor(start, **kw))
    lst = ("ok", ys) if oc[0] == "ok" else ("err", oc[1], oc[2], ys)
    return lst, one


def model_view(ans, sy):
    lst, one = enc.dec_res(ans[0]), enc.dec_res(ans[1])
    if lst[0] == "ok":
        lst = ("ok", [sy.unword(w) for w in lst[1]])
    if one[0] == "ok":
        one = ("ok", sy.unword(one[1][0]) if one[1] else None)
    return lst, one


def check_dfa(ctx, ddef, order, queries, tag):
    """queries: list of (start, strict, lo, hi, reverse).  order covers every character of the queries' start strings."""
    d = mk_dfa(ddef)
    key = key_of(order)
    sy = RankMap(d.input_symbols, "".join(q[0] or "" for q in queries) + (order or ""), key=key)
    td = enc.enc_dfa(d, None, sy)
    finite = d.isfinite()
    reqs = []
    for (start, strict, lo, hi, reverse) in queries:
        t = [td, None if start is None else [sy.word(start)], strict, lo, None if hi is None else [hi]]
        reqs.append((14, 2 if reverse else 1, enc.tree(t)))
    # the mirror stack machine (Model/SuccMachine.v) on the same inputs
    mreqs = [(14, op + 2, t) for (_, op, t) in reqs]
    both = ctx.driver.batch(reqs + mreqs)
    answers, manswers = both[:len(reqs)], both[len(reqs):]
    for (start, strict, lo, hi, reverse), req, ans, mans in zip(queries, reqs, answers, manswers):
        got_l, got_1 = impl_call(d, reverse, start, strict, key, lo, hi)
        want_l, want_1 = model_view(ans, sy)
        direction = "pred" if reverse else "succ"
        ctx.tally(direction)
        ctx.tally(classify_start(d, start, hi))
        if start and d.input_symbols and any(c not in d.input_symbols for c in start):
            fr = [c for c in start if c not in d.input_symbols]
            ctx.tally("foreign_below_alphabet" if any(sy(c) < sy(sy.syms[0]) for c in fr) else
                      "foreign_above_alphabet" if all(sy(c) > sy(sy.syms[-1]) for c in fr) else "foreign_between")
        if not d.input_symbols:
            ctx.tally("empty_alphabet")
        ctx.tally("strict" if strict else "nonstrict")
        ctx.tally(f"window_{lo}_{hi}")
        ctx.tally("lang_finite" if finite else "lang_infinite")
        if got_l[0] == "ok":
            ctx.tally("answer_len_0" if not got_l[1] else "answer_len_1" if len(got_l[1]) == 1 else "answer_len_ge2")
        else:
            ctx.tally("answer_err_%s" % got_l[1])
        nontrivial = want_l[0] == "ok" and len(want_l[1]) >= 2
        ctx.case((req[1], req[2]), nontrivial,
                 sample={"dfa": repr(ddef), "order": order, "start": start, "strict": strict, "min_length": lo,
                         "max_length": hi, "direction": direction, "impl_list": got_l[1] if got_l[0] == "ok" else list(got_l),
                         "impl_single": got_1[1]} if nontrivial and ctx.rng.random() < 0.02 else None)
        problems = []
        if got_l[:2] != want_l[:2]:
            problems.append(f"{NAME[direction]}s: impl {got_l} model {want_l}")
        if got_1[:2] != want_1[:2]:
            problems.append(f"{NAME[direction]}: impl {got_1} model {want_1}")
        mach = enc.dec_res(mans[0])
        if mach[0] == "ok":
            mach = ("ok", [sy.unword(w) for w in mach[1]])
        if mach[:2] != got_l[:2]:
            problems.append(f"mirror stack machine: impl {got_l} machine model {mach}")
        if mach[:2] != want_l[:2]:
            problems.append(f"machine model {mach} differs from specification model {want_l}")
        if problems:
            ctx.tally("disagreements_total")
            if ctx.tally_get("disagreements_total") > MAX_REPORT:
                continue
            exp = oracle(d, sy, start, strict, lo, hi, reverse, finite)
            exp1 = exp if exp[0] == "err" else ("ok", exp[1][0] if exp[1] else None)
            confirmed = got_l[:2] != exp[:2] or got_1[:2] != exp1[:2]
            ctx.violation(
                f"{direction} traversal disagrees with the ordered-enumeration statement "
                f"(start={start!r}, strict={strict}, min_length={lo}, max_length={hi}, key order={order!r}): "
                + "; ".join(problems),
                {"kind": "query", "dfa": repr(ddef), "order": order, "start": start, "strict": strict,
                 "min_length": lo, "max_length": hi, "reverse": reverse, "impl_list": repr(got_l),
                 "impl_single": repr(got_1), "model_list": repr(want_l), "model_single": repr(want_1),
                 "bruteforce_expected_list": repr(exp), "tag": tag,
                 "call": f"DFA(**dfa).{'predecessors' if reverse else 'successors'}({start!r}, strict={strict}, "
                         f"key={'None' if order is None else repr(order) + '.index'}, min_length={lo}, max_length={hi})"},
                confirmed=confirmed)


def make_queries(rng, d, sigma, finite, dense, foreign=""):
    starts = pick_starts(rng, d, sigma, finite, foreign)
    windows = WINDOWS_FINITE if finite else WINDOWS_INFINITE
    qs = []
    for s in starts:
        for strict in (True, False):
            for (lo, hi) in windows:
                if not dense and rng.random() < 0.5:
                    continue
                qs.append((s, strict, lo, hi, False))
                if finite or rng.random() < 0.1:
                    qs.append((s, strict, lo, hi, True))
    # a start longer than max_length
    if sigma:
        long_s = gen.rand_word(rng, sigma, 6) or sigma[0] * 6
        long_s = (long_s * 6)[:6]
        for strict in (True, False):
            qs.append((long_s, strict, 0, 4, False))
            qs.append((long_s, strict, 1, 3, True))
    return qs


def pick_order(rng, sigma):
    """sigma: all characters in play (alphabet + foreign)"""
    r = rng.random()
    srt = "".join(sorted(sigma))
    if r < 0.3 or len(srt) == 1 and r < 0.6:
        return None
    if r < (0.67 if len(srt) < 3 else 0.5):
        return srt[::-1]
    p = list(srt)
    rng.shuffle(p)
    return "".join(p)


def known_findings(ctx):
    """Regressions of the fixed findings (DESIGN section 8 row 9: e6d88f7, d88b819, and the follow-up 366d64a)."""
    from automata.fa.dfa import DFA
    d = DFA(states={0}, input_symbols={"a"}, transitions={0: {"a": 0}}, initial_state=0, final_states={0})
    # every word over {a} precedes "b": no successor; all of them (up to max_length) are predecessors
    got = [outcome(lambda: d.successor("b")), outcome(lambda: list(d.successors("b", max_length=2))),
           outcome(lambda: list(d.successors("ab", max_length=2))),
           outcome(lambda: list(DFA(states={0, 1}, input_symbols={"a"}, transitions={0: {"a": 1}, 1: {}}, initial_state=0,
                                    final_states={0, 1}, allow_partial=True).predecessors("b")))]
    want = [("ok", None), ("ok", []), ("ok", []), ("ok", ["a", ""])]
    handle(ctx, "successor_start_has_foreign_symbol", any(g[:2] == ("err", enc.KEYERR) for g in got),
           [g[:2] for g in got] == want,
           f"DFA over {{'a'}} accepting a*: successor('b'), successors('b'|'ab', max_length=2), predecessors('b') of "
           f"{{'', 'a'}} -> {got}, expected {want}")
    d0 = DFA(states={0}, input_symbols=set(), transitions={0: {}}, initial_state=0, final_states={0})
    d1 = DFA(states={0}, input_symbols=set(), transitions={0: {}}, initial_state=0, final_states=set())
    got = [outcome(lambda: list(d0.successors(None))), outcome(lambda: list(d0.successors(""))),
           outcome(lambda: list(d0.successors("", strict=False))), outcome(lambda: list(d0.predecessors("x"))),
           outcome(lambda: list(d0.successors("x", strict=False))), outcome(lambda: list(d0.successors(None, min_length=1))),
           outcome(lambda: list(d1.successors(None))), outcome(lambda: d0.predecessor("", strict=False))]
    want = [("ok", [""]), ("ok", []), ("ok", [""]), ("ok", [""]), ("ok", []), ("ok", []), ("ok", []), ("ok", "")]
    handle(ctx, "successor_empty_alphabet", any(g[:2] == ("err", enc.INDEXERR) for g in got),
           [g[:2] for g in got] == want,
           f"DFAs over the empty alphabet (language {{''}} / empty): successors(None|''|'' non-strict), predecessors('x'), "
           f"successors('x' non-strict), successors(None, min_length=1), successors(None) of the empty language, "
           f"predecessor('' non-strict) -> {got}, expected {want}")
    # 366d64a: a character of the start string below the whole alphabet made the forward traversal generate a proper
    # prefix of the start string again (next_symbol returns first_symbol after the pop)
    db = DFA(states={0}, input_symbols={"b"}, transitions={0: {"b": 0}}, initial_state=0, final_states={0})
    got = [outcome(lambda: list(db.successors("a", max_length=0))), outcome(lambda: db.successor("a")),
           outcome(lambda: list(db.successors("ba", max_length=1)))]
    want = [("ok", []), ("ok", "b"), ("ok", [])]
    bad = [("ok", [""]), ("ok", ""), ("ok", ["b"])]
    handle(ctx, "successor_foreign_symbol_below_alphabet", [g[:2] for g in got] == bad, [g[:2] for g in got] == want,
           f"DFA over {{'b'}} accepting b*: successors('a', max_length=0), successor('a'), successors('ba', max_length=1) "
           f"-> {got}, expected {want}")


def handle(ctx, fid, still_fails, passes, text):
    for k in ctx.known:
        if k["id"] == fid and k["status"] == "open":
            if still_fails:
                ctx.report_known(k)
                return
            if passes:
                ctx.notes.append(f"open finding {fid} no longer reproduces: {text}")
                return
    if not passes:
        ctx.violation(f"{fid}: {text}", {"kind": "known", "id": fid})


def empty_alphabet(ctx):
    """DFAs over the empty alphabet (guard d88b819): initial state final or not, a second unreachable state, every
    start / strict / window / direction combination; start strings necessarily consist of foreign characters."""
    rng = ctx.rng
    for finals, states in (({0}, {0}), (set(), {0}), ({0, 1}, {0, 1}), ({1}, {0, 1})):
        ddef = dict(states=set(states), input_symbols=set(), transitions={q: {} for q in states}, initial_state=0,
                    final_states=set(finals), allow_partial=rng.random() < 0.5)
        qs = [(s, st, lo, hi, rv) for s in (None, "", "a", "ba#") for st in (True, False)
              for (lo, hi) in ((0, None), (0, 0), (0, 4), (1, 3), (1, None), (2, 2)) for rv in (False, True)]
        for order in (None, "b#a"):
            ctx.tally("dfa_empty_alphabet")
            check_dfa(ctx, ddef, order, qs, "empty_alphabet")


def run(ctx):
    ctx.rule = RULE
    if not hasattr(ctx, "tally_get"):
        ctx.tally_get = lambda k: ctx.dist.get(k, 0)
    rng = ctx.rng
    known_findings(ctx)
    empty_alphabet(ctx)
    # start strings with characters between / above the alphabet's, fixed shapes (alphabet 'ac')
    gap = dict(states={0, 1, 2}, input_symbols={"a", "c"}, transitions={0: {"a": 1, "c": 2}, 1: {"c": 2, "a": 1}, 2: {}},
               initial_state=0, final_states={0, 1, 2}, allow_partial=True)
    for order in (None, "c#ba", "ab#c"):
        qs = [(s, st, lo, hi, rv) for s in ("ab", "b", "cb#", "a#", "#", "abc", "acb", "ca#a") for st in (True, False)
              for (lo, hi) in ((0, 3), (1, 2)) for rv in (False, True)]
        check_dfa(ctx, gap, order, qs, "gap")
    # the minimal reproducer of DESIGN section 8 row 8 always runs first
    row8 = dict(states={0, 1}, input_symbols={"a"}, transitions={0: {"a": 1}, 1: {}}, initial_state=0,
                final_states={0, 1}, allow_partial=True)
    check_dfa(ctx, row8, None, [(s, st, 0, None, True) for s in ("", "a", "aa", None) for st in (True, False)], "row8")
    only_empty = dict(states={0, 1}, input_symbols={"a"}, transitions={0: {"a": 1}, 1: {"a": 1}}, initial_state=0,
                      final_states={0}, allow_partial=False)
    check_dfa(ctx, only_empty, None, [("a", True, 0, None, True), ("a", True, 0, None, False)], "row8")
    for i in range(ctx.n(260, 5000)):
        sigma = rng.choice([a for a in ALPHABETS14 if len(a) == rng.randint(1, 3)] or ["ab"])
        foreign = pick_foreign(rng, sigma) if rng.random() < 0.6 else ""
        r = rng.random()
        big = ctx.tier == "thorough" and rng.random() < 0.2
        if r < 0.45:
            ddef, tag = gen.rand_dfa_def(rng, alphabet=sigma, nmax=8 if big else 6), "random"
        elif r < 0.95:
            ddef, tag = acyclic_def(rng, sigma, nmax=8 if big else 6), "acyclic"
        else:
            ddef, tag = gen.rand_dfa_def(rng, alphabet=sigma, p_final=0.0), "empty"
        d = mk_dfa(ddef)
        finite = d.isfinite()
        ctx.tally("dfa_" + tag)
        ctx.tally("dfa_partial" if ddef["allow_partial"] else "dfa_complete")
        if d.isempty():
            ctx.tally("dfa_empty_language")
        order = pick_order(rng, sigma + foreign)
        ctx.tally("key_none" if order is None else "key_reversed" if order == "".join(sorted(sigma + foreign))[::-1] else "key_permutation")
        check_dfa(ctx, ddef, order, make_queries(rng, d, "".join(sorted(sigma)), finite, dense=False, foreign=foreign), tag)
    if ctx.tier == "thorough":
        exhaustive(ctx)


def exhaustive(ctx):
    """Every partial DFA with <= 2 states over {a,b} (initial state 0), both key orders, every start
    in {None} + all words of length <= 3, both strictness values, windows (0,3) (1,2) (+ (0,None) when finite),
    both directions."""
    sigma = "ab"
    words = [None] + ["".join(w) for k in range(4) for w in itertools.product(sigma, repeat=k)]
    for n in (1, 2):
        cells = [(q, a) for q in range(n) for a in sigma]
        for tgt in itertools.product([None] + list(range(n)), repeat=len(cells)):
            for fin in itertools.product([0, 1], repeat=n):
                trans = {q: {} for q in range(n)}
                for (q, a), t in zip(cells, tgt):
                    if t is not None:
                        trans[q][a] = t
                ddef = dict(states=set(range(n)), input_symbols=set(sigma), transitions=trans, initial_state=0,
                            final_states={q for q in range(n) if fin[q]}, allow_partial=True)
                d = mk_dfa(ddef)
                finite = d.isfinite()
                wins = [(0, 3), (1, 2)] + ([(0, None)] if finite else [])
                qs = [(s, st, lo, hi, rv) for s in words for st in (True, False) for (lo, hi) in wins for rv in (False, True)]
                for order in (None, "ba"):
                    check_dfa(ctx, ddef, order, qs, "exhaustive")
    ctx.exhaustive = True
    ctx.exhaustive_scope = ("all partial DFAs with <= 2 states over {a,b} (initial state 0) x key orders {default, reversed} x "
                            "starts {None} + all words of length <= 3 x strict/non-strict x windows (0,3),(1,2),(0,None if finite) "
                            "x successors/predecessors (list and single step)")


def replay(ctx, case):
    if not hasattr(ctx, "tally_get"):
        ctx.tally_get = lambda k: ctx.dist.get(k, 0)
    if case["kind"] == "query":
        ddef = load_def(case["dfa"])
        q = (case["start"], case["strict"], case["min_length"], case["max_length"], case["reverse"])
        d = mk_dfa(ddef)
        print("implementation:", impl_call(d, q[4], q[0], q[1], key_of(case["order"]), q[2], q[3]))
        sy = RankMap(d.input_symbols, (q[0] or "") + (case["order"] or ""), key=key_of(case["order"]))
        print("brute force   :", oracle(d, sy, q[0], q[1], q[2], q[3], q[4], d.isfinite()))
        check_dfa(ctx, ddef, case["order"], [q], "replay")
        print("model         :", "see violation text above" if ctx.violations else "agrees with the implementation")
    else:
        known_findings(ctx)
    print("replay:", "VIOLATION reproduced" if ctx.violations else "no disagreement")
