"""Generators used by the C18 check: nested Python values, valid definitions of every
automaton class, container-kind variation of constructor arguments, deep snapshots."""
from __future__ import annotations

import collections

from frozendict import frozendict

import gen

# ---------------------------------------------------------------- python value <-> wire tree
T_STR, T_INT, T_BOOL, T_NONE, T_OTHER, T_DICT, T_SET, T_LIST, T_FDICT, T_FSET, T_TUPLE = range(11)
KIND = {T_DICT: "dict", T_SET: "set", T_LIST: "list", T_FDICT: "frozendict", T_FSET: "frozenset",
        T_TUPLE: "tuple"}


class Intern:
    """Numbers the atoms of one case (equal atoms of the same type get the same number)."""

    def __init__(self):
        self.tab = {}

    def __call__(self, tag, v):
        k = (tag, type(v).__name__, repr(v))
        if k not in self.tab:
            self.tab[k] = len(self.tab)
        return self.tab[k]


def enc_val(v, it: Intern):
    """Python value -> wire tree of Model/D18.v (exact types first; subclasses of the
    mutable builtins count as their base, as isinstance does)."""
    if isinstance(v, bool):
        return [T_BOOL, 1 if v else 0]
    if isinstance(v, str):
        return [T_STR, it(T_STR, v)]
    if isinstance(v, int):
        return [T_INT, it(T_INT, v)]
    if v is None:
        return [T_NONE, 0]
    if isinstance(v, frozendict):
        return [T_FDICT, [[enc_val(k, it), enc_val(x, it)] for k, x in v.items()]]
    if isinstance(v, dict):
        return [T_DICT, [[enc_val(k, it), enc_val(x, it)] for k, x in v.items()]]
    if isinstance(v, frozenset):
        return [T_FSET, [enc_val(x, it) for x in v]]
    if isinstance(v, set):
        return [T_SET, [enc_val(x, it) for x in v]]
    if isinstance(v, tuple):
        return [T_TUPLE, [enc_val(x, it) for x in v]]
    if isinstance(v, list):
        return [T_LIST, [enc_val(x, it) for x in v]]
    return [T_OTHER, it(T_OTHER, v)]


def canon(t):
    """Canonical form of a wire value: members of sets and entries of dicts sorted."""
    tag, p = t
    if tag in (T_DICT, T_FDICT):
        return [tag, sorted([canon(k), canon(x)] for k, x in p)]
    if tag in (T_SET, T_FSET):
        return [tag, sorted(canon(x) for x in p)]
    if tag in (T_LIST, T_TUPLE):
        return [tag, [canon(x) for x in p]]
    return [tag, p]


def snapshot(v):
    """Deep, order-independent, type-exact snapshot of a Python value (independent of later
    mutation of v): container kinds, atom types and values."""
    if isinstance(v, (frozendict, dict)):
        return (type(v).__name__, tuple(sorted(((snapshot(k), snapshot(x)) for k, x in v.items()), key=repr)))
    if isinstance(v, (set, frozenset)):
        return (type(v).__name__, tuple(sorted((snapshot(x) for x in v), key=repr)))
    if isinstance(v, (list, tuple)):
        return (type(v).__name__, tuple(snapshot(x) for x in v))
    return (type(v).__name__, repr(v))


IMMUTABLE_TYPES = (str, int, bool, type(None), frozenset, frozendict, tuple)


def mutable_paths(v, path="$"):
    """Paths of every value inside v whose type is not one of the allowed immutable ones."""
    out = []
    if type(v) not in IMMUTABLE_TYPES:
        out.append(f"{path}:{type(v).__name__}")
    if isinstance(v, dict):
        for k, x in v.items():
            out += mutable_paths(k, f"{path}.key({k!r})")
            out += mutable_paths(x, f"{path}[{k!r}]")
    elif isinstance(v, (set, frozenset, list, tuple)):
        for i, x in enumerate(v):
            out += mutable_paths(x, f"{path}[{i}]" if isinstance(v, (list, tuple)) else f"{path}{{{x!r}}}")
    return out


def mutate_everything(v, marker="__C18_mutation__"):
    """Mutate in place every mutable container reachable from v (through immutable ones
    too). Returns the number of containers changed."""
    n = 0
    if isinstance(v, frozendict):
        for x in list(v.values()):
            n += mutate_everything(x, marker)
    elif isinstance(v, dict):
        for x in list(v.values()):
            n += mutate_everything(x, marker)
        v[marker] = marker
        for k in list(v.keys()):
            if k != marker and isinstance(v[k], (str, int, type(None))):
                v[k] = marker
        n += 1
    elif isinstance(v, set):
        v.add(marker)
        n += 1
    elif isinstance(v, frozenset):
        pass
    elif isinstance(v, list):
        for x in v:
            n += mutate_everything(x, marker)
        v.append(marker)
        if len(v) > 1:
            v[0] = marker
        n += 1
    elif isinstance(v, tuple):
        for x in v:
            n += mutate_everything(x, marker)
    return n


# ---------------------------------------------------------------- nested value generator
ATOMS = ["", "a", "q0", "Z", 0, 1, -3, 7, True, False, None, 1.5, b"x"]


def rand_hashable(rng, depth):
    r = rng.random()
    if depth <= 0 or r < 0.55:
        return rng.choice(ATOMS)
    if r < 0.8:
        return tuple(rand_hashable(rng, depth - 1) for _ in range(rng.randint(0, 3)))
    if r < 0.93:
        return frozenset(rand_hashable(rng, depth - 1) for _ in range(rng.randint(0, 3)))
    return frozendict({rand_hashable(rng, 0): rand_hashable(rng, depth - 1) for _ in range(rng.randint(0, 2))})


def rand_value(rng, depth):
    """Random nested value; every container kind can sit inside every other one where
    Python allows it (mutable ones never inside a set or as a dict key)."""
    r = rng.random()
    if depth <= 0 or r < 0.2:
        return rng.choice(ATOMS + [collections.deque([1])] if rng.random() < 0.05 else ATOMS)
    kind = rng.choice(["dict", "dict", "fdict", "odict", "set", "fset", "list", "list", "tuple", "tuple", "tuple"])
    k = rng.randint(0, 3)
    if kind in ("dict", "fdict", "odict"):
        d = {rand_hashable(rng, 1): rand_value(rng, depth - 1) for _ in range(k)}
        return d if kind == "dict" else frozendict(d) if kind == "fdict" else collections.OrderedDict(d)
    if kind in ("set", "fset"):
        s = {rand_hashable(rng, depth - 1) for _ in range(k)}
        return s if kind == "set" else frozenset(s)
    items = [rand_value(rng, depth - 1) for _ in range(k)]
    return items if kind == "list" else tuple(items)


# ---------------------------------------------------------------- container-kind variation
def thaw(v):
    """Immutable containers -> the mutable builtin of the same content (values only)."""
    if isinstance(v, (dict, frozendict)):
        return {k: thaw(x) for k, x in v.items()}
    if isinstance(v, (set, frozenset)):
        return set(v)
    if isinstance(v, (list, tuple)):
        return tuple(thaw(x) for x in v)
    return v


def vary(rng, v, p_list=0.5, keep=frozenset()):
    """Same content, container kinds varied: dict/frozendict/OrderedDict, set/frozenset,
    tuple/list (sequences only as dict values or inside sequences, where nothing needs to hash
    them; values listed in `keep` - the state names - are left alone)."""
    if isinstance(v, (dict, frozendict)):
        d = {k: vary(rng, x, p_list, keep) for k, x in v.items()}
        r = rng.random()
        return d if r < 0.6 else frozendict(d) if r < 0.85 else collections.OrderedDict(d)
    if isinstance(v, (set, frozenset)):
        return set(v) if rng.random() < 0.7 else frozenset(v)
    if isinstance(v, tuple) and v in keep:
        return v
    if isinstance(v, (list, tuple)):
        items = [vary(rng, x, p_list, keep) for x in v]
        return items if rng.random() < p_list else tuple(items)
    return v


def vary_def(rng, d, p_list=0.5):
    keep = frozenset(q for q in d.get("states", ()) if isinstance(q, tuple))
    return {k: vary(rng, v, p_list, keep) for k, v in d.items()}


# ---------------------------------------------------------------- automaton definitions
def states_of(rng, n):
    kind = rng.choice(["str", "str", "int", "tuple"])
    return [gen.NAME_POOLS[kind](i) for i in range(n)]


def rand_dpda_def(rng):
    n = rng.randint(1, 4)
    qs = states_of(rng, n)
    sigma = rng.choice(["a", "ab"])
    gamma = rng.choice(["Z", "ZX", "ZXY"])
    trans = {}
    for q in qs:
        if rng.random() < 0.2:
            continue
        row = {}
        for s in gamma:
            r = rng.random()
            if r < 0.25:
                continue
            push = tuple(rng.choice(gamma) for _ in range(rng.choice([0, 1, 1, 2, 2, 3])))
            if rng.random() < 0.2:
                push = "".join(push)
            if r < 0.4:
                row.setdefault("", {})[s] = (rng.choice(qs), push)
            else:
                for a in sigma:
                    if rng.random() < 0.7:
                        push2 = tuple(rng.choice(gamma) for _ in range(rng.choice([0, 1, 2])))
                        row.setdefault(a, {})[s] = (rng.choice(qs), push2)
        if row:
            trans[q] = row
    if qs[0] not in trans and n > 1:
        trans[qs[0]] = {sigma[0]: {gamma[0]: (qs[0], (gamma[0],))}}
    return dict(states=set(qs), input_symbols=set(sigma), stack_symbols=set(gamma), transitions=trans,
                initial_state=qs[0], initial_stack_symbol=gamma[0],
                final_states={q for q in qs if rng.random() < 0.4},
                acceptance_mode=rng.choice(["both", "final_state", "empty_stack"]))


def rand_npda_def(rng):
    n = rng.randint(1, 4)
    qs = states_of(rng, n)
    sigma = rng.choice(["a", "ab"])
    gamma = rng.choice(["Z", "ZX"])
    trans = {}
    for q in qs:
        row = {}
        for a in list(sigma) + [""]:
            for s in gamma:
                if rng.random() < 0.5:
                    continue
                tg = set()
                for _ in range(rng.choice([1, 1, 2])):
                    push = tuple(rng.choice(gamma) for _ in range(rng.choice([0, 1, 2] if a else [0, 0, 1])))
                    if rng.random() < 0.2:
                        push = "".join(push)
                    tg.add((rng.choice(qs), push))
                row.setdefault(a, {})[s] = tg
        if row:
            trans[q] = row
    if qs[0] not in trans and n > 1:
        trans[qs[0]] = {sigma[0]: {gamma[0]: {(qs[0], (gamma[0],))}}}
    return dict(states=set(qs), input_symbols=set(sigma), stack_symbols=set(gamma), transitions=trans,
                initial_state=qs[0], initial_stack_symbol=gamma[0],
                final_states={q for q in qs if rng.random() < 0.4},
                acceptance_mode=rng.choice(["both", "final_state", "empty_stack"]))


def _tm_base(rng):
    n = rng.randint(2, 4)
    qs = states_of(rng, n)
    sigma = rng.choice(["0", "01"])
    tape = sigma + rng.choice([".", ".x"])
    finals = {q for q in qs[1:] if rng.random() < 0.4} or {qs[-1]}
    return qs, sigma, tape, finals


def rand_dtm_def(rng):
    qs, sigma, tape, finals = _tm_base(rng)
    trans = {}
    for q in qs:
        if q in finals:
            continue
        row = {s: (rng.choice(qs), rng.choice(tape), rng.choice("LRN")) for s in tape if rng.random() < 0.7}
        if row or q == qs[0]:
            trans[q] = row
    return dict(states=set(qs), input_symbols=set(sigma), tape_symbols=set(tape), transitions=trans,
                initial_state=qs[0], blank_symbol=".", final_states=finals)


def rand_ntm_def(rng):
    qs, sigma, tape, finals = _tm_base(rng)
    trans = {}
    for q in qs:
        if q in finals:
            continue
        row = {s: {(rng.choice(qs), rng.choice(tape), rng.choice("LRN")) for _ in range(rng.choice([1, 1, 2]))}
               for s in tape if rng.random() < 0.7}
        if row or q == qs[0]:
            trans[q] = row
    return dict(states=set(qs), input_symbols=set(sigma), tape_symbols=set(tape), transitions=trans,
                initial_state=qs[0], blank_symbol=".", final_states=finals)


def rand_mntm_def(rng):
    import itertools
    qs, sigma, tape, finals = _tm_base(rng)
    k = rng.choice([1, 2, 2])
    trans = {}
    for q in qs:
        if q in finals:
            continue
        row = {}
        for key in itertools.product(tape, repeat=k):
            if rng.random() < (0.6 if k == 1 else 0.35):
                row[key] = [(rng.choice(qs), tuple((rng.choice(tape), rng.choice("LRN")) for _ in range(k)))
                            for _ in range(rng.choice([1, 1, 2]))]
        if row or q == qs[0]:
            trans[q] = row
    return dict(states=set(qs), input_symbols=set(sigma), tape_symbols=set(tape), n_tapes=k, transitions=trans,
                initial_state=qs[0], blank_symbol=".", final_states=finals)


def rand_gnfa_def(rng):
    """A valid GNFA definition: taken from GNFA.from_nfa / from_dfa of a random automaton and thawed."""
    from automata.fa.dfa import DFA
    from automata.fa.gnfa import GNFA
    from automata.fa.nfa import NFA
    names = ["q%d" % i for i in range(5)]
    if rng.random() < 0.5:
        g = GNFA.from_dfa(DFA(**gen.rand_dfa_def(rng, nmax=4, names=names)))
    else:
        g = GNFA.from_nfa(NFA(**gen.rand_nfa_def(rng, nmax=4, names=names)))
    return {k: thaw(v) for k, v in g.input_parameters.items()}


def class_table():
    from automata.fa.dfa import DFA
    from automata.fa.gnfa import GNFA
    from automata.fa.nfa import NFA
    from automata.pda.dpda import DPDA
    from automata.pda.npda import NPDA
    from automata.tm.dtm import DTM
    from automata.tm.mntm import MNTM
    from automata.tm.ntm import NTM
    return [
        ("DFA", DFA, lambda r: gen.rand_dfa_def(r, nmax=5)),
        ("NFA", NFA, lambda r: gen.rand_nfa_def(r, nmax=4)),
        ("GNFA", GNFA, rand_gnfa_def),
        ("DPDA", DPDA, rand_dpda_def),
        ("NPDA", NPDA, rand_npda_def),
        ("DTM", DTM, rand_dtm_def),
        ("NTM", NTM, rand_ntm_def),
        ("MNTM", MNTM, rand_mntm_def),
    ]
