"""C20 - query answers do not depend on the call history; caches stay coherent (correspondence half).

A random history of 1-12 public queries is run on ONE automaton instance.  Every answer is compared
(a) with the same query on a fresh copy of the automaton (history independence, observed on the
implementation alone) and (b) with the extracted state-machine model of the object
(coq/Model/Cache.v: step along the same history) and the stateless C13 models (pure).
NFA histories the same way against coq/Model/NFACache.v (op 2 of property 20): the memo of
`_get_lambda_closures` per instance, the answers along the history, the answers with every table
recomputed, and the answers of the C01 / C09 / C07 / C08 models."""
from __future__ import annotations

import itertools

import enc
import gen
from props import c13
from props.common import load_def, mk_dfa, mk_nfa, outcome

RULE = ("histories of 1-12 queries on one DFA instance (count/words for lengths 0..K incl. shorter-after-longer, "
        "words_of_length and iteration and successors abandoned after n items, random_word with seed, cardinality, len, "
        "min/max length, isempty, isfinite, clear_cache, interleaved accepts_input / == / <= / successor(s) / predecessor(s) with default and reversed symbol order) and on one NFA "
        "instance (accepts_input, partially consumed read_input_stepwise, ==, DFA.from_nfa, eliminate_lambda, reverse; compared with a fresh "
        "copy AND with the memo model of coq/Model/NFACache.v: answers along the history, and cached_method's lru_cache in the instance's "
        "__dict__ - filled or not after every query, its table after the history); DFAs from "
        "the C13 generators (random cyclic, acyclic finite-language, empty); one DFA history in five is run a second time "
        "on an instance built under allow_mutable_automata = True (plain dicts and sets kept); distinct = distinct (canonical automaton, "
        "history); non-trivial = history has >= 3 queries of which >= 2 touch a cache or a memo")

CACHE_QUERIES = {"count", "words", "words_prefix", "random", "card", "len", "min", "max", "isempty", "isfinite", "iter", "clear"}


# ---------------------------------------------------------------- DFA histories
def dfa_profile(ddef):
    """What may be asked of this DFA without unbounded work."""
    d = mk_dfa(ddef)
    K = c13.pick_K(d)
    finite = d.isfinite()
    empty = d.isempty()
    depth = {1: 24, 2: 9, 3: 6}.get(len(d.input_symbols), 5)
    cum, tot = [], 0
    for k in range(depth + 1):
        tot += d.count_words_of_length(k)
        cum.append(tot)
    return dict(K=K, finite=finite, empty=empty, iter_max=400 if finite else cum[-1], sigma=sorted(d.input_symbols))


def rand_history(rng, prof, other_defs):
    n = rng.randint(1, 12)
    K = prof["K"]
    hist = []
    base_k = rng.randint(0, K)
    for _ in range(n):
        r = rng.random()
        # lengths cluster around a base so that shorter-after-longer and repeats are frequent
        k = max(0, min(K, base_k + rng.choice([-3, -2, -1, -1, 0, 0, 1, 1, 2, 3]))) if rng.random() < 0.7 else rng.randint(0, K)
        if r < 0.16:
            hist.append(["count", k])
        elif r < 0.30:
            hist.append(["words", k])
        elif r < 0.40:
            hist.append(["words_prefix", k, rng.choice([0, 1, 1, 2, 3, 5])])
        elif r < 0.50:
            hist.append(["random", k, rng.randint(0, 10 ** 6)])
        elif r < 0.55:
            hist.append([rng.choice(["card", "len"])])
        elif r < 0.60:
            hist.append(["min"])
        elif r < 0.65:
            hist.append(["max"])
        elif r < 0.69:
            hist.append(["isempty"])
        elif r < 0.73:
            hist.append(["isfinite"])
        elif r < 0.82:
            top = prof["iter_max"]
            want = rng.choice([0, 1, 2, 3, 5, 8, 13, 400])
            hist.append(["iter", min(want, top) if not prof["finite"] else want])
        elif r < 0.88:
            hist.append(["clear"])
        elif r < 0.90:
            hist.append(["accepts", gen.rand_word(rng, prof["sigma"], 6)])
        elif r < 0.92:
            hist.append([rng.choice(["eq", "le"]), rng.randrange(len(other_defs))])
        else:
            start = gen.rand_word(rng, prof["sigma"], 4) if rng.random() < 0.7 else None
            rk = rng.choice([0, 0, 1])          # 0: default symbol order, 1: reversed order through key=
            r2 = rng.random()
            # a third of these searches are for one length only (min_length = max_length = k, the length of the
            # count/words queries around them)
            mx, mn = (k, k) if rng.random() < 0.35 else (K, 0)
            if r2 < 0.3:
                hist.append(["successors", start, rng.choice([0, 1, 2, 4]), mx, rk, mn])
            elif r2 < 0.5:
                hist.append(["successor", start, mx, rk, mn])
            elif r2 < 0.8:
                hist.append(["predecessors", start if start is not None else "", rng.choice([1, 2, 4, 50]), mx, rk, mn])
            else:
                hist.append(["predecessor", start if start is not None else "", mx, rk, mn])
    return hist


def run_query(d, q, sy, others):
    """One query on instance d -> canonical outcome."""
    kind = q[0]
    if kind == "count":
        return outcome(lambda: d.count_words_of_length(q[1]))[:2]
    if kind == "words":
        return outcome(lambda: [sy.word(w) for w in d.words_of_length(q[1])])[:2]
    if kind == "words_prefix":
        def f():
            g = d.words_of_length(q[1])
            got = [sy.word(w) for w in itertools.islice(g, q[2])]
            del g   # abandoned
            return got
        return outcome(f)[:2]
    if kind == "random":
        return outcome(lambda: sy.word(d.random_word(q[1], seed=q[2])))[:2]
    if kind == "card":
        return outcome(lambda: d.cardinality())[:2]
    if kind == "len":
        return outcome(lambda: len(d))[:2]
    if kind == "min":
        return outcome(lambda: d.minimum_word_length())[:2]
    if kind == "max":
        return outcome(lambda: d.maximum_word_length())[:2]
    if kind == "isempty":
        return outcome(lambda: d.isempty())[:2]
    if kind == "isfinite":
        return outcome(lambda: d.isfinite())[:2]
    if kind == "iter":
        def f():
            with c13.time_limit(20):
                return [sy.word(w) for w in itertools.islice(iter(d), q[1])]
        return outcome(f)[:2]
    if kind == "clear":
        return outcome(lambda: d.clear_cache())[:2]
    if kind == "accepts":
        return outcome(lambda: d.accepts_input(q[1]))[:2]
    if kind == "eq":
        return outcome(lambda: d == others[q[1]])[:2]
    if kind == "le":
        return outcome(lambda: d <= others[q[1]])[:2]
    def kw(rk, mn):
        out = {"key": (lambda c: -ord(c))} if rk else {}
        if mn:
            out["min_length"] = mn[0]
        return out
    if kind == "successors":
        return outcome(lambda: list(itertools.islice(d.successors(q[1], max_length=q[3], **kw(q[4], q[5:])), q[2])))[:2]
    if kind == "successor":
        return outcome(lambda: d.successor(q[1], max_length=q[2], **kw(q[3], q[4:])))[:2]
    if kind == "predecessors":
        return outcome(lambda: list(itertools.islice(d.predecessors(q[1], max_length=q[3], **kw(q[4], q[5:])), q[2])))[:2]
    if kind == "predecessor":
        return outcome(lambda: d.predecessor(q[1], max_length=q[2], **kw(q[3], q[4:])))[:2]
    raise ValueError(kind)


def wire_query(q, draws):
    kind = q[0]
    if kind == "count":
        return [1, q[1]]
    if kind == "words":
        return [2, q[1]]
    if kind == "words_prefix":
        return [3, q[1], q[2]]
    if kind == "random":
        return [4, q[1], draws]
    if kind in ("card", "len"):
        return [5]
    if kind == "min":
        return [6]
    if kind == "max":
        return [7]
    if kind == "isempty":
        return [8]
    if kind == "isfinite":
        return [9]
    if kind == "iter":
        return [10, q[1]]
    if kind == "clear":
        return [11]
    return None


def model_answer(q, a):
    kind = q[0]
    if kind == "count":
        return ("ok", a)
    if kind in ("words", "words_prefix"):
        return ("ok", a)
    if kind == "clear":
        return ("ok", None)
    r = enc.dec_res(a)
    if r[0] == "err":
        return r
    if kind == "max":
        return ("ok", c13.opt(r[1]))
    if kind in ("isempty", "isfinite"):
        return ("ok", bool(r[1]))
    return r


def check_dfa_history(ctx, ddef, hist, other_defs, tag, mutable=False):
    """mutable: the instance under test (and every fresh copy) is built under allow_mutable_automata = True from its
    own deep copy of the definition, so it keeps plain dicts and sets; answers must still not depend on history."""
    if mutable:
        import copy
        import automata.base.config as cfg
        plain = mk_dfa

        def mk_dfa_m(x):
            saved = cfg.allow_mutable_automata
            cfg.allow_mutable_automata = True
            try:
                return plain(copy.deepcopy(x))
            finally:
                cfg.allow_mutable_automata = saved
        return _check_dfa_history(ctx, ddef, hist, other_defs, tag, mk_dfa_m, "mutable")
    return _check_dfa_history(ctx, ddef, hist, other_defs, tag, mk_dfa, "default")


def _check_dfa_history(ctx, ddef, hist, other_defs, tag, mk_dfa, mode):
    d = mk_dfa(ddef)
    others = [mk_dfa(o) for o in other_defs]
    st = enc.Renum(enc.dfa_names(d))
    sy = enc.SymMap(d.input_symbols)
    wire = c13.enc_dfa_roworder(d, st, sy)
    # the randint draws of every random_word query (totals from the stateless model)
    jobs = [(q[1], q[2]) for q in hist if q[0] == "random"]
    drs = iter([r[0] for r in c13.model_draws(ctx, wire, jobs)]) if jobs else iter(())
    wq, idx = [], []
    for i, q in enumerate(hist):
        w = wire_query(q, next(drs) if q[0] == "random" else None)
        if w is not None:
            wq.append(w)
            idx.append(i)
    ans = ctx.driver.batch([(20, 1, enc.tree([wire, wq]))])[0]
    valid, stepped, pure = ans[0], ans[1], ans[2]
    model = {i: (model_answer(hist[i], s), model_answer(hist[i], p)) for i, s, p in zip(idx, stepped, pure)}
    empty_lang = None
    problems, confirmed = [], False
    if valid != 1:
        problems.append("the model's validity predicate rejects the definition")
    for i, q in enumerate(hist):
        got = run_query(d, q, sy, others)
        fresh_obj = mk_dfa(ddef)
        fresh = run_query(fresh_obj, q, sy, others)
        if got != fresh:
            problems.append(f"query #{i} {q}: {got!r:.200} on the used instance, {fresh!r:.200} on a fresh copy")
            confirmed = True
        if i in model:
            ms, mp = model[i]
            if ms != mp:
                problems.append(f"query #{i} {q}: model step answer {ms!r:.200} differs from the stateless model {mp!r:.200}")
            if got != ms:
                if q[0] == "iter" and q[1] > 0 and got == ("err", enc.EMPTY) and ms == ("ok", []):
                    # C13's open row (iteration of an empty language raises): reported there, not here
                    if empty_lang is None:
                        probe = mk_dfa(ddef)   # (bound to a name: cached_method fails on a temporary)
                        empty_lang = probe.isempty()
                    if empty_lang:
                        ctx.tally("iter_on_empty_language_both_behaviours_accepted")
                        continue
                if q[0] == "random" and got[0] == "ok" and ms[0] == "ok":
                    # which accepted word a given seed produces is not fixed by C13/C20 (only membership, uniformity
                    # and history independence are; the latter is checked against the fresh copy above): a
                    # different sampling scheme is a structural difference from the mirror model
                    ctx.structural += 1
                    ctx.tally("random_word_mapping_differs_from_mirror_model")
                    if len(got[1]) != q[1] or not mk_dfa(ddef).accepts_input(sy.unword(got[1])):
                        problems.append(f"query #{i} {q}: random_word returned {got!r:.100}, not an accepted word of that length")
                    continue
                problems.append(f"query #{i} {q}: implementation {got!r:.200}, model {ms!r:.200}")
        ctx.tally("q_" + q[0])
    touching = sum(1 for q in hist if q[0] in CACHE_QUERIES)
    ks = [q[1] for q in hist if q[0] in ("count", "words", "words_prefix", "random")]
    if any(a > b for a, b in zip(ks, ks[1:])):
        ctx.tally("shorter_after_longer")
    if any(q[0] == "clear" for q in hist[:-1]):
        ctx.tally("clear_in_the_middle")
    ctx.tally("hist_len_%02d" % len(hist))
    ctx.tally("mode_" + mode)
    ctx.case((enc.tree(wire), repr(hist), mode), nontrivial=len(hist) >= 3 and touching >= 2,
             sample={"dfa": repr(ddef), "history": hist, "mode": mode})
    if problems:
        ctx.violation(f"answers ({mode} mode) depend on the call history / disagree with the cache model: " + "; ".join(problems)[:1500],
                      {"kind": "dfa_history", "def": repr(ddef), "history": hist, "others": [repr(o) for o in other_defs],
                       "problems": problems, "tag": tag, "mode": mode}, confirmed=confirmed)


# ---------------------------------------------------------------- NFA histories (fresh-copy comparison)
def nfa_canon(x):
    from automata.fa.dfa import DFA
    from automata.fa.nfa import NFA
    if isinstance(x, (DFA, NFA)):
        sig = sorted(x.input_symbols)
        return ("fa", type(x).__name__, len(x.states), tuple(x.accepts_input(w) for w in gen.all_words(sig, 4 if len(sig) < 3 else 3)))
    if isinstance(x, (set, frozenset)):
        return ("set", tuple(sorted(map(repr, x))))
    if isinstance(x, list):
        return [nfa_canon(y) for y in x]
    return x


def raw_nfa_query(n, q, others):
    """One query on instance n -> outcome holding the object the call returned."""
    from automata.fa.dfa import DFA
    kind = q[0]
    if kind == "accepts":
        return outcome(lambda: n.accepts_input(q[1]))[:2]
    if kind == "stepwise":
        return outcome(lambda: list(itertools.islice(n.read_input_stepwise(q[1]), q[2])))[:2]
    if kind == "eq":
        return outcome(lambda: n == others[q[1]])[:2]
    if kind == "from_nfa":
        return outcome(lambda: DFA.from_nfa(n, retain_names=q[1], minify=q[2]))[:2]
    if kind == "elim":
        return outcome(lambda: n.eliminate_lambda())[:2]
    if kind == "reverse":
        return outcome(lambda: n.reverse())[:2]
    raise ValueError(kind)


def memo_of(n):
    """The lru_cache cached_method keeps in the instance's __dict__, read without creating or filling it:
    None when empty, else the stored table."""
    m = n.__dict__.get("_get_lambda_closures")
    if m is None or m.cache_info().currsize == 0:
        return None
    return m()      # a hit: returns the stored object, changes nothing


def canon_outcome(r):
    return (r[0], nfa_canon(r[1])) if r[0] == "ok" else r


def run_nfa_query(n, q, others):
    return canon_outcome(raw_nfa_query(n, q, others))


def wire_nfa_query(q, sy):
    """Query on instance 0 of the pool [the NFA under test, others...] (coq/Model/D20.v dec_nquery)."""
    kind = q[0]
    if kind == "accepts":
        return [1, 0, sy.word(q[1])]
    if kind == "stepwise":
        return [2, 0, sy.word(q[1]), q[2]]
    if kind == "eq":
        return [3, 0, 1 + q[1]]
    if kind == "from_nfa":
        return [4, 0, bool(q[2]), bool(q[1])]
    if kind == "elim":
        return [5, 0]
    if kind == "reverse":
        return [6, 0]
    raise ValueError(kind)


def rand_nfa_history(rng, ndef, nothers):
    sigma = sorted(ndef["input_symbols"])
    hist = []
    for _ in range(rng.randint(1, 12)):
        r = rng.random()
        if r < 0.4:
            hist.append(["accepts", gen.rand_word(rng, sigma, 6)])
        elif r < 0.55:
            hist.append(["stepwise", gen.rand_word(rng, sigma, 6), rng.randint(0, 4)])
        elif r < 0.7:
            hist.append(["eq", rng.randrange(nothers)])
        elif r < 0.85:
            hist.append(["from_nfa", rng.random() < 0.5, rng.random() < 0.5])
        elif r < 0.93:
            hist.append(["elim"])
        else:
            hist.append(["reverse"])
    return hist


def check_nfa_history(ctx, ndef, hist, other_defs, tag):
    """Every answer on the used instance is compared (a) with a fresh copy (implementation alone) and (b) with the
    memo model (coq/Model/NFACache.v through op 2 of property 20): the model's answers along the same history on the
    same pool of instances, which must also equal the model's from-scratch answers and the C01/C09/C07/C08 models.
    Booleans, yielded state sets and error kinds are compared exactly; automata through the verified comparators
    (property 0) plus the state count."""
    from automata.fa.dfa import DFA
    n = mk_nfa(ndef)
    others = [mk_nfa(o) for o in other_defs]
    problems, confirmed = [], False
    st = enc.Renum(enc.nfa_names(n))
    sy = enc.SymMap(n.input_symbols)
    raws, filled = [], []
    for i, q in enumerate(hist):
        raw = raw_nfa_query(n, q, others)
        got = canon_outcome(raw)
        fresh = run_nfa_query(mk_nfa(ndef), q, others)
        if got != fresh:
            problems.append(f"query #{i} {q}: {got!r:.200} on the used instance, {fresh!r:.200} on a fresh copy")
            confirmed = True
        raws.append(raw)
        filled.append([memo_of(x) is not None for x in [n] + others])
        ctx.tally("nfa_q_" + q[0])
    # the memo model on the same pool: instance 0 = the NFA under test, 1.. = the operands of ==
    same_sigma = [set(o.input_symbols) == set(n.input_symbols) for o in others]
    pool = [enc.enc_nfa(n, st, sy)] + [enc.enc_nfa(o, None, sy if same else None) for o, same in zip(others, same_sigma)]
    wq = [wire_nfa_query(q, sy) for q in hist]
    ans = ctx.driver.batch([(20, 2, enc.tree([pool, wq]))])[0]
    valids, stepped, pure, spec, memos, filled_model = ans
    if not all(valids):
        problems.append(f"the model's validity predicate rejects a definition of the pool: {valids}")
    # the memo itself (cached_method's lru_cache in the instance's __dict__): filled exactly when the model says so
    # after every query, and at the end it holds the model's table
    for i, (fi, fm) in enumerate(zip(filled, filled_model)):
        if [bool(x) for x in fm] != fi:
            problems.append(f"after query #{i} {hist[i]}: memos filled {fi} in the implementation, {fm} in the model")
            break
    sts = [st] + [enc.Renum(enc.nfa_names(o)) for o in others]
    for k, (x, xs, mm) in enumerate(zip([n] + others, sts, memos)):
        tbl = memo_of(x)
        got_tbl = None if tbl is None else sorted([xs(q), sorted(xs(t) for t in c)] for q, c in tbl.items())
        want_tbl = sorted(mm[0]) if mm else None
        if got_tbl != want_tbl:
            problems.append(f"instance {k}: cached closure table {got_tbl} after the history, the model's memo holds {want_tbl}")
    if any(memo_of(x) is not None for x in [n] + others):
        ctx.tally("nfa_memo_filled_and_compared")
    items, metas = [], []
    for i, (q, raw, ms, mp, msp) in enumerate(zip(hist, raws, stepped, pure, spec)):
        if ms != mp:
            problems.append(f"query #{i} {q}: model answer along the history {ms!r:.200} differs from its from-scratch answer {mp!r:.200}")
        if mp != msp:
            problems.append(f"query #{i} {q}: memo model {mp!r:.200} differs from the stateless C01/C09/C07/C08 model {msp!r:.200}")
        kind = q[0]
        if ms[0] == 0:
            if kind == "eq" and ms[1] == enc.MISMATCH and not same_sigma[q[1]]:
                # different alphabets: __eq__ returns NotImplemented (Python then answers False); C09's row
                if raw != ("ok", False):
                    problems.append(f"query #{i} {q}: == across alphabets answered {raw!r:.100}")
                continue
            if raw != ("err", ms[1]):
                problems.append(f"query #{i} {q}: implementation {canon_outcome(raw)!r:.200}, model error {ms[1]}")
            continue
        if raw[0] != "ok":
            problems.append(f"query #{i} {q}: implementation raised {raw!r:.100}, model answers {ms!r:.200}")
            continue
        val = raw[1]
        if kind in ("accepts", "eq"):
            if ms != [1, 1 if val else 0] or not isinstance(val, bool):
                problems.append(f"query #{i} {q}: implementation {val!r}, model {ms}")
        elif kind == "stepwise":
            got_sets = [sorted(st(x) for x in cfg) for cfg in val]
            if ms != [2, got_sets]:
                problems.append(f"query #{i} {q}: implementation yields {got_sets}, model {ms}")
        elif kind == "from_nfa":
            items.append((0, 1, enc.tree([enc.enc_dfa(val, None, sy), ms[1]])))
            metas.append((i, q, val, ms[1]))
        else:
            items.append((0, 2, enc.tree([enc.enc_nfa(val, None, sy), ms[1]])))
            metas.append((i, q, val, ms[1]))
    # after the whole history: determinisation still has the NFA's language (verified comparator)
    dd = DFA.from_nfa(n)
    items.append((0, 3, enc.tree([pool[0], enc.enc_dfa(dd, None, sy)])))
    cmp_ans = ctx.driver.batch(items)
    for (i, q, val, mtree), a in zip(metas, cmp_ans):
        if q[0] == "from_nfa":
            va, vb, size_impl, size_model, diff = a
            # minify=True: the minimum for the result's own kind (C05/C07): the model's minimal DFA is partial
            want = size_model + (1 if (q[2] and not val.allow_partial and mtree[5]) else 0)
        else:
            va, vb, diff = a
            size_impl, want = len(val.states), len(mtree[0])
        if not va or not vb:
            problems.append(f"query #{i} {q}: result not valid (implementation {va}, model {vb})")
        if diff != [1, []]:
            w = sy.unword(diff[1][0]) if diff[0] == 1 and diff[1] else None
            problems.append(f"query #{i} {q}: the implementation's result and the model's differ in language: {diff}, word {w!r}")
            if w is not None and val.accepts_input(w) != mk_nfa(ndef).accepts_input(w[::-1] if q[0] == "reverse" else w):
                confirmed = True    # the result disagrees with its own source on that word (implementation alone)
        # the number of states is fixed by a property only for minimised results (C05/C07: the minimum of the result's
        # kind); an un-minimised subset automaton, eliminate_lambda and reverse may be built with fewer or more states
        if q[0] == "from_nfa" and q[2] and size_impl != want:
            problems.append(f"query #{i} {q}: the implementation's result has {size_impl} states, the model's {want}")
    a = cmp_ans[-1]
    if a[0] != 1 or a[1] != 1 or a[2] != [1, []]:
        w = sy.unword(a[2][1][0]) if a[2][0] == 1 and a[2][1] else None
        problems.append(f"after the history DFA.from_nfa(nfa) differs from the NFA: comparator {a}, word {w!r}")
    touching = sum(1 for q in hist if q[0] != "reverse" and not (q[0] == "stepwise" and q[2] == 0))
    if touching >= 2:
        ctx.tally("nfa_memo_consulted_after_filled")
    ctx.case(("nfa", enc.tree(pool[0]), repr(hist)), nontrivial=len(hist) >= 3,
             sample={"nfa": repr(ndef), "history": hist})
    if problems:
        ctx.violation("NFA answers depend on the call history / disagree with the memo model: " + "; ".join(problems)[:1500],
                      {"kind": "nfa_history", "def": repr(ndef), "history": hist, "others": [repr(o) for o in other_defs],
                       "problems": problems, "tag": tag}, confirmed=confirmed)


# ---------------------------------------------------------------- fixed corner histories
def corner_histories():
    uni = dict(states={0}, input_symbols={"a", "b"}, transitions={0: {"a": 0, "b": 0}}, initial_state=0,
               final_states={0}, allow_partial=False)
    fin = dict(states={0, 1, 2}, input_symbols={"a", "b"}, transitions={0: {"a": 1, "b": 2}, 1: {"a": 2}, 2: {}},
               initial_state=0, final_states={2}, allow_partial=True)
    emp = dict(states={0}, input_symbols={"a"}, transitions={0: {"a": 0}}, initial_state=0, final_states=set(),
               allow_partial=False)
    return [
        (uni, [["count", 5], ["count", 2], ["words", 3], ["words", 1], ["count", 7], ["words", 3]]),
        (uni, [["words_prefix", 4, 1], ["words", 4], ["words", 2], ["clear"], ["words", 2], ["count", 4]]),
        (uni, [["iter", 3], ["iter", 9], ["iter", 0], ["words", 1], ["clear"], ["iter", 5], ["max"], ["card"]]),
        (fin, [["card"], ["len"], ["count", 2], ["clear"], ["card"], ["iter", 400], ["iter", 1], ["max"], ["min"]]),
        (fin, [["random", 2, 5], ["count", 1], ["random", 1, 5], ["clear"], ["random", 2, 5], ["isfinite"], ["isempty"]]),
        (emp, [["isempty"], ["card"], ["min"], ["max"], ["isfinite"], ["count", 3], ["words", 2], ["random", 1, 3], ["card"]]),
        (emp, [["max"], ["isfinite"], ["min"], ["card"], ["len"], ["isempty"]]),
    ]


def run(ctx):
    ctx.rule = RULE
    rng = ctx.rng
    for ddef, hist in corner_histories():
        check_dfa_history(ctx, ddef, hist, [ddef], "corner")
    nmax = ctx.n(6, 7)
    for i in range(ctx.n(900, 9000)):
        pick = i % 10
        if pick < 5:
            ddef, tag = gen.rand_dfa_def(rng, nmax=nmax), "random"
            for _ in range(3):      # the plain generator gives many empty languages; keep a few
                probe = mk_dfa(ddef)
                if not probe.isempty() or rng.random() < 0.15:
                    break
                ddef = gen.rand_dfa_def(rng, nmax=nmax)
        elif pick < 9:
            ddef, tag = c13.dag_dfa_def(rng, nmax=nmax), "dag"
        else:
            ddef, tag = c13.empty_dfa_def(rng), "empty"
        sigma = "".join(sorted(ddef["input_symbols"]))
        other_defs = [gen.rand_dfa_def(rng, nmax=4, alphabet=sigma), ddef]
        prof = dfa_profile(ddef)
        ctx.tally("lang_empty" if prof["empty"] else ("lang_finite" if prof["finite"] else "lang_infinite"))
        hist = rand_history(rng, prof, other_defs)
        check_dfa_history(ctx, ddef, hist, other_defs, tag)
        if i % 5 == 4:
            check_dfa_history(ctx, ddef, hist, other_defs, tag, mutable=True)
    for i in range(ctx.n(300, 3000)):
        # (half of them with empty-string rings, chains and diamonds through up to 7 states)
        ndef = gen.rand_nfa_eps_rich(rng, nmax=7) if i % 2 else gen.rand_nfa_def(rng)
        sigma = "".join(sorted(ndef["input_symbols"]))
        other_defs = [gen.rand_nfa_def(rng, nmax=4, alphabet=sigma), ndef]
        check_nfa_history(ctx, ndef, rand_nfa_history(rng, ndef, len(other_defs)), other_defs, "random")


def replay(ctx, case):
    others = [load_def(o) for o in case.get("others", [])]
    if case["kind"] == "dfa_history":
        check_dfa_history(ctx, load_def(case["def"]), case["history"], others, "replay",
                          mutable=case.get("mode") == "mutable")
    else:
        check_nfa_history(ctx, load_def(case["def"]), case["history"], others, "replay")
    print("replay:", "VIOLATION reproduced" if ctx.violations else "no disagreement")
