"""C06 - DFA comparisons, emptiness, finiteness (correspondence half)."""
from __future__ import annotations

import itertools

import enc
import gen
import hkspy
from props import c13
from props.common import load_def, mk_dfa, outcome

RULE = ("random pairs of valid DFAs over a common alphabet (1-6 states, partial/complete mixes, 7 name pools), "
        "plus built pairs: a DFA vs a renamed copy with one deep final flag flipped ('differ on one long word'), "
        "vs itself completed with a trap, vs its sub/superset, vs the same table with another accepting set (differing in an "
        "unreachable state where there is one), and series of comparisons of one long-lived left operand with short-lived "
        "right operands; the ten comparison answers and isempty/isfinite are "
        "compared exactly with the proved model; == is additionally compared with the mirror model of the code's "
        "Hopcroft-Karp/union-find loop (two symbol orders and tie-breaks), and the sequence of union calls observed by a "
        "spy on networkx's UnionFind is compared with the mirror model run under the observed schedule. distinct = distinct canonical (A, B); non-trivial = both "
        "languages non-empty and the pair is not literally identical")

NAMES = ["eq", "ne", "le", "lt", "ge", "gt", "issubset", "issuperset", "isdisjoint"]


def impl_answers(a, b):
    return [
        outcome(lambda: a == b), outcome(lambda: a != b), outcome(lambda: a <= b), outcome(lambda: a < b),
        outcome(lambda: a >= b), outcome(lambda: a > b), outcome(lambda: a.issubset(b)),
        outcome(lambda: a.issuperset(b)), outcome(lambda: a.isdisjoint(b)),
    ]


def confirm(a, b, name, sy, word):
    """Evidence from the implementation alone: verdicts of both operands on the distinguishing word."""
    if word is None:
        return None
    s = sy.unword(word)
    return {"word": s, "A_accepts": a.accepts_input(s), "B_accepts": b.accepts_input(s)}


def hk_trace_prepare(a, b, ta, tb, sy):
    """Run a == b under the spy; return (wire item for the mirror model under the observed schedule, judge)."""
    if a.input_symbols != b.input_symbols:
        return None, None
    sta, stb = enc.Renum(enc.dfa_names(a)), enc.Renum(enc.dfa_names(b))

    def el(e):
        q, idx = e
        return [idx, [] if q is None else [(sta, stb)[idx](q)]]

    got, rec = hkspy.observe_eq(a, b)
    order = [sy(c) for c in a.input_symbols]
    try:
        ties = [[el(x), el(y)] for x, y in rec.first_wins]
        calls = [[el(x), el(y)] for x, y in rec.calls]
    except (KeyError, TypeError, ValueError, IndexError) as e:
        # the loop handled something that is not a state (set) of the operand it is tagged with: there is no schedule
        # to run the mirror model under; reported as a difference of the run (the answers are judged on their own)
        what = f"union-find was called on an element that does not belong to its operand ({type(e).__name__}: {e}); calls {rec.calls!r:.300}"
        return None, (lambda ctx, answer, eq_outcome: [what])

    def judge(ctx, answer, eq_outcome):
        m_res, m_log = answer
        m_res = enc.dec_res(m_res)
        want = ("ok", m_res[1] == 1) if m_res[0] == "ok" else ("err", m_res[1])
        out = []
        if got[:2] != want or got[:2] != eq_outcome[:2]:
            out.append(f"eq under the observed schedule: impl {got} (unobserved run {eq_outcome}) mirror model {want}")
        if calls != m_log:
            out.append(f"union-find calls differ from the mirror model's: impl {calls} model {m_log}")
        ctx.tally("hk_trace_compared")
        ctx.tally(f"hk_unions_{min(len(calls), 6)}{'+' if len(calls) >= 6 else ''}")
        return out

    return (6, 4, enc.tree([ta, tb, order, ties])), judge


def check_pair(ctx, adef, bdef, tag):
    a, b = mk_dfa(adef), mk_dfa(bdef)
    sy = enc.SymMap(a.input_symbols | b.input_symbols)
    ta, tb = enc.enc_dfa(a, None, sy), enc.enc_dfa(b, None, sy)
    trace_item, trace_judge = hk_trace_prepare(a, b, ta, tb, sy)
    ans, cmp_, hk, *trace_ans = ctx.driver.batch([(6, 1, enc.tree([ta, tb])), (0, 1, enc.tree([ta, tb])),
                                                  (6, 3, enc.tree([ta, tb]))] + ([trace_item] if trace_item else []))
    got = impl_answers(a, b)
    problems = []
    # == against the mirror model of DFA.__eq__ (Hopcroft-Karp as coded), under two schedules
    for sched, m in zip(("record order, first root wins ties", "reversed order, second root wins ties"), hk):
        m = enc.dec_res(m)
        want = ("ok", m[1] == 1) if m[0] == "ok" else ("err", m[1])
        if got[0][:2] != want:
            problems.append(f"eq: impl {got[0]} Hopcroft-Karp mirror model ({sched}) {want}")
    ctx.tally("hk_mirror_compared")
    # the run of the loop itself: the union calls seen by a spy on networkx's UnionFind against the mirror model
    # driven by the schedule the implementation actually used (symbol iteration order, tie-breaks)
    trace_problems = (trace_judge(ctx, trace_ans[0], got[0]) if trace_item else
                      trace_judge(ctx, None, got[0]) if trace_judge else [])
    for name, g, m in zip(NAMES, got, ans):
        m = enc.dec_res(m)
        want = ("ok", m[1] == 1) if m[0] == "ok" else ("err", m[1])
        if g[:2] != want:
            problems.append(f"{name}: impl {g} model {want}")
    diff = enc.dec_res(cmp_[4])
    word = diff[1][0] if diff[0] == "ok" and diff[1] else None
    ctx.tally("equal_languages" if word is None else "different_languages")
    ctx.tally("pair_" + tag)
    nontrivial = not a.isempty() and not b.isempty() and enc.tree(ta) != enc.tree(tb)
    ctx.case((enc.tree(ta), enc.tree(tb)), nontrivial,
             sample={"A": repr(adef), "B": repr(bdef), "answers": dict(zip(NAMES, [g[1] for g in got]))})
    if trace_problems and not problems:
        # same answers, different run: the code's loop is no longer the one the mirror model describes (a different
        # union-find, agenda or expansion order). The property fixes the boolean only - decided above against the
        # specification model, which is proved equal to language equality - so this is a structural difference,
        # counted and shown in the evidence, not a violation.
        ctx.structural += 1
        ctx.tally("hk_trace_differs_from_mirror_model")
        if len(ctx.notes) < 3:
            ctx.notes.append("hk_trace differs: " + "; ".join(trace_problems)[:300])
    if problems:
        problems += trace_problems
        ctx.violation("DFA comparison disagrees with the language statement: " + "; ".join(problems),
                      {"kind": "pair", "A": repr(adef), "B": repr(bdef), "problems": problems,
                       "distinguishing_word": confirm(a, b, None, sy, word), "tag": tag})


def check_single(ctx, adef):
    a = mk_dfa(adef)
    ans = ctx.driver.batch([(6, 2, enc.tree(enc.enc_dfa(a)))])[0]
    for name, fn, m in (("isempty", a.isempty, ans[0]), ("isfinite", a.isfinite, ans[1])):
        g = outcome(fn)
        m = enc.dec_res(m)
        want = ("ok", m[1] == 1) if m[0] == "ok" else ("err", m[1])
        ctx.tally(f"{name}_{g[1]}")
        if g[:2] != want:
            ctx.violation(f"{name}: impl {g} model {want}", {"kind": "single", "A": repr(adef), "query": name})
    ctx.case(("single", enc.tree(enc.enc_dfa(a))), len(a.states) > 1, sample=None)


def renamed_copy(rng, d, flip=None):
    """Same DFA with fresh state names; optionally flip finality of one state."""
    names = sorted(d["states"], key=enc.sort_key)
    new = {q: ("r", i) for i, q in enumerate(names)}
    finals = {new[q] for q in d["final_states"]}
    if flip is not None:
        finals ^= {new[flip]}
    return dict(states=set(new.values()), input_symbols=set(d["input_symbols"]),
                transitions={new[q]: {c: new[t] for c, t in row.items()} for q, row in d["transitions"].items()},
                initial_state=new[d["initial_state"]], final_states=finals, allow_partial=d["allow_partial"])


def same_table_other_finals(rng, d):
    """The very same states, names and table; the accepting set differs in one state - an unreachable one when the
    DFA has one (then the languages are equal), any state otherwise."""
    reach, todo = {d["initial_state"]}, [d["initial_state"]]
    while todo:
        for t in d["transitions"].get(todo.pop(), {}).values():
            if t not in reach:
                reach.add(t)
                todo.append(t)
    unreach = sorted(set(d["states"]) - reach, key=enc.sort_key)
    pool = unreach if unreach and rng.random() < 0.7 else sorted(d["states"], key=enc.sort_key)
    out = dict(d)
    out["final_states"] = set(d["final_states"]) ^ {rng.choice(pool)}
    return out


def check_session(ctx, refdef, otherdefs, tag):
    """One long-lived left operand compared with a series of short-lived right operands (each dropped before the next
    is built): the answers must not depend on what was compared before."""
    ref = mk_dfa(refdef)
    got = []
    for od in otherdefs:
        other = mk_dfa(od)
        got.append((outcome(lambda: ref == other), outcome(lambda: ref != other), outcome(lambda: ref <= other)))
        del other
    sy = enc.SymMap(ref.input_symbols)
    tr = enc.enc_dfa(ref, None, sy)
    items = [(6, 1, enc.tree([tr, enc.enc_dfa(mk_dfa(od), None, sy)])) for od in otherdefs]
    for j, (od, g3, ans) in enumerate(zip(otherdefs, got, ctx.driver.batch(items))):
        problems = []
        for name, g, m in zip(("eq", "ne", "le"), g3, (ans[0], ans[1], ans[2])):
            m = enc.dec_res(m)
            want = ("ok", m[1] == 1) if m[0] == "ok" else ("err", m[1])
            if g[:2] != want:
                problems.append(f"{name}: impl {g} model {want}")
        ctx.tally("session_comparison")
        if problems:
            fresh = outcome(lambda: mk_dfa(refdef) == mk_dfa(od))
            ctx.violation(f"DFA comparison #{j + 1} of a series on one left operand disagrees with the language statement "
                          f"(the same comparison on fresh objects gives {fresh}): " + "; ".join(problems),
                          {"kind": "session", "A": repr(refdef), "Bs": [repr(o) for o in otherdefs], "index": j,
                           "problems": problems, "tag": tag})
            return


def chain_def(n, sigma, loop_back):
    """0 -> 1 -> ... -> n-1 on the first symbol (long access words), other symbols to a trap or missing."""
    a = sigma[0]
    trans = {i: ({a: i + 1} if i + 1 < n else ({a: 0} if loop_back else {})) for i in range(n)}
    return dict(states=set(range(n)), input_symbols=set(sigma), transitions=trans, initial_state=0,
                final_states={n - 1}, allow_partial=True)


def nfa_to_dfa_def(n):
    """A deterministic lasso NFA definition as a partial DFA definition (None if not deterministic)."""
    trans = {}
    for q, row in n["transitions"].items():
        r = {}
        for a, ts in row.items():
            if len(ts) != 1:
                return None
            r[a] = next(iter(ts))
        trans[q] = r
    return dict(states=set(n["states"]), input_symbols=set(n["input_symbols"]), transitions=trans,
                initial_state=n["initial_state"], final_states=set(n["final_states"]), allow_partial=True)


def known_temporary(ctx):
    """Open finding: queries decorated with cached_method (isempty, isfinite, cardinality, minimum/maximum_word_length)
    raise RuntimeError when first called on an automaton that is not bound to a name: the third-party cached_method
    package keeps only a weak reference to the instance.  (Every other call in this harness binds the object first.)"""
    from automata.fa.dfa import DFA
    a = DFA.from_prefix({"a", "b"}, "ab")
    out = outcome(lambda: (a & ~a).isempty())
    ctx.open_finding("cached_query_on_temporary", out[:2] != ("ok", True),
                     f"(a & ~a).isempty() on an unnamed result gives {out}, expected True")


def run(ctx):
    ctx.rule = RULE
    known_temporary(ctx)
    rng = ctx.rng
    for i in range(ctx.n(350, 6000)):
        sigma = gen.rand_alphabet(rng)
        adef = gen.rand_dfa_def(rng, alphabet=sigma)
        r = rng.random()
        if r < 0.5:
            bdef, tag = gen.rand_dfa_def(rng, alphabet=sigma), "random"
        elif r < 0.58:
            bdef, tag = same_table_other_finals(rng, adef), "same_table_other_finals"
        elif r < 0.65:
            bdef, tag = renamed_copy(rng, adef), "renamed_copy"
        elif r < 0.85:
            bdef, tag = renamed_copy(rng, adef, flip=rng.choice(sorted(adef["states"], key=enc.sort_key))), "one_flag_flipped"
        else:
            n = rng.randint(3, 9)
            adef = chain_def(n, sigma, rng.random() < 0.5)
            bdef = renamed_copy(rng, adef, flip=rng.choice([None, n - 1, n - 2, 0]))
            tag = "long_chain"
        if i % 6 == 1:
            # rows keyed by names that are not states (-1, -2, ...: the ids the product picks for its implicit trap)
            adef, bdef, tag = gen.add_dfa_stray_rows(rng, adef), gen.add_dfa_stray_rows(rng, bdef), tag + "_stray_rows"
        check_pair(ctx, adef, bdef, tag)
        if rng.random() < 0.5:
            check_pair(ctx, bdef, adef, tag + "_swapped")
        check_single(ctx, adef)
        # finite languages: acyclic cores with diamonds, optionally a dead cycle, an unreachable cycle that feeds the core, a trap
        fdef = c13.dag_dfa_def(rng, nmax=6)
        check_single(ctx, fdef)
        if i % 4 == 0:
            check_pair(ctx, fdef, renamed_copy(rng, fdef, flip=rng.choice([None] + sorted(fdef["states"], key=enc.sort_key))),
                       "finite_language")
        if i % 5 == 0:
            names, _ = gen.pick_names(rng, 6)
            refdef = gen.rand_dfa_def(rng, alphabet=sigma, names=list(names))
            others = [gen.rand_dfa_def(rng, alphabet=sigma, names=list(names))
                      if rng.random() < 0.7 else renamed_copy(rng, refdef) for _ in range(5)]
            check_session(ctx, refdef, others, "session")
        if i % 3 == 0:
            for _ in range(3):
                x, y, tag = gen.lasso_pair(rng, rng.choice(["a", "a", "ab"]))
                dx, dy = nfa_to_dfa_def(x), nfa_to_dfa_def(y)
                if dx and dy:
                    check_pair(ctx, dx, dy, tag)
            x, y, tag = gen.prefix_agreeing_lassos(rng)
            check_pair(ctx, nfa_to_dfa_def(x), nfa_to_dfa_def(y), tag)
    # operands over different alphabets are refused
    for sa, sb in [("ab", "a"), ("a", "ab"), ("ab", "bc"), ("ab", "cd"), ("abc", "ab"), ("ab", "abc")] * ctx.n(2, 10):
        da, db = gen.rand_dfa_def(rng, alphabet=sa), gen.rand_dfa_def(rng, alphabet=sb)
        a, b = mk_dfa(da), mk_dfa(db)
        for name, fn in (("issubset", lambda: a.issubset(b)), ("issuperset", lambda: a.issuperset(b)),
                         ("isdisjoint", lambda: a.isdisjoint(b)), ("le", lambda: a <= b), ("lt", lambda: a < b),
                         ("ge", lambda: a >= b), ("gt", lambda: a > b)):
            g = outcome(fn)
            ctx.tally("alphabet_mismatch_refusal")
            if g[:2] != ("err", enc.MISMATCH):
                ctx.violation(f"{name} of a DFA over {sorted(sa)} with one over {sorted(sb)}: {g}, expected SymbolMismatchError",
                              {"kind": "mismatch", "op": name, "A": repr(da), "B": repr(db)})
    if ctx.tier == "thorough":
        # exhaustive: all pairs of partial DFAs with <= 2 states over {a} and {a,b} restricted: 1-2 states over {a}
        defs = []
        for n in (1, 2):
            for tgt in itertools.product([None] + list(range(n)), repeat=n):
                for fin in itertools.product([0, 1], repeat=n):
                    defs.append(dict(states=set(range(n)), input_symbols={"a"},
                                     transitions={q: ({"a": tgt[q]} if tgt[q] is not None else {}) for q in range(n)},
                                     initial_state=0, final_states={q for q in range(n) if fin[q]}, allow_partial=True))
        for x in defs:
            for y in defs:
                check_pair(ctx, x, y, "exhaustive")
        ctx.exhaustive = True
        ctx.exhaustive_scope = "all ordered pairs of partial DFAs with <= 2 states over {a} (initial state 0)"


def replay(ctx, case):
    if case["kind"] == "pair":
        check_pair(ctx, load_def(case["A"]), load_def(case["B"]), "replay")
    elif case["kind"] == "session":
        check_session(ctx, load_def(case["A"]), [load_def(b) for b in case["Bs"]], "replay")
    elif case["kind"] == "single":
        check_single(ctx, load_def(case["A"]))
    print("replay:", "VIOLATION reproduced" if ctx.violations else "no disagreement")
