"""Helpers shared by the property modules."""
from __future__ import annotations

import itertools

from frozendict import frozendict  # noqa: F401  (used by eval of stored definitions)

import enc
from automata.fa.dfa import DFA
from automata.fa.nfa import NFA


def mk_dfa(d):
    return DFA(**d)


def mk_nfa(d):
    return NFA(**d)


def load_def(s):
    """Inverse of repr() for stored constructor arguments."""
    return eval(s, {"frozenset": frozenset, "frozendict": frozendict, "set": set})


def outcome(fn):
    """Run fn(); ('ok', value) or ('err', code)."""
    try:
        return ("ok", fn())
    except BaseException as e:  # noqa: BLE001 - the kind of exception is the observable
        if isinstance(e, (KeyboardInterrupt, SystemExit, MemoryError)):
            raise
        return ("err", enc.exc_code(e), type(e).__name__)


def drain(gen_fn):
    """Collect what a generator yields until it ends or raises: (yields, outcome)."""
    ys = []
    try:
        for y in gen_fn():
            ys.append(y)
        return ys, ("ok", None)
    except BaseException as e:  # noqa: BLE001
        if isinstance(e, (KeyboardInterrupt, SystemExit, MemoryError)):
            raise
        return ys, ("err", enc.exc_code(e), type(e).__name__)


def dfa_lang_upto(d, sy, maxlen):
    """Set of accepted words (as index tuples) up to a length, by direct table walk
    (independent brute-force oracle, used only to confirm disagreements)."""
    acc = set()
    for k in range(maxlen + 1):
        for w in itertools.product(sy.syms, repeat=k):
            q = d.initial_state
            ok = True
            for c in w:
                row = d.transitions.get(q, {})
                if c not in row:
                    ok = False
                    break
                q = row[c]
            if ok and q in d.final_states:
                acc.add(w)
    return acc
