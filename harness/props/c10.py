"""C10 - regular expressions compile to an NFA with exactly the denoted language
(correspondence half)."""
from __future__ import annotations

import enc
from automata.fa.nfa import NFA
from props.common import outcome
from props import regex_common as rc

RULE = ("random ASTs (depth <= 4; literals, wildcard, (), | & ^, concatenation, * + ?, {m,n} {m,} {,n} {,} incl. upper "
        "bound 0, m = n, nested repeats) over alphabets of 1-3 symbols, printed with minimal or redundant parentheses "
        "and random blanks, with and without explicit input_symbols; expressions over the explicitly empty alphabet; "
        "sequences over alphabets not used before in the process (a small expression, then expressions that start with the "
        "empty group); compared: NFA.from_regex vs the model's compile by "
        "nfa_diff (both must be valid NFAs), the model's parse vs the generated AST, and accepts_input vs the denotation "
        "on all words up to length 6 (5 for 3 symbols); distinct = distinct (string, input_symbols); non-trivial = the "
        "AST has an operator and the language is neither empty nor {''}")

ALPHABETS = ["a", "b", "ab", "ab", "ba", "abc", "xy", "é#"]


def word_bound(sigma):
    return {0: 6, 1: 6, 2: 6, 3: 5, 4: 4}.get(len(sigma), 3)


def run_cases(ctx, cases, tag):
    """cases: list of dict(ast, s, input_symbols (sorted str or None))."""
    impls = []
    items = []
    for c in cases:
        s, isym = c["s"], c["input_symbols"]
        kw = {} if isym is None else {"input_symbols": set(isym)}
        out = outcome(lambda: NFA.from_regex(s, **kw))
        impls.append(out)
        sig = rc.effective_alphabet(s, isym)
        c["sigma"] = sig
        c["words"] = list(rc.all_words(sig, word_bound(sig)))
        cs, al = rc.chars(s), rc.alpha_arg(isym)
        items.append((10, 3, enc.tree([cs])))
        if out[0] == "ok":
            items.append((10, 2, enc.tree([cs, al, rc.enc_impl_nfa(out[1])])))
        else:
            items.append((10, 1, enc.tree([cs, al])))
        items.append((10, 7, enc.tree([cs, al, [rc.chars(w) for w in c["words"]]])))
    answers = ctx.driver.batch(items, timeout=120, tolerant=True, item_timeout=40)
    for i, (c, out) in enumerate(zip(cases, impls)):
        a_parse, a_cmp, a_words = answers[3 * i], answers[3 * i + 1], answers[3 * i + 2]
        judge(ctx, c, out, enc.dec_res(a_parse), enc.dec_res(a_cmp), enc.dec_res(a_words), tag)


def judge(ctx, c, out, m_parse, m_cmp, m_words, tag):
    r, s, isym, sig, words = c["ast"], c["s"], c["input_symbols"], c["sigma"], c["words"]
    problems, confirmed = [], False
    expected = rc.den_upto(r, sig, word_bound(sig))
    # (1) the model parser returns the generated AST (precedence / associativity / blanks)
    if m_parse == ("err", 96):
        ctx.tally("model_parse_timed_out")
    elif m_parse != ("ok", rc.ast_wire(r)):
        problems.append(f"model parse of {s!r} = {m_parse}, generated AST {rc.ast_wire(r)}")
    # (2) model NFA on words = denotation (ties the harness evaluator to the model)
    if m_words == ("err", 96):
        ctx.tally("model_word_evaluation_timed_out")   # the driver's per-item time limit (large shuffle products): inconclusive
    elif m_words[0] != "ok":
        problems.append(f"model compile failed: {m_words}")
    else:
        got = {w for w, b in zip(words, m_words[1]) if b}
        if got != expected:
            d = sorted(got ^ expected, key=lambda w: (len(w), w))[0]
            problems.append(f"model NFA and denotation differ on {d!r}")
    # (3) implementation
    if out[0] != "ok":
        problems.append(f"from_regex raised {out[2]} (code {out[1]}); the expression is valid")
        confirmed = True
    else:
        n = out[1]
        acc = {w for w in words if n.accepts_input(w)}
        if acc != expected:
            d = sorted(acc ^ expected, key=lambda w: (len(w), w))[0]
            problems.append(f"accepts_input({d!r}) = {d in acc}, but {d!r} is {'in' if d in expected else 'not in'} "
                            f"the language of the expression")
            confirmed = True
        if m_cmp[0] == "ok":
            vm, vi, diff = m_cmp[1][0], m_cmp[1][1], enc.dec_res(m_cmp[1][2])
            if not vm:
                problems.append("the model's NFA is not valid")
            if not vi:
                problems.append("the implementation's NFA does not pass the model's validity check")
            if diff[0] != "ok":
                ctx.tally("comparator_inconclusive")
            elif diff[1]:
                w = "".join(next(ch for ch in sig if rc.code(ch) == k) if any(rc.code(ch) == k for ch in sig) else "?"
                            for k in diff[1][0])
                iw = n.accepts_input(w) if "?" not in w else None
                ew = w in rc.den_upto(r, sig, len(w))
                problems.append(f"nfa_diff: implementation and model differ on {w!r} (impl accepts: {iw}, denotation: {ew})")
                if iw is not None and iw != ew:
                    confirmed = True
        elif m_cmp == ("err", 96):
            ctx.tally("comparator_inconclusive")     # driver timeout on this (large) implementation NFA
        else:
            problems.append(f"model compile = {m_cmp} but from_regex succeeded")
    nontrivial = r[0] not in ("eps", "sym", "any") and expected not in (set(), {""})
    ctx.tally("explicit_input_symbols" if isym is not None else "derived_input_symbols")
    ctx.tally("top_" + r[0])
    if has_zero_upper(r):
        ctx.tally("has_upper_bound_0")
    if out[0] == "ok":
        ctx.tally("impl_states_%s" % ("<=10" if len(out[1].states) <= 10 else "<=30" if len(out[1].states) <= 30 else ">30"))
    ctx.case((s, isym), nontrivial,
             sample={"regex": s, "input_symbols": isym, "ast": repr(r), "words_checked": len(words),
                     "accepted": len(expected), "impl_states": len(out[1].states) if out[0] == "ok" else None})
    if problems:
        ctx.violation(f"NFA.from_regex({s!r}, input_symbols={isym!r}) does not have the denoted language: "
                      + "; ".join(problems),
                      {"kind": "regex", "ast": repr(r), "regex": s, "input_symbols": isym, "problems": problems,
                       "tag": tag}, confirmed=confirmed)


has_zero_upper = rc.has_zero_upper


def gen_case(rng, depth=None):
    sigma = rng.choice(ALPHABETS)
    depth = depth if depth is not None else rng.choice([1, 2, 2, 3, 3, 4])
    r = rc.rand_ast(rng, sigma, depth)
    style = rng.random()
    if style < 0.4:
        s = rc.print_ast(r, rng)
    elif style < 0.7:
        s = rc.print_ast(r, rng, redundant=0.25)
    else:
        s = rc.print_ast(r, rng, redundant=0.15, p_blank=0.25)
    isym = "".join(sorted(sigma)) if rng.random() < 0.6 else None
    return {"ast": r, "s": s, "input_symbols": isym}


CORNERS = [
    (("rep", ("sym", "a"), 0, 0), "a{0,0}"), (("rep", ("sym", "a"), 0, 0), "a{,0}"),
    (("cat", ("sym", "b"), ("rep", ("sym", "a"), 0, 0)), "ba{0,0}"),
    (("rep", ("rep", ("sym", "a"), 0, 0), 1, 2), "a{0,0}{1,2}"),
    (("rep", ("union", ("sym", "a"), ("sym", "b")), 0, 0), "(a|b){,0}"),
    (("rep", ("sym", "a"), 2, 2), "a{2,2}"), (("rep", ("sym", "a"), 2, None), "a{2,}"),
    (("rep", ("sym", "a"), 0, 2), "a{,2}"), (("rep", ("sym", "a"), 0, None), "a{,}"),
    (("rep", ("rep", ("sym", "a"), 1, 2), 2, 3), "a{1,2}{2,3}"),
    (("rep", ("star", ("sym", "a")), 2, 2), "a*{2,2}"),
    (("star", ("rep", ("sym", "a"), 2, None)), "a{2,}*"),
    (("rep", ("eps",), 0, 3), "(){0,3}"), (("star", ("eps",)), "()*"),
    (("eps",), ""), (("eps",), "()"), (("eps",), "(())"),
    (("rep", ("sym", "a"), 0, 2), "a{ ,2}"), (("rep", ("sym", "a"), 1, None), "a{1, }"), (("rep", ("sym", "a"), 0, None), "a{ , }"),
    (("rep", ("sym", "a"), 0, 2), "a{\t, 2 }"),
    (("union", ("inter", ("sym", "a"), ("sym", "b")), ("sym", "a")), "a&b|a"),
    (("cat", ("sym", "a"), ("star", ("sym", "b"))), "ab*"),
    (("shuffle", ("cat", ("sym", "a"), ("sym", "b")), ("star", ("sym", "a"))), "ab^a*"),
    (("star", ("inter", ("star", ("union", ("sym", "a"), ("sym", "b"))), ("cat", ("any",), ("any",)))), "((a|b)*&..)*"),
    (("plus", ("opt", ("sym", "a"))), "a?+"),
]


def run(ctx):
    ctx.rule = RULE
    rng = ctx.rng
    corner = []
    for r, s in CORNERS:
        corner.append({"ast": r, "s": s, "input_symbols": "ab"})
        corner.append({"ast": r, "s": s, "input_symbols": None})
    run_cases(ctx, corner, "corner")
    # the explicitly empty alphabet (only the empty word exists; digits and commas of {m,n} are not symbols)
    empty = []
    for r, s in [(("rep", ("any",), 1, 2), ".{1,2}"), (("rep", ("eps",), 2, 3), "(){2,3}"), (("eps",), "()"), (("eps",), ""),
                 (("star", ("any",)), ".*"), (("rep", ("any",), 0, 3), ".{,3}"), (("any",), "."),
                 (("star", ("union", ("rep", ("any",), 2, None), ("eps",))), "(.{2,}|())*"),
                 (("opt", ("rep", ("any",), 1, 1)), ".{1,1}?"), (("union", ("any",), ("eps",)), ".|()")]:
        empty.append({"ast": r, "s": s, "input_symbols": ""})
    run_cases(ctx, empty, "empty_alphabet")
    # a compilation after other calls over the same alphabet: alphabets not used before in this process, a small
    # expression first, then expressions whose left-most operand is the empty group
    for j in range(ctx.n(60, 900)):
        sigma = "".join(sorted(rng.sample(rc.POOL[:52], rng.choice([1, 2, 2, 3]))))
        x = ("sym", rng.choice(sigma))
        r1 = rc.rand_ast(rng, sigma, rng.choice([1, 2]), p_prod=0.0)
        first = rng.choice([x, x, ("cat", x, ("sym", rng.choice(sigma))), ("union", x, ("sym", rng.choice(sigma))), r1])
        seq = [first]
        for _ in range(2):
            r = rc.rand_ast(rng, sigma, rng.choice([1, 1, 2]), p_prod=0.0)
            seq.append(rng.choice([("star", ("union", ("eps",), r)), ("rep", ("union", ("eps",), r), 1, 3),
                                   ("union", ("eps",), r), ("cat", ("union", ("eps",), x), r),
                                   ("plus", ("union", ("union", ("eps",), ("eps",)), r))]))
        explicit = rng.random() < 0.7
        run_cases(ctx, [{"ast": r, "s": rc.print_ast(r, rng), "input_symbols": sigma if explicit else None} for r in seq],
                  "fresh_alphabet_sequence")
    total = ctx.n(420, 9000)
    batch = []
    for i in range(total):
        batch.append(gen_case(rng))
        if len(batch) == 60 or i == total - 1:
            run_cases(ctx, batch, "random")
            batch = []
    if ctx.tier == "thorough":
        # exhaustive small scope: every AST of depth <= 2 over {a} with bounds in {0,1,2}x{0,1,2,None}
        leaves = [("eps",), ("sym", "a"), ("any",)]
        bounds = [(lo, hi) for lo in (0, 1, 2) for hi in (0, 1, 2, None) if hi is None or lo <= hi]

        def level(sub):
            out = list(leaves)
            for x in sub:
                out += [("star", x), ("plus", x), ("opt", x)] + [("rep", x, lo, hi) for lo, hi in bounds]
                for y in sub:
                    out += [("union", x, y), ("cat", x, y), ("inter", x, y), ("shuffle", x, y)]
            return out
        d1 = level(leaves)
        d2 = level(d1)
        seen, batch = set(), []
        for r in d2:
            s = rc.print_ast(r)
            if s in seen:
                continue
            seen.add(s)
            batch.append({"ast": r, "s": s, "input_symbols": "a"})
            if len(batch) == 80:
                run_cases(ctx, batch, "exhaustive")
                batch = []
        if batch:
            run_cases(ctx, batch, "exhaustive")
        ctx.exhaustive = True
        ctx.exhaustive_scope = ("every AST of depth <= 2 over the alphabet {a} (leaves (), a, .; operators | & ^ concat * + ? "
                                "and {lo,hi} with lo in 0..2, hi in 0..2 or none), minimal-parenthesis printing, "
                                "input_symbols={'a'}, all words up to length 6")


def replay(ctx, case):
    from props.common import load_def
    c = {"ast": eval(case["ast"]), "s": case["regex"], "input_symbols": case["input_symbols"]}
    run_cases(ctx, [c], "replay")
    print("replay:", "VIOLATION reproduced" if ctx.violations else "no disagreement")
