"""C03 - Turing-machine simulation faithful step by step (correspondence half).

Every case runs the implementation's generator under a step budget (never past it), sends the same
table, word and budget to the extracted model and compares: the yielded configurations as
(state, head-relative non-blank cells), NTM levels as sets of those, how the generator ends
(StopIteration / exception kind / still running), accepts_input and read_input when the run halts.
A sparse-tape Python oracle (props/tmlib.py) is used only to classify a disagreement."""
from __future__ import annotations

import itertools

import enc
from props import tmlib as T
from props.common import load_def, outcome

RULE = ("random valid tables: 1-4 working + 1-2 final states, 2-4 tape symbols, moves L/R/N under five direction "
        "profiles (uniform, left-heavy, right-heavy, stay-heavy, zigzag), blanks written, missing entries, in one nondeterministic or multitape table out of ten an entry with an empty list of alternatives; each table read "
        "as DTM, NTM (1-2 alternatives) and MNTM (1-3 tapes) on '' and random words (incl. tape-only and foreign symbols) "
        "under a step budget; one deterministic table as DTM vs NTM vs 1-tape MNTM; distinct = distinct (kind, canonical "
        "table, word); non-trivial = at least two steps executed and a tape was blank-extended (a head ran off an end of the initially occupied cells)")

LEVEL_CAP = 48


def budget(ctx):
    return ctx.n(60, 400)


class Batch:
    """Collect driver requests; flush in chunks."""

    def __init__(self, ctx, size=150):
        self.ctx, self.size, self.jobs = ctx, size, []

    def add(self, item, cont):
        self.jobs.append((item, cont))
        if len(self.jobs) >= self.size:
            self.flush()

    def flush(self):
        jobs, self.jobs = self.jobs, []
        answers = self.ctx.driver.batch([j[0] for j in jobs])
        for (_, cont), ans in zip(jobs, answers):
            cont(ans)


def want_outcome(out, last):
    """Expected model outcome field for an implementation outcome."""
    if out[0] == "ok":
        return ("ok", last)
    if out[0] == "err":
        return ("err", out[1])
    return ("err", enc.FUEL)


def want_verdict(out):
    if out[0] == "ok":
        return ("ok", 1)
    if out[0] == "err" and out[1] == enc.REJECT:
        return ("ok", 0)
    if out[0] == "err":
        return ("err", out[1])
    return ("err", enc.FUEL)


def extended(raw_tapes, wlen):
    """True when one of the TMTape objects has more cells than the input occupied, i.e. a head ran off
    an end of the initially occupied cells and the tape was blank-extended."""
    return any(len(t.tape) > max(wlen, 1) for t in raw_tapes)


def left_extended(run_tapes):
    """consecutive tapes of one deterministic run: was a blank inserted at index 0 ?"""
    prev = None
    for t in run_tapes:
        if prev is not None and prev.current_position == 0 and t.current_position == 0 and len(t.tape) > len(prev.tape):
            return True
        prev = t
    return False


def report(ctx, kind, md, word, B, problems, confirmed, ans, tag):
    ctx.violation(f"{kind.upper()} simulation disagrees with the textbook machine: " + "; ".join(problems)[:900],
                  {"kind": kind, "machine": repr(md), "word": word, "budget": B, "problems": problems,
                   "model": repr(ans)[:2000], "tag": tag}, confirmed=confirmed)


# ---------------------------------------------------------------- DTM
def check_dtm(ctx, batch, md, word, B, tag):
    d = T.mk(md, "dtm")
    items, out = T.consume(d.read_input_stepwise(word), B + 2)
    if out[0] == "limit":
        items = items[:B + 1]
    st, sy = enc.Renum(T.names_of(md)), T.symmap(md, word)
    ccs = [T.canon_cfg(c) for c in items]
    i_ys = [T.num_cfg(cc, st, sy) for cc in ccs]
    acc = ri = None
    if out[0] != "limit":
        acc = outcome(lambda: d.accepts_input(word))
        ri = outcome(lambda: d.read_input(word))
    item = (3, 1, enc.tree([T.enc_dtm(md, st, sy), B, sy.word(word)]))
    canon = enc.tree(T.enc_dtm(md, st, sy))

    def cont(ans):
        m_ys, m_out, m_acc = ans[0], enc.dec_res(ans[1]), enc.dec_res(ans[2])
        problems = []
        if i_ys != m_ys:
            k = next((j for j, (a, b) in enumerate(zip(i_ys, m_ys)) if a != b), min(len(i_ys), len(m_ys)))
            problems.append(f"yielded configurations differ from step {k}: impl {i_ys[k:k + 2]} model {m_ys[k:k + 2]} "
                            f"(lengths {len(i_ys)}/{len(m_ys)})")
        if m_out != want_outcome(out, i_ys[-1]):
            problems.append(f"generator ended with {out}, model {m_out}")
        if m_acc != want_verdict(out):
            problems.append(f"verdict: impl run {out}, model accepts {m_acc}")
        if acc is not None:
            if acc[:2] != (("ok", m_acc[1] == 1) if m_acc[0] == "ok" else ("err", m_acc[1])):
                problems.append(f"accepts_input = {acc}, model {m_acc}")
            if out[0] == "ok":
                got = ("ok", T.num_cfg(T.canon_cfg(ri[1]), st, sy)) if ri[0] == "ok" else ri[:2]
                if got != m_out:
                    problems.append(f"read_input = {got}, model {m_out}")
            elif ri[:2] != ("err", out[1]):
                problems.append(f"read_input = {ri}, stepwise ended with {out}")
        ctx.tally("dtm_" + {"ok": "accept", "err": "reject" if out[1:2] == (enc.REJECT,) else "error", "limit": "budget"}[out[0]])
        roam = extended([c.tape for c in items], len(word))
        if roam:
            ctx.tally("dtm_tape_extended")
        if left_extended([c.tape for c in items]):
            ctx.tally("dtm_tape_extended_on_the_left")
        ctx.case(("dtm", canon, word), nontrivial=len(items) > 2 and roam,
                 sample={"kind": "dtm", "table": repr(md["table"]), "word": word, "steps": len(items) - 1, "outcome": out[:2]})
        if problems:
            o_trace, o_v = T.o_dtm(md, word, B)
            i_v = {"ok": "accept", "limit": "limit"}.get(out[0], "reject" if out[1:2] == (enc.REJECT,) else "error")
            confirmed = (ccs != [(c[0], c[1][0]) for c in o_trace]) or (i_v != o_v)
            report(ctx, "dtm", md, word, B, problems, confirmed, ans, tag)

    batch.add(item, cont)
    return out


# ---------------------------------------------------------------- NTM
def check_ntm(ctx, batch, md, word, B, tag):
    n = T.mk(md, "ntm")
    items, out = T.consume(n.read_input_stepwise(word), B + 2, stop=lambda lv: len(lv) > LEVEL_CAP)
    fuel = B
    if out[0] == "limit":
        items = items[:B + 1]
    elif out[0] == "stop":
        # the level just taken is too large: compare the levels before it; the run was still going there
        fuel = len(items) - 2
        items = items[:-1]
        out = ("limit",)
    st, sy = enc.Renum(T.names_of(md)), T.symmap(md, word)
    csets = [{T.canon_cfg(c) for c in lv} for lv in items]
    i_ys = [sorted(T.num_cfg(cc, st, sy) for cc in lv) for lv in csets]
    acc = outcome(lambda: n.accepts_input(word)) if out[0] != "limit" else None
    item = (3, 2, enc.tree([T.enc_ntm(md, st, sy), fuel, sy.word(word), 4 * LEVEL_CAP]))
    canon = enc.tree(T.enc_ntm(md, st, sy))

    def cont(ans):
        m_out, m_acc = enc.dec_res(ans[1]), enc.dec_res(ans[2])
        m_ys = [sorted(map(list, {enc.tree(c): c for c in lv}.values())) for lv in ans[0]]
        problems = []
        if i_ys != m_ys:
            k = next((j for j, (a, b) in enumerate(zip(i_ys, m_ys)) if a != b), min(len(i_ys), len(m_ys)))
            problems.append(f"levels differ from level {k}: impl {i_ys[k:k + 1]} model {m_ys[k:k + 1]} "
                            f"(lengths {len(i_ys)}/{len(m_ys)})")
        if m_out != want_outcome(out, []):
            problems.append(f"generator ended with {out}, model {m_out}")
        if m_acc != want_verdict(out):
            problems.append(f"verdict: impl run {out}, model accepts {m_acc}")
        if acc is not None and acc[:2] != (("ok", m_acc[1] == 1) if m_acc[0] == "ok" else ("err", m_acc[1])):
            problems.append(f"accepts_input = {acc}, model {m_acc}")
        ctx.tally("ntm_" + {"ok": "accept", "err": "reject" if out[1:2] == (enc.REJECT,) else "error", "limit": "budget"}[out[0]])
        widest = max(len(lv) for lv in items)
        ctx.tally("ntm_widest_level_%s" % ("1" if widest == 1 else "2-4" if widest <= 4 else "5+"))
        roam = extended([c.tape for lv in items for c in lv], len(word))
        if roam:
            ctx.tally("ntm_tape_extended")
        ctx.case(("ntm", canon, word), nontrivial=len(items) > 2 and roam,
                 sample={"kind": "ntm", "table": repr(md["table"]), "word": word, "levels": len(items), "widest": widest,
                         "outcome": out[:2]})
        if problems:
            o_levels, o_v = T.o_ntm(md, word, fuel)
            i_v = {"ok": "accept", "limit": "limit"}.get(out[0], "reject" if out[1:2] == (enc.REJECT,) else "error")
            confirmed = (csets != [{(c[0], c[1][0]) for c in lv} for lv in o_levels]) or (i_v != o_v)
            report(ctx, "ntm", md, word, fuel, problems, confirmed, ans, tag)

    batch.add(item, cont)
    return out


# ---------------------------------------------------------------- MNTM
def check_mntm(ctx, batch, md, word, B, tag):
    m = T.mk(md, "mntm")
    items, out = T.consume(m.read_input_stepwise(word), B + 1)
    if out[0] == "limit":
        items = items[:B]
    st, sy = enc.Renum(T.names_of(md)), T.symmap(md, word)
    shape_ok = all(isinstance(s, (set, frozenset)) and len(s) == 1 for s in items)
    cfgs = [next(iter(s)) for s in items]
    ccs = [T.canon_mcfg(c) for c in cfgs]
    i_ys = [T.num_mcfg(cc, st, sy) for cc in ccs]
    acc = outcome(lambda: m.accepts_input(word)) if out[0] != "limit" else None
    item = (3, 3, enc.tree([T.enc_mntm(md, st, sy), B, sy.word(word)]))
    canon = enc.tree(T.enc_mntm(md, st, sy))

    def cont(ans):
        m_ys, m_out, m_acc = ans[0], enc.dec_res(ans[1]), enc.dec_res(ans[2])
        problems = []
        if not shape_ok:
            problems.append("a yielded item is not a one-element set")
        if i_ys != m_ys:
            k = next((j for j, (a, b) in enumerate(zip(i_ys, m_ys)) if a != b), min(len(i_ys), len(m_ys)))
            problems.append(f"visited configurations differ from index {k}: impl {i_ys[k:k + 2]} model {m_ys[k:k + 2]} "
                            f"(lengths {len(i_ys)}/{len(m_ys)})")
        if m_out != want_outcome(out, i_ys[-1] if i_ys else []):
            problems.append(f"generator ended with {out}, model {m_out}")
        if m_acc != want_verdict(out):
            problems.append(f"verdict: impl run {out}, model accepts {m_acc}")
        if acc is not None and acc[:2] != (("ok", m_acc[1] == 1) if m_acc[0] == "ok" else ("err", m_acc[1])):
            problems.append(f"accepts_input = {acc}, model {m_acc}")
        ctx.tally("mntm%d_" % md["k"] + {"ok": "accept", "err": "reject" if out[1:2] == (enc.REJECT,) else "error",
                                        "limit": "budget"}[out[0]])
        roam = any(extended([c.tapes[j] for c in cfgs], len(word) if j == 0 else 1) for j in range(md["k"]))
        if roam:
            ctx.tally("mntm_tape_extended")
        if any(md["table"].get(cc[0], {}).get(tuple(t[1] for t in cc[1])) == [] for cc in ccs):
            ctx.tally("mntm_visited_entry_without_alternative")
        ctx.case(("mntm", canon, word), nontrivial=len(items) > 2 and roam,
                 sample={"kind": "mntm", "tapes": md["k"], "table": repr(md["table"]), "word": word, "visited": len(items),
                         "outcome": out[:2]})
        if problems:
            o_seen, o_v = T.o_mntm(md, word, B)
            i_v = {"ok": "accept", "limit": "limit"}.get(out[0], "reject" if out[1:2] == (enc.REJECT,) else
                                                          "indexerror" if out[1:2] == (enc.INDEXERR,) else "error")
            confirmed = (ccs != o_seen) or (i_v != o_v)
            report(ctx, "mntm", md, word, B, problems, confirmed, ans, tag)

    batch.add(item, cont)
    return out


# ---------------------------------------------------------------- one deterministic table, three simulators
def verdict_name(out):
    if out[0] == "ok":
        return "accept"
    if out[0] == "err":
        return "reject" if out[1] == enc.REJECT else "error:" + str(out[2])
    return "limit"


def check_cross(ctx, batch, md, word, B, tag, outs=None):
    """DTM vs NTM vs one-tape MNTM verdicts on the same deterministic table."""
    if outs is None:
        outs = (T.consume(T.mk(md, "dtm").read_input_stepwise(word), B + 2)[1],
                T.consume(T.mk(md, "ntm").read_input_stepwise(word), B + 2)[1],
                T.consume(T.mk(md, "mntm").read_input_stepwise(word), B + 1)[1])
    names = [verdict_name(o) for o in outs]
    st, sy = enc.Renum(T.names_of(md)), T.symmap(md, word)
    item = (3, 4, enc.tree([T.enc_dtm(md, st, sy), B, sy.word(word)]))

    def cont(ans):
        halted = {v for v in names if v != "limit"}
        ctx.tally("cross_" + ("all_budget" if not halted else "/".join(sorted(halted))))
        if len(halted) > 1:
            ctx.violation(f"one deterministic table, different verdicts: DTM {names[0]}, NTM {names[1]}, 1-tape MNTM {names[2]}",
                          {"kind": "cross", "machine": repr(md), "word": word, "budget": B, "verdicts": names, "tag": tag})
        model = [enc.dec_res(a) for a in ans]
        for who, o, mv in zip(("DTM", "NTM", "MNTM"), outs, model):
            if mv != want_verdict(o):
                ctx.violation(f"cross-model run: {who} verdict {verdict_name(o)} but model {mv}",
                              {"kind": "cross", "machine": repr(md), "word": word, "budget": B, "verdicts": names,
                               "model": repr(ans), "tag": tag}, confirmed=False)

    batch.add(item, cont)


def run_machine(ctx, batch, md, words, B, tag):
    k = md["k"]
    det = all(len(alts) == 1 for row in md["table"].values() for alts in row.values())
    for w in words:
        if k == 1 and det:
            o1 = check_dtm(ctx, batch, md, w, B, tag)
            o2 = check_ntm(ctx, batch, md, w, B, tag)
            o3 = check_mntm(ctx, batch, md, w, B, tag)
            check_cross(ctx, batch, md, w, B, tag, (o1, o2, o3))
        elif k == 1:
            check_ntm(ctx, batch, md, w, B, tag)
            check_mntm(ctx, batch, md, w, B, tag)
        else:
            check_mntm(ctx, batch, md, w, B, tag)


HAND = [
    # runs off the left end for ever / off the right end for ever / bounces / stays
    dict(states=["q", "f"], finals=["f"], input_symbols="a", tape_symbols=".a", blank=".", initial="q", k=1, profile="hand",
         table={"q": {("a",): [("q", (("a", "L"),))], (".",): [("q", ((".", "L"),))]}}),
    dict(states=["q", "f"], finals=["f"], input_symbols="a", tape_symbols=".a", blank=".", initial="q", k=1, profile="hand",
         table={"q": {("a",): [("q", ((".", "R"),))], (".",): [("q", (("a", "R"),))]}}),
    dict(states=["q", "r", "f"], finals=["f"], input_symbols="a", tape_symbols=".a", blank=".", initial="q", k=1, profile="hand",
         table={"q": {("a",): [("q", (("a", "L"),))], (".",): [("r", (("a", "R"),))]},
                "r": {("a",): [("r", (("a", "R"),))], (".",): [("f", ((".", "N"),))]}}),
    dict(states=["q", "f"], finals=["f"], input_symbols="a", tape_symbols=".a", blank=".", initial="q", k=1, profile="hand",
         table={"q": {(".",): [("f", (("a", "L"),))]}}),
    # two tapes: copy the input to tape 2 moving both heads, then walk both back past the left end
    dict(states=["c", "b", "f"], finals=["f"], input_symbols="ab", tape_symbols=".ab", blank=".", initial="c", k=2, profile="hand",
         table={"c": {("a", "."): [("c", (("a", "R"), ("a", "R")))], ("b", "."): [("c", (("b", "R"), ("b", "R")))],
                      (".", "."): [("b", ((".", "L"), (".", "L")))]},
                "b": {("a", "a"): [("b", (("a", "L"), ("a", "L")))], ("b", "b"): [("b", (("b", "L"), ("b", "L")))],
                      (".", "."): [("f", ((".", "L"), (".", "N")))]}}),
    # an entry with an empty list of alternatives (the constructor accepts it): no transition, like a missing entry
    # (`if not possible_transitions`; the code before the repair did possible_transitions[0] and raised IndexError)
    dict(states=["q", "f"], finals=["f"], input_symbols="a", tape_symbols=".a", blank=".", initial="q", k=1, profile="hand-empty",
         table={"q": {("a",): [("q", (("a", "R"),))], (".",): []}}),
]


def run(ctx):
    ctx.rule = RULE
    rng = ctx.rng
    B = budget(ctx)
    batch = Batch(ctx)
    for md in HAND:
        words = ["", "a", "aa", "aaa"] if md["input_symbols"] == "a" else ["", "a", "ab", "abba"]
        run_machine(ctx, batch, md, words, B, "hand")      # (hand-empty: no DTM view; read as NTM and MNTM)
    n = ctx.n(110, 450)
    for i in range(n):
        # deterministic single-tape table: all three simulators + cross-model verdicts
        md = T.rand_table(rng, k=1, nondet=False)
        run_machine(ctx, batch, md, T.rand_words(rng, md, 5), B, "random-det")
        # nondeterministic single-tape table: NTM levels and MNTM BFS
        md = T.rand_table(rng, k=1, nondet=True, empty=None)
        run_machine(ctx, batch, md, T.rand_words(rng, md, 4), B, "random-nondet")
        # 2 and 3 tapes
        md = T.rand_table(rng, k=rng.choice([2, 2, 3]), nondet=rng.random() < 0.5, empty=None)
        run_machine(ctx, batch, md, T.rand_words(rng, md, 4), B, "random-multitape")
    batch.flush()
    if ctx.tier == "thorough":
        # exhaustive: every table with one working state q and one final state f over tape symbols {a,b,.}
        opts = [None] + [(q2, w, d) for q2 in "qf" for w in "ab." for d in "LRN"]
        words = list(gen_words("ab", 2))
        for e in itertools.product(opts, repeat=3):
            row = {(s,): [(o[0], ((o[1], o[2]),))] for s, o in zip("ab.", e) if o is not None}
            md = dict(states=["q", "f"], finals=["f"], input_symbols="ab", tape_symbols=".ab", blank=".", initial="q", k=1,
                      profile="exhaustive", table={"q": row})
            run_machine(ctx, batch, md, words, 40, "exhaustive")
        batch.flush()
        ctx.exhaustive = True
        ctx.exhaustive_scope = ("all 19^3 = 6859 deterministic tables with one working state and one final state over tape "
                                "symbols {a,b,blank} x all inputs of length <= 2 over {a,b}, step budget 40, each read as DTM, "
                                "NTM and one-tape MNTM (traces, verdicts, cross-model agreement)")


def gen_words(sigma, maxlen):
    for k in range(maxlen + 1):
        for t in itertools.product(sigma, repeat=k):
            yield "".join(t)


def replay(ctx, case):
    batch = Batch(ctx, size=1)
    md = load_def(case["machine"])
    w, B = case["word"], case["budget"]
    kind = case["kind"]
    if kind == "dtm":
        check_dtm(ctx, batch, md, w, B, "replay")
    elif kind == "ntm":
        check_ntm(ctx, batch, md, w, B, "replay")
    elif kind == "mntm":
        check_mntm(ctx, batch, md, w, B, "replay")
    else:
        check_cross(ctx, batch, md, w, B, "replay")
    batch.flush()
    for k2 in ("dtm", "ntm", "mntm"):
        if md["k"] == 1 or k2 == "mntm":
            try:
                gen_fn = T.mk(md, k2).read_input_stepwise(w)
                items, out = T.consume(gen_fn, 12)
                print(f"  impl {k2}: first configurations {items[:6]} ... outcome within 12 items: {out}")
            except Exception as e:  # noqa: BLE001
                print(f"  impl {k2}: {type(e).__name__}: {e}")
    print("replay:", "VIOLATION reproduced" if ctx.violations else "no disagreement")
