"""C04 - DFA Boolean operations / to_partial / to_complete (correspondence half)."""
from __future__ import annotations

import itertools

import enc
import gen
from props.common import load_def, mk_dfa, outcome

RULE = ("random expression trees (depth <= 3) of union/intersection/difference/symmetric_difference/complement "
        "(methods and | & - ^ ~ operators) over random valid DFAs on a common alphabet (complete x partial mixes, "
        "all four minify x retain_names combinations per node); the implementation's result is compared with the "
        "model's by the proved comparator (language equality over all words) + validity; to_complete / to_partial "
        "likewise (+ totality). distinct = distinct canonical tree; non-trivial = at least one binary node and no "
        "operand language empty or universal")

OPS = ["union", "intersection", "difference", "symmetric_difference"]
OPSYM = {"union": "|", "intersection": "&", "difference": "-", "symmetric_difference": "^"}


def rand_tree(rng, sigma, depth, names_kind=None):
    """Returns (tree description, nleaves). tree: ('leaf', def) | ('bin', op, how, opts, a, b) | ('compl', how, opts, a)."""
    if depth == 0 or rng.random() < 0.25:
        leaf = gen.rand_dfa_def(rng, nmax=5, alphabet=sigma)
        if rng.random() < 0.15:
            leaf = gen.add_dfa_stray_rows(rng, leaf)      # rows keyed by -1, -2, ... that belong to no state
        return ("leaf", leaf)
    opts = dict(retain_names=rng.random() < 0.5, minify=rng.random() < 0.5)
    if rng.random() < 0.2:
        return ("compl", rng.choice(["method", "operator"]), opts, rand_tree(rng, sigma, depth - 1))
    return ("bin", rng.choice(OPS), rng.choice(["method", "operator"]), opts,
            rand_tree(rng, sigma, depth - 1), rand_tree(rng, sigma, depth - 1))


def eval_impl(t):
    if t[0] == "leaf":
        return mk_dfa(t[1])
    if t[0] == "compl":
        a = eval_impl(t[3])
        return (~a) if t[1] == "operator" else a.complement(**t[2])
    _, op, how, opts, ta, tb = t
    a, b = eval_impl(ta), eval_impl(tb)
    if how == "operator":
        return {"union": a | b, "intersection": a & b, "difference": a - b, "symmetric_difference": a ^ b}[op]
    return getattr(a, op)(b, **opts)


def enc_tree(t, sy):
    if t[0] == "leaf":
        return [0, enc.enc_dfa(mk_dfa(t[1]), None, sy)]
    if t[0] == "compl":
        return [2, enc_tree(t[3], sy)]
    return [1, OPS.index(t[1]), enc_tree(t[4], sy), enc_tree(t[5], sy)]


def show_tree(t):
    if t[0] == "leaf":
        return repr(t[1])
    if t[0] == "compl":
        return f"complement[{t[1]},{t[2]}]({show_tree(t[3])})"
    return f"{t[1]}[{t[2]},{t[3]}]({show_tree(t[4])}, {show_tree(t[5])})"


def leaves(t):
    if t[0] == "leaf":
        return [t[1]]
    if t[0] == "compl":
        return leaves(t[3])
    return leaves(t[4]) + leaves(t[5])


def judge(ctx, what, ans, replay, want_complete=None, impl=None, sy=None, confirm=None, want_minimal=False):
    """ans = [1,[valid_impl,size_impl,size_model,partial_model,diff,valid_model]] | [0, code]"""
    if ans[0] != 1:
        ctx.violation(f"{what}: model evaluation failed with code {ans[1]} (model/harness problem)", replay, confirmed=False)
        return
    valid_impl, size_impl, size_model, partial_model, diff, valid_model, min_size = ans[1]
    problems = []
    if want_minimal:
        ms = enc.dec_res(min_size)
        if ms[0] != "ok":
            ctx.violation(f"{what}: model minimisation failed {ms}", replay, confirmed=False)
            return
        ctx.tally("minify_option_checked")
        # the minimum for the result's OWN kind (C05): a partial result has one state per non-dead residual class
        # (at least one); a complete result additionally has the dead class when the language has one, i.e. when
        # the minimal partial DFA is not already complete
        live, live_is_partial = ms[1][0], bool(ms[1][1])
        impl_partial = impl is not None and bool(impl.allow_partial)
        want = live if impl_partial else live + (1 if live_is_partial else 0)
        if size_impl != want:
            problems.append(f"minify=True result ({'partial' if impl_partial else 'complete'}) has {size_impl} states, "
                            f"the minimum for a DFA of that kind is {want}")
    if not valid_impl:
        problems.append("result does not satisfy the validity rules")
    if not valid_model:
        ctx.violation(f"{what}: model result invalid (model problem)", replay, confirmed=False)
        return
    d = enc.dec_res(diff)
    if d[0] != "ok":
        ctx.violation(f"{what}: comparator failed {d}", replay, confirmed=False)
        return
    if d[1]:
        w = sy.unword(d[1][0])
        extra = confirm(w) if confirm else ""
        problems.append(f"language differs from the set operation: word {w!r} {extra}")
    if problems:
        replay = dict(replay)
        replay["problems"] = problems
        ctx.violation(f"{what}: " + "; ".join(problems), replay)


def sem(t, w):
    if t[0] == "leaf":
        return mk_dfa(t[1]).accepts_input(w)
    if t[0] == "compl":
        return not sem(t[3], w)
    a, b = sem(t[4], w), sem(t[5], w)
    return {"union": a or b, "intersection": a and b, "difference": a and not b, "symmetric_difference": a != b}[t[1]]


def check_tree(ctx, t, tag):
    ls = leaves(t)
    sy = enc.SymMap(ls[0]["input_symbols"])
    r = outcome(lambda: eval_impl(t))
    replay = {"kind": "tree", "tree": repr(t), "shown": show_tree(t), "tag": tag}
    if r[0] != "ok":
        ctx.violation(f"operation raised {r[2]} on valid operands", replay)
        ctx.case(("tree", repr(t)), False)
        return
    impl = r[1]
    ans = ctx.driver.batch([(4, 1, enc.tree([enc_tree(t, sy), enc.enc_dfa(impl, None, sy)]))])[0]
    nbin = show_tree(t).count("[method") + show_tree(t).count("[operator")
    def proper(dd):
        x = mk_dfa(dd)
        y = x.complement(minify=False)
        return not x.isempty() and not y.isempty()
    nontriv = nbin >= 1 and all(proper(dd) for dd in ls)
    ctx.tally(f"tree_nodes_{min(nbin, 4)}")
    ctx.tally("tree_has_partial_leaf" if any(d["allow_partial"] for d in ls) else "tree_all_complete")
    ctx.case(("tree", enc.tree(enc_tree(t, sy)), show_tree(t)), nontriv,
             sample={"tree": show_tree(t), "result_states": len(impl.states)})
    root_min = (t[0] == "bin" and (t[2] == "operator" or t[3]["minify"])) or \
               (t[0] == "compl" and (t[1] == "operator" or t[2]["minify"]))
    judge(ctx, "expression " + show_tree(t)[:80], ans, replay, sy=sy, want_minimal=root_min, impl=impl,
          confirm=lambda w: f"(result accepts: {impl.accepts_input(w)}, operation on operand verdicts: {sem(t, w)})")


def check_conversions(ctx, ddef, mutable=False):
    """mutable: the operand is built under allow_mutable_automata = True from its own deep copy (it keeps plain dicts
    and sets) and the calls run under that setting: the conversions must give the same answers."""
    import copy
    import automata.base.config as cfg
    saved = cfg.allow_mutable_automata
    if mutable:
        cfg.allow_mutable_automata = True
        ctx.tally("conversions_mutable_mode")
    try:
        _check_conversions(ctx, copy.deepcopy(ddef) if mutable else ddef, mutable)
    finally:
        cfg.allow_mutable_automata = saved


def _check_conversions(ctx, ddef, mutable):
    d = mk_dfa(ddef)
    sy = enc.SymMap(d.input_symbols)
    te = enc.enc_dfa(d, None, sy)
    # to_complete (default trap and custom trap)
    for trap in (None, "TRAP"):
        r = outcome(lambda: d.to_complete(trap) if trap else d.to_complete())
        replay = {"kind": "to_complete", "def": repr(ddef), "trap": trap, "mutable": mutable}
        if r[0] != "ok":
            ctx.violation(f"to_complete raised {r[2]}", replay)
            continue
        c = r[1]
        ans = ctx.driver.batch([(4, 2, enc.tree([te, enc.enc_dfa(c, None, sy)]))])[0]
        judge(ctx, "to_complete", ans, replay, want_complete=True, impl=c, sy=sy,
              confirm=lambda w: f"(source accepts {d.accepts_input(w)}, result accepts {c.accepts_input(w)})")
        missing = [(q, a) for q in c.states for a in c.input_symbols if a not in c.transitions[q]]
        if missing:
            ctx.violation(f"to_complete left transitions undefined: {missing[:3]}", replay)
    for kw in (dict(minify=False), dict(), dict(retain_names=True)):
        r = outcome(lambda: d.to_partial(**kw))
        replay = {"kind": "to_partial", "def": repr(ddef), "kwargs": repr(kw), "mutable": mutable}
        if r[0] != "ok":
            ctx.violation(f"to_partial({kw}) raised {r[2]}", replay)
        else:
            p = r[1]
            ans = ctx.driver.batch([(4, 3, enc.tree([te, enc.enc_dfa(p, None, sy)]))])[0]
            judge(ctx, f"to_partial({kw})", ans, replay, sy=sy,
                  confirm=lambda w: f"(source accepts {d.accepts_input(w)}, result accepts {p.accepts_input(w)})")
    ctx.case(("conv", enc.tree(te)), len(d.states) > 1 and d.allow_partial)
    ctx.tally("conversions_checked")


# minimised reproducers of past failures (run first)
CORPUS = [
    {'states': {0, 1, 2, 3, 4}, 'input_symbols': {'a', 'b'}, 'transitions': {0: {'a': 4, 'b': 3}, 1: {'a': 2, 'b': 2}, 2: {'a': 1, 'b': 1}, 3: {'a': 4, 'b': 0}, 4: {'a': 1, 'b': 0}}, 'initial_state': 0, 'final_states': {0}, 'allow_partial': False},
    {'states': {0, 1, 2, 3, 4}, 'input_symbols': {'a', 'b'}, 'transitions': {0: {'a': 2, 'b': 1}, 1: {'a': 2, 'b': 4}, 2: {'a': 2, 'b': 2}, 3: {'a': 0, 'b': 1}, 4: {'a': 1, 'b': 1}}, 'initial_state': 0, 'final_states': {0, 4}, 'allow_partial': False},
    {'states': {0, 1, 2, 3, 4}, 'input_symbols': {'a', 'b'}, 'transitions': {0: {'a': 2, 'b': 3}, 1: {'a': 1}, 2: {'a': 2, 'b': 4}, 3: {'a': 2, 'b': 1}, 4: {'a': 0, 'b': 2}}, 'initial_state': 0, 'final_states': {0, 2, 3}, 'allow_partial': True},
]


def run(ctx):
    ctx.rule = RULE
    rng = ctx.rng
    for ddef in CORPUS:
        check_conversions(ctx, ddef)
    for i in range(ctx.n(260, 5000)):
        sigma = gen.rand_alphabet(rng)
        t = rand_tree(rng, sigma, rng.choice([1, 1, 2, 2, 3]))
        for _ in range(20):
            # the model evaluates the whole tree without minimising inner nodes: keep the full product small
            bound = 1
            for dd in leaves(t):
                bound *= len(dd["states"]) + 1
            if bound <= 700:
                break
            t = rand_tree(rng, sigma, rng.choice([1, 2, 2]))
        if t[0] == "leaf":
            t = ("bin", rng.choice(OPS), "method", dict(retain_names=False, minify=False), t,
                 ("leaf", gen.rand_dfa_def(rng, nmax=5, alphabet=sigma)))
        check_tree(ctx, t, "random")
        if i % 3 == 0:
            check_conversions(ctx, gen.rand_dfa_def(rng, alphabet=sigma))
            check_conversions(ctx, gen.rand_dfa_with_dead(rng, alphabet=sigma))
            if i % 6 == 0:
                check_conversions(ctx, gen.rand_dfa_with_dead(rng, alphabet=sigma), mutable=True)
            if i % 6 == 3:
                check_conversions(ctx, gen.add_dfa_stray_rows(rng, gen.rand_dfa_def(rng, alphabet=sigma)))
    # two sparse partial operands over three symbols: at most pairs of states the two sets of defined symbols are incomparable
    for _ in range(ctx.n(60, 900)):
        sigma = rng.choice(["abc", "xyz"])
        a = gen.rand_dfa_def(rng, nmax=4, alphabet=sigma, partial=True, density=rng.choice([0.3, 0.5]), p_final=0.6)
        b = gen.rand_dfa_def(rng, nmax=4, alphabet=sigma, partial=True, density=rng.choice([0.3, 0.5]), p_final=0.6)
        check_tree(ctx, ("bin", rng.choice(OPS), rng.choice(["method", "operator"]),
                         dict(retain_names=rng.random() < 0.5, minify=rng.random() < 0.5), ("leaf", a), ("leaf", b)),
                   "sparse_partial_pair")
    # fixed finding (d97d5bb): an unreachable row keyed by -1, the id the product picks for the operand's implicit trap
    A = dict(states={0, 1, 2, 3}, input_symbols={"a"}, transitions={0: {"a": 1}, 1: {"a": 2}, 2: {"a": 3}, 3: {}},
             initial_state=0, final_states={3}, allow_partial=True)
    B = dict(states={0}, input_symbols={"a"}, transitions={0: {}, -1: {"a": 0}}, initial_state=0, final_states={0},
             allow_partial=True)
    for op in OPS:
        for x, y in ((A, B), (B, A)):
            check_tree(ctx, ("bin", op, "method", dict(retain_names=False, minify=False), ("leaf", x), ("leaf", y)),
                       "stray_row_at_trap_id")
    for _ in range(ctx.n(40, 400)):
        sg = rng.choice(["a", "ab"])
        x = gen.rand_dfa_def(rng, nmax=4, alphabet=sg, partial=True, density=rng.choice([0.4, 0.7]), p_final=0.5)
        y = gen.rand_dfa_def(rng, nmax=3, alphabet=sg, partial=True, density=rng.choice([0.4, 0.7]), p_final=0.5)
        for d in (x, y):
            if -1 not in d["states"]:
                d["transitions"][-1] = {a: rng.choice(sorted(d["states"], key=repr)) for a in sg if rng.random() < 0.8}
        check_tree(ctx, ("bin", rng.choice(OPS), rng.choice(["method", "operator"]),
                         dict(retain_names=rng.random() < 0.5, minify=rng.random() < 0.5), ("leaf", x), ("leaf", y)),
                   "stray_row_at_trap_id")
    # every option combination on one pair, every operation
    sigma = "ab"
    for _ in range(ctx.n(6, 60)):
        a, b = gen.rand_dfa_def(rng, alphabet=sigma), gen.rand_dfa_def(rng, alphabet=sigma)
        for op in OPS:
            for rn, mn in itertools.product([False, True], repeat=2):
                check_tree(ctx, ("bin", op, "method", dict(retain_names=rn, minify=mn), ("leaf", a), ("leaf", b)), "all_options")
        for rn, mn in itertools.product([False, True], repeat=2):
            check_tree(ctx, ("compl", "method", dict(retain_names=rn, minify=mn), ("leaf", a)), "all_options")
    # symbol mismatch is refused, not answered
    # (every relation between the two alphabets: left a superset, left a subset, overlapping, disjoint; both kinds of table)
    for sa, sb in [("ab", "a"), ("a", "ab"), ("ab", "bc"), ("ab", "cd"), ("a", "b"), ("abc", "ab"), ("ab", "abc")] * ctx.n(2, 10):
        da, db = gen.rand_dfa_def(rng, alphabet=sa), gen.rand_dfa_def(rng, alphabet=sb)
        a, b = mk_dfa(da), mk_dfa(db)
        for op in OPS:
            kw = rng.choice([{}, dict(minify=False), dict(retain_names=True), dict(retain_names=True, minify=False)])
            g = outcome(lambda: getattr(a, op)(b, **kw))
            ctx.tally("alphabet_mismatch_refusal")
            if g[:2] != ("err", enc.MISMATCH):
                ctx.violation(f"{op}({kw}) of a DFA over {sorted(sa)} with one over {sorted(sb)} gives {g[:2] if g[0] == 'err' else g} "
                              "instead of SymbolMismatchError",
                              {"kind": "mismatch", "op": op, "A": repr(da), "B": repr(db), "kwargs": kw})
    if ctx.tier == "thorough":
        defs = []
        for n in (1, 2):
            for tgt in itertools.product([None] + list(range(n)), repeat=n):
                for fin in itertools.product([0, 1], repeat=n):
                    defs.append(dict(states=set(range(n)), input_symbols={"a"},
                                     transitions={q: ({"a": tgt[q]} if tgt[q] is not None else {}) for q in range(n)},
                                     initial_state=0, final_states={q for q in range(n) if fin[q]}, allow_partial=True))
        for x in defs:
            for y in defs:
                for op in OPS:
                    check_tree(ctx, ("bin", op, "method", dict(retain_names=False, minify=False), ("leaf", x), ("leaf", y)), "exhaustive")
        ctx.exhaustive = True
        ctx.exhaustive_scope = "all ordered pairs of partial DFAs with <= 2 states over {a} x 4 binary operations (minify=False)"


def replay(ctx, case):
    if case["kind"] == "tree":
        check_tree(ctx, load_def(case["tree"]), "replay")
    elif case["kind"] in ("to_complete", "to_partial"):
        check_conversions(ctx, load_def(case["def"]), mutable=case.get("mutable", False))
    print("replay:", "VIOLATION reproduced" if ctx.violations else "no disagreement")
