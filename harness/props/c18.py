"""C18 - automata are immutable values; no call changes an operand; copy/pickle round trip.

(a) freeze_value vs the model on generated nested values (structure incl. container kinds);
(b) every automaton class: blocked attribute writes, deep immutability of what is stored, the
    model's construct/input_parameters/copy/pickle, later mutation of the constructor arguments;
(c) operand-mutation monitor: every automaton alive in a session is deep-snapshotted before and
    after every public call, under both settings of allow_mutable_automata."""
from __future__ import annotations

import collections
import copy as pycopy
import itertools
import pickle

from frozendict import frozendict

import enc
import gen
from props import c18gen as g

RULE = ("(a) random nested Python values (depth <= 4; every container kind inside every other where Python allows; "
        "atoms str/int/bool/None/float/bytes/deque) through freeze_value vs model; (b) valid definitions of all 8 "
        "automaton classes with container kinds of the constructor arguments varied (dict/frozendict/OrderedDict, "
        "set/frozenset, tuple/list incl. lists inside tuples), both option settings; (c) sessions of public calls on a "
        "pool of DFAs/NFAs/GNFAs (results re-enter the pool) and reads of PDAs/TMs, every pool member snapshotted "
        "around every call, both option settings; one session in three is repeated in mutable mode with "
        "collections.defaultdict transition tables (where a stray lookup would insert a key). distinct = distinct canonical value / (class, stored definition, "
        "mode) / (mode, operation, operand definitions); non-trivial = value has a container nested in a container / "
        "definition has >= 2 states / the call returned (did not raise) on operands with >= 2 states")

CLS_ID = {"DFA": 1, "NFA": 2, "GNFA": 3, "DPDA": 4, "NPDA": 5, "DTM": 6, "NTM": 7, "MNTM": 8}


class _FD:
    """repr() of a frozendict is 'frozendict.frozendict({...})'; hand-written definitions say 'frozendict({...})'."""
    frozendict = staticmethod(frozendict)

    def __call__(self, *a, **k):
        return frozendict(*a, **k)


def load(s):
    return eval(s, {"frozenset": frozenset, "frozendict": _FD(), "set": set,
                    "OrderedDict": collections.OrderedDict, "deque": collections.deque})


class Flags:
    """Set allow_mutable_automata for a block and restore both option flags afterwards."""

    def __init__(self, mutable):
        self.mutable = mutable

    def __enter__(self):
        import automata.base.config as cfg
        self.cfg = cfg
        self.saved = (cfg.allow_mutable_automata, cfg.should_validate_automata)
        cfg.allow_mutable_automata = self.mutable
        return self

    def __exit__(self, *exc):
        self.cfg.allow_mutable_automata, self.cfg.should_validate_automata = self.saved
        return False


MAX_PER_KIND = 2


def report(ctx, key, what, replay, confirmed=True):
    """At most MAX_PER_KIND replays per kind of failure (one defect shows up in hundreds of generated cases)."""
    seen = ctx.__dict__.setdefault("_c18_seen", {})
    seen[key] = seen.get(key, 0) + 1
    if seen[key] <= MAX_PER_KIND:
        ctx.violation(what, replay, confirmed=confirmed)
    else:
        ctx.tally("further_failing_cases_not_listed_" + key)


# ------------------------------------------------------------------ (a) freeze_value
def nested(v, inside=False):
    if isinstance(v, (dict, set, frozenset, list, tuple)):
        if inside:
            return True
        items = list(v.values()) if isinstance(v, dict) else list(v)
        return any(nested(x, True) for x in items)
    return False


def check_freeze(ctx, values, tag):
    from automata.base.utils import freeze_value
    items, metas = [], []
    for v in values:
        it = g.Intern()
        before = g.snapshot(v)
        t = g.enc_val(v, it)
        with Flags(False):
            out = freeze_value(v)
        items.append((18, 1, enc.tree(t)))
        items.append((18, 2, enc.tree(t)))
        metas.append((v, it, before, out, t))
    answers = ctx.driver.batch(items)
    for i, (v, it, before, out, t) in enumerate(metas):
        a1, a2 = answers[2 * i], answers[2 * i + 1]
        m_frozen, m_imm, m_wf, m_erase, m_erase_frozen, m_twice = a1
        got = g.canon(g.enc_val(out, it))
        problems = []
        confirmed = False
        if m_wf != 1:
            problems.append("harness generated a value the model calls ill-formed (unhashable member)")
        if m_imm != 1:
            problems.append("model: freeze result not deeply immutable")
        if g.canon(m_erase) != g.canon(m_erase_frozen):
            problems.append("model: freeze changed the content")
        if g.canon(m_twice) != g.canon(m_frozen):
            problems.append("model: freeze not idempotent")
        if got != g.canon(m_frozen):
            what = f"freeze_value({v!r}) = {out!r}: structure differs from the model's"
            if got == g.canon(a2[0]):
                what += " (equals the pre-repair function: a tuple is returned without being entered)"
            problems.append(what)
        # confirmation on the implementation alone
        bad = [p for p in g.mutable_paths(out) if p.rsplit(":", 1)[1] in ("dict", "set", "list", "OrderedDict", "defaultdict")]
        if bad:
            problems.append("result of freeze_value still contains mutable containers at " + ", ".join(bad[:4]))
            confirmed = True
        if g.snapshot(g.thaw(out)) != g.snapshot(g.thaw(v)):
            problems.append("freeze_value changed the content")
            confirmed = True
        if g.snapshot(v) != before:
            problems.append("freeze_value changed its argument")
            confirmed = True
        with Flags(False):
            again = freeze_value(out)
        if g.snapshot(again) != g.snapshot(out):
            problems.append("freeze_value is not idempotent on its own result")
            confirmed = True
        ctx.tally("freeze_values")
        if _has_list_in_tuple(v):
            ctx.tally("freeze_value_with_list_inside_tuple")
        ctx.case(("freeze", g.canon(t)), nontrivial=nested(v),
                 sample={"value": repr(v), "freeze_value": repr(out)} if i < 2 else None)
        if problems:
            report(ctx, "freeze", "freeze_value: " + "; ".join(problems),
                   {"kind": "freeze", "value": repr(v), "result": repr(out), "problems": problems, "tag": tag},
                   confirmed=confirmed)


def _has_list_in_tuple(v, in_tuple=False):
    if isinstance(v, (list, dict, set)) and not isinstance(v, frozendict) and in_tuple:
        return True
    if isinstance(v, dict):
        return any(_has_list_in_tuple(x, in_tuple) for x in v.values())
    if isinstance(v, tuple):
        return any(_has_list_in_tuple(x, True) for x in v)
    if isinstance(v, list):
        return any(_has_list_in_tuple(x, in_tuple) for x in v)
    return False


# ------------------------------------------------------------------ (b) per-class checks
def params_tree(params, names, it):
    return [[names[k], g.enc_val(v, it)] for k, v in params.items()]


def canon_attrs(attrs):
    return sorted([n, g.canon(t)] for n, t in attrs)


def all_attribute_names(obj):
    """Definition attributes an automaton object holds: the slots of its classes and its instance dict, caches aside."""
    names = []
    for klass in type(obj).__mro__:
        for k in getattr(klass, "__slots__", ()):
            if k not in names and not k.startswith("_") and k != "__dict__" and hasattr(obj, k):
                names.append(k)
    for k in getattr(obj, "__dict__", {}):
        if k not in names and not k.startswith("_"):
            names.append(k)
    return names


def check_object(ctx, cname, cls, kwargs_repr, mutable, tag):
    """One definition, one option setting."""
    kwargs = load(kwargs_repr)
    problems, model_only = [], []
    with Flags(mutable):
        try:
            m = cls(**kwargs)
        except Exception as e:  # noqa: BLE001 - an argument shape the library refuses in this mode
            ctx.tally(f"construct_refused_{'mutable' if mutable else 'default'}_{type(e).__name__}")
            return None
        names = {k: i for i, k in enumerate(kwargs)}
        it = g.Intern()
        kw_tree = params_tree(kwargs, names, it)
        ans = ctx.driver.batch([(18, 3, enc.tree([mutable, CLS_ID[cname], kw_tree])),
                                (18, 4, enc.tree([mutable, CLS_ID[cname], kw_tree]))])
        (m_params, m_allimm, m_copy, m_pickle), (m_set, m_del, m_after) = ans
        params = m.input_parameters
        snap0 = g.snapshot(params)
        snap_attr = {k: g.snapshot(v) for k, v in params.items()}
        # model's stored attributes (DFA adds the defaulted allow_partial; compare the given ones)
        given = {k: v for k, v in params.items() if k in names}
        if canon_attrs(params_tree(given, names, it)) != canon_attrs(m_params):
            model_only.append("stored attributes differ from the model's construct")
        if set(params) - set(names) - {"allow_partial", "acceptance_mode"}:
            problems.append(f"input_parameters has unexpected names {set(params) - set(names)}")
        # attribute writes and deletes
        for name in list(cls.__slots__) + ["brand_new_attribute"]:
            for what, fn in (("set", lambda: setattr(m, name, set())), ("del", lambda: delattr(m, name))):
                try:
                    fn()
                    problems.append(f"{what} of attribute {name!r} did not raise")
                except AttributeError:
                    pass
                except Exception as e:  # noqa: BLE001
                    problems.append(f"{what} of attribute {name!r} raised {type(e).__name__}, not AttributeError")
        if any("did not raise" in x for x in problems):
            # the object may be damaged now; report what was established and stop here
            report(ctx, "object", f"{cname} ({'mutable' if mutable else 'default'} mode): " + "; ".join(problems),
                   {"kind": "object", "class": cname, "mutable": mutable, "kwargs": kwargs_repr,
                    "problems": problems, "tag": tag}, confirmed=True)
            return None
        if m_set != [0, 95] or m_del != [0, 95]:
            problems.append("model: setattr/delattr not refused")
        if g.snapshot(m.input_parameters) != snap0:
            problems.append("definition changed by a refused attribute write/delete")
        # input_parameters hands out a fresh mapping: editing it does not touch the automaton
        p2 = m.input_parameters
        p2["states"] = "overwritten"
        p2.clear()
        if g.snapshot(m.input_parameters) != snap0:
            problems.append("editing the dict returned by input_parameters changed the automaton")
        # deep immutability of what is stored (default mode)
        if not mutable:
            bad = []
            for k, v in params.items():
                bad += g.mutable_paths(v, k)
            if bad:
                problems.append("stored definition contains mutable values at " + ", ".join(bad[:4]))
            if m_allimm != 1:
                problems.append("model: stored values not deeply immutable")
        # copy / pickle
        for how, mk, mref in (("copy()", lambda: m.copy(), m_copy),
                              ("pickle round trip", lambda: pickle.loads(pickle.dumps(m)), m_pickle),
                              ("copy.copy", lambda: pycopy.copy(m), m_pickle),
                              ("copy.deepcopy", lambda: pycopy.deepcopy(m), m_pickle)):
            try:
                c = mk()
            except Exception as e:  # noqa: BLE001
                problems.append(f"{how} raised {type(e).__name__}: {e}")
                continue
            if type(c) is not type(m):
                problems.append(f"{how} gives class {type(c).__name__}")
            if g.snapshot(c.input_parameters) != snap0:
                problems.append(f"{how} gives a different definition: {c.input_parameters!r}")
            cgiven = {k: v for k, v in c.input_parameters.items() if k in names}
            if mref[0] != CLS_ID[cname] or canon_attrs(params_tree(cgiven, names, it)) != canon_attrs(mref[1]):
                model_only.append(f"{how}: differs from the model's")
            if c is m:
                problems.append(f"{how} returned the same object")
            if not mutable:
                # everything the new object holds (not only what input_parameters shows) is deeply immutable too
                bad = []
                for k in all_attribute_names(c):
                    bad += g.mutable_paths(getattr(c, k), k)
                if bad:
                    problems.append(f"{how} gives an object that holds mutable values at " + ", ".join(bad[:4]))
        if g.snapshot(m.input_parameters) != snap0:
            problems.append("definition changed by copy()/pickle")
        if mutable:
            # pickled with the option on, loaded with it off: the loaded automaton is an ordinary (frozen) one
            try:
                data = pickle.dumps(m)
                with Flags(False):
                    c = pickle.loads(data)
                    bad = []
                    for k in all_attribute_names(c):
                        bad += g.mutable_paths(getattr(c, k), k)
                if bad:
                    problems.append("an automaton pickled in mutable mode and loaded in default mode holds mutable values at "
                                    + ", ".join(bad[:4]))
            except Exception as e:  # noqa: BLE001
                problems.append(f"pickle across option settings raised {type(e).__name__}: {e}")
        # later mutation of the objects passed to the constructor (default mode only: in mutable
        # mode sharing is the documented contract)
        if not mutable:
            n_mut = g.mutate_everything(kwargs)
            after = g.snapshot(m.input_parameters)
            if after != snap0:
                changed = {k: v for k, v in m.input_parameters.items() if g.snapshot(v) != snap_attr[k]}
                problems.append(f"mutating the constructor arguments afterwards changed the automaton: now {changed!r}")
            ctx.tally("constructor_args_mutated_containers", n_mut)
    mode = "mutable" if mutable else "default"
    ctx.tally(f"object_{cname}_{mode}")
    ctx.case(("object", cname, mode, repr(snap0)), nontrivial=len(params.get("states", ())) >= 2,
             sample={"class": cname, "mode": mode, "kwargs": kwargs_repr[:400]} if ctx.evaluations % 97 == 0 else None)
    if problems or model_only:
        # problems are established on the implementation alone; model_only ones only against the model
        report(ctx, "object", f"{cname} ({mode} mode): " + "; ".join(problems + model_only),
               {"kind": "object", "class": cname, "mutable": mutable, "kwargs": kwargs_repr,
                "problems": problems + model_only, "tag": tag}, confirmed=bool(problems))
    return m


# ------------------------------------------------------------------ (c) operand-mutation monitor
def snap_obj(m):
    return (type(m).__name__, g.snapshot(m.input_parameters), repr(m))


def take(it, n=12):
    return list(itertools.islice(it, n))


def _word(a, args):
    return args.get("w", "")


BOOL2 = [(rn, mn) for rn in (False, True) for mn in (False, True)]

# name -> (operand kinds, function(operands, args)); kinds: D DFA, N NFA, G GNFA
OPS = {
    # DFA, returning automata
    "dfa.union": ("DD", lambda o, a: o[0].union(o[1], retain_names=a["rn"], minify=a["mn"])),
    "dfa.intersection": ("DD", lambda o, a: o[0].intersection(o[1], retain_names=a["rn"], minify=a["mn"])),
    "dfa.difference": ("DD", lambda o, a: o[0].difference(o[1], retain_names=a["rn"], minify=a["mn"])),
    "dfa.symmetric_difference": ("DD", lambda o, a: o[0].symmetric_difference(o[1], retain_names=a["rn"], minify=a["mn"])),
    "dfa.|": ("DD", lambda o, a: o[0] | o[1]),
    "dfa.&": ("DD", lambda o, a: o[0] & o[1]),
    "dfa.-": ("DD", lambda o, a: o[0] - o[1]),
    "dfa.^": ("DD", lambda o, a: o[0] ^ o[1]),
    "dfa.complement": ("D", lambda o, a: o[0].complement(retain_names=a["rn"], minify=a["mn"])),
    "dfa.~": ("D", lambda o, a: ~o[0]),
    "dfa.minify": ("D", lambda o, a: o[0].minify(retain_names=a["rn"])),
    "dfa.to_partial": ("D", lambda o, a: o[0].to_partial(retain_names=a["rn"], minify=a["mn"])),
    "dfa.to_complete": ("D", lambda o, a: o[0].to_complete()),
    "dfa.copy": ("D", lambda o, a: o[0].copy()),
    "nfa.from_dfa": ("D", lambda o, a: _cls("NFA").from_dfa(o[0])),
    "gnfa.from_dfa": ("D", lambda o, a: _cls("GNFA").from_dfa(o[0])),
    # DFA comparisons and queries
    "dfa.==": ("DD", lambda o, a: o[0] == o[1]),
    "dfa.!=": ("DD", lambda o, a: o[0] != o[1]),
    "dfa.<=": ("DD", lambda o, a: o[0] <= o[1]),
    "dfa.<": ("DD", lambda o, a: o[0] < o[1]),
    "dfa.>=": ("DD", lambda o, a: o[0] >= o[1]),
    "dfa.>": ("DD", lambda o, a: o[0] > o[1]),
    "dfa.issubset": ("DD", lambda o, a: o[0].issubset(o[1])),
    "dfa.issuperset": ("DD", lambda o, a: o[0].issuperset(o[1])),
    "dfa.isdisjoint": ("DD", lambda o, a: o[0].isdisjoint(o[1])),
    "dfa.isempty": ("D", lambda o, a: o[0].isempty()),
    "dfa.isfinite": ("D", lambda o, a: o[0].isfinite()),
    "dfa.len": ("D", lambda o, a: len(o[0])),
    "dfa.cardinality": ("D", lambda o, a: o[0].cardinality()),
    "dfa.minimum_word_length": ("D", lambda o, a: o[0].minimum_word_length()),
    "dfa.maximum_word_length": ("D", lambda o, a: o[0].maximum_word_length()),
    "dfa.count_words_of_length": ("D", lambda o, a: o[0].count_words_of_length(a["k"])),
    "dfa.words_of_length": ("D", lambda o, a: take(o[0].words_of_length(a["k"]), 40)),
    "dfa.random_word": ("D", lambda o, a: o[0].random_word(a["k"], seed=a["k"] + 5)),
    "dfa.successor": ("D", lambda o, a: o[0].successor(a["start"], strict=a["rn"], max_length=6)),
    "dfa.predecessor": ("D", lambda o, a: o[0].predecessor(a["w"], strict=a["rn"], max_length=6)),
    "dfa.successors": ("D", lambda o, a: take(o[0].successors(a["start"], strict=a["rn"], reverse=a["mn"], max_length=6))),
    "dfa.predecessors": ("D", lambda o, a: take(o[0].predecessors(a["w"], strict=a["rn"], max_length=6))),
    "dfa.iter": ("D", lambda o, a: take(iter(o[0]))),
    "dfa.accepts_input": ("D", lambda o, a: o[0].accepts_input(a["w"])),
    "dfa.in": ("D", lambda o, a: a["w"] in o[0]),
    "dfa.read_input": ("D", lambda o, a: o[0].read_input(a["w"])),
    "dfa.read_input_stepwise": ("D", lambda o, a: take(o[0].read_input_stepwise(a["w"], ignore_rejection=a["rn"]))),
    "dfa.iter_transitions": ("D", lambda o, a: list(o[0].iter_transitions())),
    "dfa.validate": ("D", lambda o, a: o[0].validate()),
    "dfa.clear_cache": ("D", lambda o, a: o[0].clear_cache()),
    "dfa.repr_hash": ("D", lambda o, a: (repr(o[0]), str(o[0]))),
    # NFA
    "nfa.union": ("NN", lambda o, a: o[0].union(o[1])),
    "nfa.|": ("NN", lambda o, a: o[0] | o[1]),
    "nfa.concatenate": ("NN", lambda o, a: o[0].concatenate(o[1])),
    "nfa.+": ("NN", lambda o, a: o[0] + o[1]),
    "nfa.intersection": ("NN", lambda o, a: o[0].intersection(o[1])),
    "nfa.&": ("NN", lambda o, a: o[0] & o[1]),
    "nfa.shuffle_product": ("NN", lambda o, a: o[0].shuffle_product(o[1])),
    "nfa.left_quotient": ("NN", lambda o, a: o[0].left_quotient(o[1])),
    "nfa.right_quotient": ("NN", lambda o, a: o[0].right_quotient(o[1])),
    "nfa.kleene_star": ("N", lambda o, a: o[0].kleene_star()),
    "nfa.option": ("N", lambda o, a: o[0].option()),
    "nfa.reverse": ("N", lambda o, a: o[0].reverse()),
    "nfa.eliminate_lambda": ("N", lambda o, a: o[0].eliminate_lambda()),
    "nfa.copy": ("N", lambda o, a: o[0].copy()),
    "dfa.from_nfa": ("N", lambda o, a: _cls("DFA").from_nfa(o[0], retain_names=a["rn"], minify=a["mn"])),
    "gnfa.from_nfa": ("N", lambda o, a: _cls("GNFA").from_nfa(o[0])),
    "nfa.==": ("NN", lambda o, a: o[0] == o[1]),
    "nfa.!=": ("NN", lambda o, a: o[0] != o[1]),
    "nfa.accepts_input": ("N", lambda o, a: o[0].accepts_input(a["w"])),
    "nfa.read_input": ("N", lambda o, a: o[0].read_input(a["w"])),
    "nfa.read_input_stepwise": ("N", lambda o, a: take(o[0].read_input_stepwise(a["w"]))),
    "nfa.in": ("N", lambda o, a: a["w"] in o[0]),
    "nfa.iter_transitions": ("N", lambda o, a: list(o[0].iter_transitions())),
    "nfa.validate": ("N", lambda o, a: o[0].validate()),
    # GNFA
    "gnfa.to_regex": ("G", lambda o, a: o[0].to_regex()),
    "gnfa.copy": ("G", lambda o, a: o[0].copy()),
    "gnfa.iter_transitions": ("G", lambda o, a: list(o[0].iter_transitions())),
    "gnfa.validate": ("G", lambda o, a: o[0].validate()),
}


def _cls(name):
    return {c[0]: c[1] for c in g.class_table()}[name]


def kind_of(m):
    return {"DFA": "D", "NFA": "N", "GNFA": "G"}.get(type(m).__name__)


def n_states(m):
    try:
        return len(m.states)
    except Exception:  # noqa: BLE001
        return 0


MAX_OPERAND = {"nfa.shuffle_product": 6, "nfa.intersection": 8, "nfa.left_quotient": 6, "nfa.right_quotient": 6,
               "dfa.from_nfa": 9, "gnfa.to_regex": 7, "gnfa.from_nfa": 8, "gnfa.from_dfa": 8}


def run_session(ctx, mutable, defs, steps=None, nsteps=30, tag="random", sigma="ab"):
    """defs: list of (class name, repr of kwargs). steps: recorded [(op, operand indices, args)]
    to replay, or None to draw nsteps random ones. Every pool member is snapshotted around every
    call; only a changed operand is reported (exceptions raised by the calls are not)."""
    rng = ctx.rng
    table = {c[0]: c[1] for c in g.class_table()}
    done = []
    with Flags(mutable):
        pool = []
        for cname, kr in defs:
            cname, _, opt = cname.partition("+")
            kw = load(kr)
            if opt == "dd":
                # the caller's own table is a collections.defaultdict (rows too): a lookup of a missing key inserts it
                leaf = set if cname == "NFA" else None
                kw["transitions"] = collections.defaultdict(
                    (lambda: collections.defaultdict(leaf)) if leaf else dict,
                    {q: (collections.defaultdict(leaf, row) if leaf else dict(row)) for q, row in kw["transitions"].items()})
            try:
                pool.append(table[cname](**kw))
            except Exception:  # noqa: BLE001
                return
        names = sorted(OPS)
        snaps = None      # snapshots after the previous call = snapshots before the next one
        i = 0
        while True:
            if steps is not None:
                if i >= len(steps):
                    break
                op, idxs, args = steps[i]
            else:
                if i >= nsteps:
                    break
                op = rng.choice(names)
                kinds = OPS[op][0]
                limit = MAX_OPERAND.get(op, 14)
                idxs = []
                for kd in kinds:
                    cand = [j for j, m in enumerate(pool) if kind_of(m) == kd and n_states(m) <= limit]
                    if not cand:
                        break
                    idxs.append(rng.choice(cand))
                if len(idxs) != len(kinds):
                    i += 1
                    continue
                rn, mn = rng.choice(BOOL2)
                w = gen.rand_word(rng, sigma, 5, p_foreign=0.05)
                args = {"rn": rn, "mn": mn, "k": rng.randint(0, 4), "w": w,
                        "start": rng.choice([None, w])}
            i += 1
            operands = [pool[j] for j in idxs]
            before = snaps if snaps is not None else [snap_obj(m) for m in pool]
            raised = None
            result = None
            try:
                result = OPS[op][1](operands, args)
            except Exception as e:  # noqa: BLE001 - other properties' business
                raised = type(e).__name__
            after = [snap_obj(m) for m in pool]
            done.append([op, list(idxs), args])
            ctx.tally("op_" + op)
            if raised:
                ctx.tally("op_raised_" + raised)
            mode = "mutable" if mutable else "default"
            ctx.case(("op", mode, op, tuple(before[j] for j in idxs), repr(sorted(args.items()))),
                     nontrivial=raised is None and all(n_states(m) >= 2 for m in operands),
                     sample={"mode": mode, "op": op, "operands": [repr(m)[:200] for m in operands],
                             "result": repr(result)[:200]} if ctx.evaluations % 997 == 0 else None)
            changed = [j for j in range(len(pool)) if before[j] != after[j]]
            if changed:
                j = changed[0]
                role = "operand" if j in idxs else "bystander (an automaton sharing structure with an operand)"
                report(
                    ctx, "session", f"{op} ({mode} mode) changed an automaton it was given: {role} #{j} was {before[j][2]} "
                    f"and is now {after[j][2]}",
                    {"kind": "session", "mutable": mutable, "defs": [list(d) for d in defs], "steps": done,
                     "sigma": sigma, "changed": changed, "before": repr(before[j]), "after": repr(after[j]), "tag": tag})
                return
            snaps = after
            if kind_of(result) and n_states(result) <= 14 and len(pool) < 14:
                pool.append(result)
                snaps = after + [snap_obj(result)]


def bounded_read(m, w, budget):
    """Drive read_input_stepwise for at most `budget` steps (and stop when a yielded set of
    configurations grows beyond 150). True iff the run ended by itself within those limits."""
    it = m.read_input_stepwise(w)
    try:
        for _ in range(budget):
            c = next(it)
            if isinstance(c, (set, frozenset, list)) and len(c) > 150:
                return False
    except StopIteration:
        return True
    except Exception:  # noqa: BLE001 - rejection etc.
        return True
    finally:
        close = getattr(it, "close", None)
        if close:
            close()
    return False


def check_machine_reads(ctx, cname, cls, kwargs_repr, mutable, words, tag):
    """PDA / TM: reading inputs must not change the machine."""
    with Flags(mutable):
        try:
            m = cls(**load(kwargs_repr))
        except Exception:  # noqa: BLE001
            return
        before = snap_obj(m)
        budget = 40 if cname in ("DPDA", "DTM") else 12
        for w in words:
            calls = [("read_input_stepwise", lambda: bounded_read(m, w, budget))]
            if bounded_read(m, w, budget):
                # the run ends within the budget, so the unbounded entry points terminate too
                calls += [("read_input", lambda: m.read_input(w)), ("accepts_input", lambda: m.accepts_input(w)),
                          ("in", lambda: w in m)]
            if cname == "MNTM":
                calls.append(("read_input_as_ntm", lambda: len(list(itertools.islice(m.read_input_as_ntm(w), 25)))))
            if cname in ("DPDA", "NPDA"):
                calls.append(("iter_transitions", lambda: list(m.iter_transitions())))
            calls.append(("validate", lambda: m.validate()))
            calls.append(("copy", lambda: m.copy()))
            for what, fn in calls:
                raised = None
                try:
                    fn()
                except Exception as e:  # noqa: BLE001
                    raised = type(e).__name__
                mode = "mutable" if mutable else "default"
                ctx.tally(f"op_{cname.lower()}.{what}")
                ctx.case(("read", mode, cname, before, what, w), nontrivial=raised is None and len(m.states) >= 2)
                after = snap_obj(m)
                if after != before:
                    report(ctx, "reads", f"{cname}.{what}({w!r}) ({mode} mode) changed the machine: was {before[2]}, now {after[2]}",
                                  {"kind": "reads", "class": cname, "mutable": mutable, "kwargs": kwargs_repr,
                                   "words": [w], "tag": tag})
                    return


# ------------------------------------------------------------------ corner cases written out
def corner_defs():
    """The shapes named in DESIGN section 8 row 12 and their neighbours."""
    return [
        ("DPDA", "dict(states={'q0','q1'}, input_symbols={'a'}, stack_symbols={'Z','X'}, "
                 "transitions={'q0': {'a': {'Z': ('q1', ['X', 'Z'])}}, 'q1': {'a': {'X': ('q1', [])}}}, "
                 "initial_state='q0', initial_stack_symbol='Z', final_states={'q1'}, acceptance_mode='final_state')"),
        ("DPDA", "dict(states={'q0','q1'}, input_symbols={'a'}, stack_symbols={'Z'}, "
                 "transitions={'q0': {'a': {'Z': ['q1', ['Z']]}}}, "
                 "initial_state='q0', initial_stack_symbol='Z', final_states={'q1'}, acceptance_mode='both')"),
        ("DTM", "dict(states={'q0','q1'}, input_symbols={'0'}, tape_symbols={'0','.'}, "
                "transitions={'q0': {'0': ['q1', '0', 'R']}}, initial_state='q0', blank_symbol='.', final_states={'q1'})"),
        ("MNTM", "dict(states={'q0','q1'}, input_symbols={'0'}, tape_symbols={'0','.'}, n_tapes=1, "
                 "transitions={'q0': {('0',): [('q1', [['0', 'R']])]}}, initial_state='q0', blank_symbol='.', final_states={'q1'})"),
        ("MNTM", "dict(states={'q0','q1'}, input_symbols={'0'}, tape_symbols={'0','.'}, n_tapes=2, "
                 "transitions={'q0': {('0','.'): (('q1', [('0', 'R'), ['.', 'N']]),)}}, initial_state='q0', blank_symbol='.', final_states={'q1'})"),
        ("NPDA", "dict(states={'q0','q1'}, input_symbols={'a'}, stack_symbols={'Z'}, "
                 "transitions={'q0': {'a': {'Z': [('q1', ['Z', 'Z'])]}}}, "
                 "initial_state='q0', initial_stack_symbol='Z', final_states={'q1'}, acceptance_mode='both')"),
        ("DFA", "dict(states={0, 1}, input_symbols={'a'}, transitions=frozendict({0: {'a': 1}, 1: OrderedDict({'a': 0})}), "
                "initial_state=0, final_states=frozenset({1}))"),
        ("NFA", "dict(states={0, 1}, input_symbols={'a'}, transitions={0: {'a': {1}, '': frozenset({0})}}, "
                "initial_state=0, final_states={1})"),
    ]


def known_live_views(ctx):
    """Finding repaired in /repo (freeze_value freezes every Mapping and Set): arguments that are mappings / sets of
    another type than the builtins (a keys view, a MappingProxyType, a UserDict) must end up frozen like a dict / set,
    and a later write by the caller must not reach the automaton.  Regression, runs on every pass."""
    import types
    problems = []
    table = {0: {"a": 1}, 1: {"a": 1}}
    try:
        d = by_cls("DFA")(states=table.keys(), input_symbols={"a"}, transitions=types.MappingProxyType(table), initial_state=0,
                          final_states={1})
        snap = g.snapshot(d.input_parameters)
        bad = [p for k, v in d.input_parameters.items() for p in g.mutable_paths(v, k)]
        table[0] = {"a": 0}
        table[2] = {}
        if g.snapshot(d.input_parameters) != snap or d.accepts_input("a") is not True:
            problems.append("DFA(states=table.keys(), transitions=MappingProxyType(table)): the caller's later writes to "
                            f"table changed the automaton: {d.input_parameters!r:.200}")
        if bad:
            problems.append("DFA built from a keys view / MappingProxyType stores mutable values at " + ", ".join(bad[:3]))
        u = collections.UserDict({0: {"a": {0: 1}.keys()}, 1: {}})
        n = by_cls("NFA")(states={0, 1}, input_symbols={"a"}, transitions=u, initial_state=0, final_states={0})
        snap = g.snapshot(n.input_parameters)
        bad = [p for k, v in n.input_parameters.items() for p in g.mutable_paths(v, k)]
        u[0] = {"a": {1}}
        if g.snapshot(n.input_parameters) != snap or bad:
            problems.append(f"NFA built from a UserDict with a keys view as target set is not frozen: {bad[:3]}")
    except Exception as e:  # noqa: BLE001
        problems.append(f"constructing from non-builtin containers raised {type(e).__name__}: {e}")
    ctx.tally("non_builtin_container_regression")
    ctx.open_finding("constructor_keeps_non_builtin_containers_live", bool(problems), "; ".join(problems))


def by_cls(name):
    return {c[0]: c[1] for c in g.class_table()}[name]


def run(ctx):
    ctx.rule = RULE
    known_live_views(ctx)
    rng = ctx.rng
    table = g.class_table()
    by_name = {c[0]: c for c in table}

    # (a) freeze_value
    corner_values = [
        ("q1", ["Z"]), (("a", ["b", ("c", ["d"])]),), {"k": ("q", [1, 2])}, [("x", [])], {("t", 1): [{"s"}, ({"u": [1]},)]},
        frozendict({"a": [1], "b": {1: {2}}}), (frozenset({("a", "b")}), [set()]), collections.OrderedDict(a=[1]),
        (), [], {}, set(), "", 0, None, True, ((), ((), [()])),
    ]
    check_freeze(ctx, corner_values, "corner")
    nvals = ctx.n(1500, 30000)
    batch = []
    for i in range(nvals):
        batch.append(g.rand_value(rng, rng.choice([1, 2, 3, 3, 4])))
        if len(batch) == 500:
            check_freeze(ctx, batch, "random")
            batch = []
    if batch:
        check_freeze(ctx, batch, "random")

    import time
    t_a = time.time()
    ctx.notes.append(f"phase (a) freeze_value: {t_a - ctx.t0:.1f}s")
    # (b) objects
    for cname, kr in corner_defs():
        for mutable in (False, True):
            check_object(ctx, cname, by_name[cname][1], kr, mutable, "corner")
    nobj = ctx.n(40, 400)
    for cname, cls, mk in table:
        for i in range(nobj):
            d = mk(rng)
            for mutable in (False, True):
                d2 = g.vary_def(rng, d, 0.0 if mutable else 0.5)
                check_object(ctx, cname, cls, repr(d2), mutable, "random")

    t_b = time.time()
    ctx.notes.append(f"phase (b) objects: {t_b - t_a:.1f}s")
    # (c) sessions on FAs
    nsess = ctx.n(70, 600)
    for s in range(nsess):
        sigma = rng.choice(["a", "ab", "ab", "abc"])
        names = rng.choice([["q%d" % i for i in range(6)], list(range(6)), [(i, "x") for i in range(6)]])
        defs = []
        for _ in range(rng.choice([2, 3])):
            defs.append(("DFA", repr(gen.rand_dfa_def(rng, nmax=4, alphabet=sigma, names=names))))
        for _ in range(rng.choice([2, 3])):
            defs.append(("NFA", repr(gen.rand_nfa_def(rng, nmax=4, alphabet=sigma, names=names))))
        for mutable in (False, True):
            run_session(ctx, mutable, defs, nsteps=ctx.n(40, 50), sigma=sigma)
        if s % 3 == 0:
            run_session(ctx, True, [(c + "+dd", kr) for c, kr in defs], nsteps=ctx.n(40, 50), sigma=sigma, tag="defaultdict")
    t_c = time.time()
    ctx.notes.append(f"phase (c) sessions: {t_c - t_b:.1f}s")
    # PDA / TM reads
    nm = ctx.n(25, 200)
    for cname in ("DPDA", "NPDA", "DTM", "NTM", "MNTM"):
        cls, mk = by_name[cname][1], by_name[cname][2]
        for i in range(nm):
            d = mk(rng)
            sig = sorted(d["input_symbols"])
            words = [""] + [gen.rand_word(rng, sig, 5) for _ in range(3)]
            for mutable in (False, True):
                check_machine_reads(ctx, cname, cls, repr(d), mutable, words, "random")
    ctx.notes.append(f"phase (c) machine reads: {time.time() - t_c:.1f}s")
    # the option flags are what they were
    import automata.base.config as cfg
    if cfg.allow_mutable_automata is not False or cfg.should_validate_automata is not True:
        ctx.violation("harness left the option flags changed", {"kind": "flags"}, confirmed=False)


def replay(ctx, case):
    table = {c[0]: c for c in g.class_table()}
    k = case["kind"]
    if k == "freeze":
        check_freeze(ctx, [load(case["value"])], "replay")
    elif k == "object":
        check_object(ctx, case["class"], table[case["class"]][1], case["kwargs"], case["mutable"], "replay")
    elif k == "session":
        run_session(ctx, case["mutable"], [tuple(d) for d in case["defs"]], steps=case["steps"], tag="replay",
                    sigma=case.get("sigma", "ab"))
    elif k == "reads":
        check_machine_reads(ctx, case["class"], table[case["class"]][1], case["kwargs"], case["mutable"],
                            case["words"], "replay")
    print("replay:", "VIOLATION reproduced" if ctx.violations else "no disagreement")
