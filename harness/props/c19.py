"""C19 - validation is sound, results are valid, the two global options never change answers (correspondence half).

Four streams:
  (a) malformed: every valid generated definition of every class x every applicable single-rule corruption =>
      the constructor raises, the kind of exception equals the model's validate (property 19 of the driver, tables
      sent in dict iteration order) and equals the documented kind of the rule; pairs of corruptions check the ORDER of
      the rules (first broken rule wins); the uncorrupted definition must be accepted (model: Ok);
  (b) every valid definition can be read on random words (acceptance or RejectionException only) and passed to the
      applicable operations without an undocumented exception (defects that DESIGN section 8 assigns to other
      properties are filtered by (operation, exception type) and tallied, never reported here);
  (c) every automaton returned by an operation passes validate() - called explicitly - and the model's validate;
  (d) the same fixed battery runs in four separate interpreter processes, one per combination of
      should_validate_automata / allow_mutable_automata (this module run as a script, combination in C19_FLAGS);
      verdicts on all words up to length 5, state counts and exception kinds must be identical in the four.
Streams (b)-(d) are produced by the four battery processes; (a) runs in the main process.
"""
from __future__ import annotations

import itertools
import json
import os
import random
import subprocess
import sys

if __name__ == "__main__":   # battery worker: same path set-up as check.py
    _H = os.path.dirname(os.path.dirname(os.path.abspath(__file__)))
    sys.path.insert(0, _H)
    sys.path.insert(0, os.environ.get("VERIF_REPO", "/repo"))
    sys.dont_write_bytecode = True

import automata.base.config as global_config

if __name__ == "__main__":
    _f = os.environ.get("C19_FLAGS", "10")
    global_config.should_validate_automata = _f[0] == "1"
    global_config.allow_mutable_automata = _f[1] == "1"

import enc
import gen
from props import c02, tmlib
from props.common import load_def, outcome

import automata.base.exceptions as ex
from automata.fa.dfa import DFA
from automata.fa.gnfa import GNFA
from automata.fa.nfa import NFA
from automata.pda.dpda import DPDA
from automata.pda.npda import NPDA
from automata.tm.dtm import DTM
from automata.tm.mntm import MNTM
from automata.tm.ntm import NTM

RULE = ("(a) valid random definitions of DFA, NFA, GNFA, DPDA, NPDA, DTM, NTM, MNTM (generators of C01/C02/C03, 7 state-name "
        "pools) x every applicable single-rule corruption (unknown end state / transition symbol, missing row, missing "
        "symbol of a complete DFA, initial/final state outside the states, NFA/TM/GNFA initial state without row, bad stack "
        "symbol, bad initial stack symbol, bad acceptance mode, lambda/symbol clash in a DPDA, input symbols not a proper "
        "subset of the tape symbols, blank not a tape symbol, row of an unknown state, bad read/written symbol, bad "
        "direction, initial state final, final state with transitions, wrong tape count of a key / of a result, bad GNFA "
        "label, GNFA final state with transitions, GNFA row missing a target) and random pairs of corruptions; "
        "(b)-(d) a fixed battery (Boolean DFA operations, minify, to_partial/to_complete, comparisons, counting and "
        "enumeration, successor/predecessor, conversions NFA<->DFA<->GNFA, every NFA operation, from_regex, language "
        "constructors, edit distance, PDA and TM reads under a step budget) in four processes, one per combination of the two "
        "global flags. distinct = distinct (class, canonical definition, corruption) or (battery case, operation); "
        "non-trivial = a corrupted definition, or an operation that returned an automaton")

VERIF = os.path.dirname(os.path.dirname(os.path.dirname(os.path.abspath(__file__))))
DOC = {  # documented exception class of every rule -> code of enc.exc_code
    "InvalidStateError": 101, "InvalidSymbolError": 102, "MissingStateError": 103, "MissingSymbolError": 104,
    "InitialStateError": 105, "FinalStateError": 106, "InvalidRegexError": 110, "NondeterminismError": 120,
    "InvalidAcceptanceModeError": 121, "InvalidDirectionError": 130, "InconsistentTapesException": 131,
}
CLASSES = {"dfa": DFA, "nfa": NFA, "gnfa": GNFA, "dpda": DPDA, "npda": NPDA, "dtm": DTM, "ntm": NTM, "mntm": MNTM}
OPS = {"dfa": 1, "nfa": 2, "gnfa": 3, "npda": 4, "dpda": 5, "dtm": 6, "ntm": 7, "mntm": 8}
DIRC = {"L": 0, "R": 1, "N": 2}
BAD_STATE = ("no", "such", "state")
BAD_SYM = "%"
GOOD_LABELS = ["", "a", "b", "a|b", "a*", "ab", "(ab)*", "a?b", "(a|b)*a", "b*|a"]
BAD_LABELS = ["c", "a|*", "(a", "a+", "a)b", "|", "a.b", "*a"]


# ================================================================ raw encoders (dict iteration order is kept)
def _names(*its):
    s = set()
    for it in its:
        s.update(it)
    return s


def enc_raw_dfa(d):
    tr = d["transitions"]
    st = enc.Renum(_names(d["states"], d["final_states"], [d["initial_state"]], tr.keys(),
                          (t for row in tr.values() for t in row.values())))
    sy = enc.SymMap(d["input_symbols"], [a for row in tr.values() for a in row])
    return [sorted(st(q) for q in d["states"]), [sy(a) for a in sy.syms],
            [[st(q), [[sy(a), st(t)] for a, t in row.items()]] for q, row in tr.items()],
            st(d["initial_state"]), sorted(st(q) for q in d["final_states"]), bool(d.get("allow_partial", False))]


def enc_raw_nfa(d):
    tr = d["transitions"]
    st = enc.Renum(_names(d["states"], d["final_states"], [d["initial_state"]], tr.keys(),
                          (t for row in tr.values() for ts in row.values() for t in ts)))
    sy = enc.SymMap(d["input_symbols"], [a for row in tr.values() for a in row if a != ""])
    return [sorted(st(q) for q in d["states"]), [sy(a) for a in sy.syms],
            [[st(q), [[0 if a == "" else sy(a) + 1, sorted(st(t) for t in ts)] for a, ts in row.items()]]
             for q, row in tr.items()],
            st(d["initial_state"]), sorted(st(q) for q in d["final_states"])]


def label_good(lbl, sigma):
    """Independent recognizer of GNFA labels: symbols of the alphabet and * | ( ) ?, with
    expr := term ('|' term)* ; term := factor+ ; factor := atom ('*' | '?')* ; atom := symbol | '(' expr ')' | '()';
    the empty string is a label too."""
    if any(c not in sigma and c not in "*|()?" for c in lbl):
        return False
    if lbl == "":
        return True
    pos = 0

    def expr():
        nonlocal pos
        if not term():
            return False
        while pos < len(lbl) and lbl[pos] == "|":
            pos += 1
            if not term():
                return False
        return True

    def term():
        nonlocal pos
        k = 0
        while pos < len(lbl) and lbl[pos] not in "|)":
            if not factor():
                return False
            k += 1
        return k > 0

    def factor():
        nonlocal pos
        c = lbl[pos]
        if c in "*?":
            return False
        if c == "(":
            pos += 1
            if pos < len(lbl) and lbl[pos] == ")":
                pos += 1
            else:
                if not expr() or pos >= len(lbl) or lbl[pos] != ")":
                    return False
                pos += 1
        else:
            pos += 1
        while pos < len(lbl) and lbl[pos] in "*?":
            pos += 1
        return True

    return expr() and pos == len(lbl)


def enc_raw_gnfa(d):
    tr = d["transitions"]
    st = enc.Renum(_names(d["states"], [d["initial_state"], d["final_state"]], tr.keys(),
                          (t for row in tr.values() for t in row)))
    sigma = d["input_symbols"]
    return [sorted(st(q) for q in d["states"]),
            [[st(q), [[st(t), [] if l is None else [1 if label_good(l, sigma) else 0]] for t, l in row.items()]]
             for q, row in tr.items()],
            st(d["initial_state"]), st(d["final_state"])]


def enc_raw_pda(d, npda):
    names, stack, keys = c02.table_names(d, npda)
    st, sk = enc.Renum(names), enc.Renum(stack)
    sy = enc.SymMap(d["input_symbols"], sorted(keys))
    rows = []
    for q, row in d["transitions"].items():
        r = []
        for a, tops in row.items():
            t = []
            for z, e in tops.items():
                moves = sorted([st(tg), [sk(x) for x in c02.push_syms(push)]] for (tg, push) in (e if npda else [e]))
                t.append([sk(z), moves])
            r.append([0 if a == "" else sy(a) + 1, t])
        rows.append([st(q), r])
    mode = d["acceptance_mode"]
    return [sorted(st(q) for q in d["states"]), [sy(a) for a in sy.syms], sorted(sk(z) for z in d["stack_symbols"]),
            rows, st(d["initial_state"]), sk(d["initial_stack_symbol"]), sorted(st(q) for q in d["final_states"]),
            c02.MODES.index(mode) if mode in c02.MODES else 7]


def _tm_results(kind, val):
    """-> list of (state, [(symbol, direction), ...]) in iteration order."""
    if kind == "dtm":
        return [(val[0], [(val[1], val[2])])]
    if kind == "ntm":
        return [(r[0], [(r[1], r[2])]) for r in val]
    return [(r[0], list(r[1])) for r in val]


def enc_raw_tm(d, kind):
    tr = d["transitions"]
    names = _names(d["states"], d["final_states"], [d["initial_state"]], tr.keys())
    syms = _names(d["input_symbols"], [d["blank_symbol"]])
    for row in tr.values():
        for key, val in row.items():
            syms.update([key] if kind != "mntm" else key)
            for q2, moves in _tm_results(kind, val):
                names.add(q2)
                syms.update(w for w, _ in moves)
    st = enc.Renum(names)
    sy = enc.SymMap(d["tape_symbols"], sorted(syms))
    rows = []
    for q, row in tr.items():
        r = []
        for key, val in row.items():
            res = _tm_results(kind, val)
            if kind == "dtm":
                q2, mv = res[0]
                r.append([sy(key), [st(q2), sy(mv[0][0]), DIRC.get(mv[0][1], 3)]])
            elif kind == "ntm":
                r.append([sy(key), [[st(q2), sy(mv[0][0]), DIRC.get(mv[0][1], 3)] for q2, mv in res]])
            else:
                r.append([[sy(c) for c in key], [[st(q2), [[sy(w), DIRC.get(dd, 3)] for w, dd in mv]] for q2, mv in res]])
        rows.append([st(q), r])
    body = [sorted(st(q) for q in d["states"]), sorted(sy(a) for a in d["input_symbols"]), [sy(a) for a in sy.syms],
            rows, st(d["initial_state"]), sy(d["blank_symbol"]), sorted(st(q) for q in d["final_states"])]
    return ([d["n_tapes"]] + body) if kind == "mntm" else body


def enc_raw(kind, d):
    if kind == "dfa":
        return enc_raw_dfa(d)
    if kind == "nfa":
        return enc_raw_nfa(d)
    if kind == "gnfa":
        return enc_raw_gnfa(d)
    if kind in ("dpda", "npda"):
        return enc_raw_pda(d, kind == "npda")
    return enc_raw_tm(d, kind)


def params_of(obj):
    """Constructor kwargs of an automaton object, containers as the object holds them (iteration order kept)."""
    return dict(obj.input_parameters)


# ================================================================ generators of valid definitions
def rand_gnfa_def(rng):
    sigma = rng.choice(["a", "ab", "ab"])
    n = rng.randint(0, 3)
    names, _ = gen.pick_names(rng, n + 2)
    init, final, inner = names[0], names[1], names[2:]
    labels = [l for l in GOOD_LABELS if all(c in sigma or c in "*|()?" for c in l)]
    targets = [final] + inner
    tr = {}
    order = [init] + inner
    rng.shuffle(order)
    for q in order:
        ts = list(targets)
        rng.shuffle(ts)
        tr[q] = {t: (None if rng.random() < 0.4 else rng.choice(labels)) for t in ts}
    if rng.random() < 0.3:
        tr[final] = {}
    return dict(states=set(names), input_symbols=set(sigma), transitions=tr, initial_state=init, final_state=final)


def rand_valid(rng, kind):
    if kind == "dfa":
        return gen.rand_dfa_def(rng, nmax=4)
    if kind == "nfa":
        return gen.rand_nfa_def(rng, nmax=4)
    if kind == "gnfa":
        return rand_gnfa_def(rng)
    if kind == "dpda":
        return c02.rand_dpda_def(rng, "rank")
    if kind == "npda":
        return c02.rand_npda_def(rng, "rank")
    md = tmlib.rand_table(rng, k=1 if kind != "mntm" else rng.choice([1, 2, 2, 3]), nondet=kind != "dtm")
    return {"dtm": tmlib.dtm_def, "ntm": tmlib.ntm_def, "mntm": tmlib.mntm_def}[kind](md)


# ================================================================ single-rule corruptions
# each: (rng, definition) -> corrupted definition or None when the rule does not apply to this definition
def _copy(d):
    c = dict(d)
    c["transitions"] = {q: dict(row) for q, row in d["transitions"].items()}
    return c


def _shuffled(rng, dct, extra_key, extra_val):
    items = list(dct.items()) + [(extra_key, extra_val)]
    rng.shuffle(items)
    return dict(items)


def _pick_row(rng, d, nonempty=True):
    rows = [q for q, row in d["transitions"].items() if row or not nonempty]
    return rng.choice(rows) if rows else None


def bad_state(rng, d):
    """A name that is not a state: the tuple, or a falsy / small value (0, '', (), frozenset(), False, -1) when the
    definition does not use it (a rule that tests truthiness instead of membership lets those through)."""
    used = _names(d["states"])
    cand = [x for x in (0, "", (), frozenset(), False, -1, 0.0) if x not in used]
    return rng.choice(cand) if cand and rng.random() < 0.5 else BAD_STATE


def c_bad_initial(rng, d):
    c = _copy(d)
    c["initial_state"] = bad_state(rng, d)
    return c


def c_bad_final(rng, d):
    c = _copy(d)
    c["final_states"] = set(d["final_states"]) | {bad_state(rng, d)}
    return c


def c_dfa_bad_end(rng, d):
    q = _pick_row(rng, d)
    if q is None:
        return None
    c = _copy(d)
    a = rng.choice(list(c["transitions"][q]))
    c["transitions"][q][a] = bad_state(rng, d)
    return c


def c_dfa_bad_symbol(rng, d):
    q = _pick_row(rng, d, nonempty=False)
    if q is None:
        return None
    c = _copy(d)
    # (the empty string is not a symbol of a DFA either: an empty-string move in a DFA row is an unknown symbol)
    c["transitions"][q] = _shuffled(rng, c["transitions"][q], rng.choice([BAD_SYM, ""]),
                                    rng.choice(sorted(d["states"], key=enc.sort_key)))
    return c


def c_dfa_missing_row(rng, d):
    if not d["transitions"]:
        return None
    c = _copy(d)
    del c["transitions"][rng.choice(list(c["transitions"]))]
    return c


def c_dfa_missing_symbol(rng, d):
    if d.get("allow_partial"):
        return None
    q = _pick_row(rng, d)
    if q is None:
        return None
    c = _copy(d)
    del c["transitions"][q][rng.choice(list(c["transitions"][q]))]
    return c


def c_nfa_bad_end(rng, d):
    cand = [(q, a) for q, row in d["transitions"].items() for a in row]
    if not cand:
        return None
    q, a = rng.choice(cand)
    c = _copy(d)
    c["transitions"][q][a] = set(c["transitions"][q][a]) | {bad_state(rng, d)}
    return c


def c_nfa_bad_symbol(rng, d):
    q = _pick_row(rng, d, nonempty=False)
    if q is None:
        return None
    c = _copy(d)
    c["transitions"][q] = _shuffled(rng, c["transitions"][q], BAD_SYM, {d["initial_state"]})
    return c


def c_initial_without_row(rng, d):
    if len(d["states"]) < 2 or d["initial_state"] not in d["transitions"]:
        return None
    c = _copy(d)
    del c["transitions"][d["initial_state"]]
    return c


def c_gnfa_bad_label(rng, d):
    cand = [(q, t) for q, row in d["transitions"].items() for t in row]
    if not cand:
        return None
    q, t = rng.choice(cand)
    c = _copy(d)
    c["transitions"][q][t] = rng.choice(BAD_LABELS)
    return c


def c_gnfa_bad_end(rng, d):
    q = _pick_row(rng, d)
    if q is None:
        return None
    c = _copy(d)
    c["transitions"][q] = _shuffled(rng, c["transitions"][q], BAD_STATE, rng.choice([None, "a"]))
    return c


def c_gnfa_bad_final(rng, d):
    c = _copy(d)
    c["final_state"] = BAD_STATE
    return c


def c_gnfa_final_with_row(rng, d):
    c = _copy(d)
    targets = [q for q in d["states"] if q != d["initial_state"]]
    c["transitions"][d["final_state"]] = {t: None for t in sorted(targets, key=enc.sort_key)}
    return c


def c_gnfa_missing_target(rng, d):
    q = _pick_row(rng, d)
    if q is None or q == d["final_state"]:
        return None
    c = _copy(d)
    del c["transitions"][q][rng.choice(list(c["transitions"][q]))]
    return c


def c_pda_bad_input(rng, d):
    q = _pick_row(rng, d, nonempty=False)
    if q is None:
        return None
    c = _copy(d)
    c["transitions"][q] = _shuffled(rng, c["transitions"][q], BAD_SYM, {})
    return c


def _c_pda_bad_stack(npda):
    def f(rng, d):
        cand = [(q, a) for q, row in d["transitions"].items() for a in row]
        if not cand:
            return None
        q, a = rng.choice(cand)
        c = _copy(d)
        mv = (d["initial_state"], "")
        c["transitions"][q][a] = _shuffled(rng, dict(c["transitions"][q][a]), BAD_SYM, {mv} if npda else mv)
        return c
    return f


def c_pda_bad_initial_stack(rng, d):
    c = _copy(d)
    c["initial_stack_symbol"] = BAD_SYM
    return c


def c_pda_bad_mode(rng, d):
    c = _copy(d)
    c["acceptance_mode"] = rng.choice(["foo", "final", "", "BOTH"])
    return c


def c_dpda_nondeterministic(rng, d):
    """Give some (state, top) both a symbol move and an empty-string move."""
    cand = [(q, a, z) for q, row in d["transitions"].items() for a, tops in row.items() for z in tops]
    if not cand:
        return None
    q, a, z = rng.choice(cand)
    c = _copy(d)
    row = {k: dict(v) for k, v in c["transitions"][q].items()}
    mv = (d["initial_state"], "")
    if a == "":
        b = rng.choice(sorted(d["input_symbols"]))
        tops = dict(row.get(b, {}))
        tops[z] = mv
        if b in row:
            row[b] = tops
        else:
            row = _shuffled(rng, row, b, tops)
    else:
        tops = dict(row.get("", {}))
        tops[z] = mv
        if "" in row:
            row[""] = tops
        else:
            row = _shuffled(rng, row, "", tops)
    c["transitions"][q] = row
    return c


def c_tm_input_not_subset(rng, d):
    c = _copy(d)
    c["input_symbols"] = set(d["input_symbols"]) | {BAD_SYM}
    return c


def c_tm_input_equals_tape(rng, d):
    c = _copy(d)
    c["input_symbols"] = set(d["tape_symbols"])
    return c


def c_tm_bad_blank(rng, d):
    c = _copy(d)
    c["blank_symbol"] = BAD_SYM
    return c


def _c_tm(kind, what):
    def wrap_key(s):
        return s

    def mk_result(d, q2, w, dr):
        n = d.get("n_tapes", 1)
        if kind == "dtm":
            return (q2, w, dr)
        if kind == "ntm":
            return {(q2, w, dr)}
        return [(q2, tuple((w, dr) for _ in range(n)))]

    def f(rng, d):
        n = d.get("n_tapes", 1)
        blank = d["blank_symbol"]
        some_state = d["initial_state"]
        c = _copy(d)
        tr = c["transitions"]
        good_key = blank if kind != "mntm" else tuple(blank for _ in range(n))
        if what == "row_of_unknown_state":
            c["transitions"] = _shuffled(rng, tr, BAD_STATE, {good_key: mk_result(d, some_state, blank, "R")})
            return c
        if what == "final_with_row":
            f0 = rng.choice(sorted(d["final_states"], key=enc.sort_key))
            c["transitions"] = _shuffled(rng, tr, f0, {good_key: mk_result(d, some_state, blank, "R")})
            return c
        q = _pick_row(rng, d, nonempty=False)
        if q is None:
            return None
        if what == "bad_read_symbol":
            key = BAD_SYM if kind != "mntm" else tuple(BAD_SYM if i == n - 1 else blank for i in range(n))
            tr[q] = _shuffled(rng, tr[q], key, mk_result(d, some_state, blank, "R"))
            return c
        if what == "key_wrong_tape_count":
            key = tuple(blank for _ in range(n + rng.choice([-1, 1]))) if n > 1 else (blank, blank)
            if key in tr[q]:
                return None
            tr[q] = _shuffled(rng, tr[q], key, mk_result(d, some_state, blank, "R"))
            return c
        # corruptions of one existing result
        cand = [(q1, key) for q1, row in tr.items() for key in row]
        if not cand:
            return None
        q1, key = rng.choice(cand)
        val = tr[q1][key]
        res = _tm_results(kind, val)
        i = rng.randrange(len(res))
        q2, mv = res[i]
        j = rng.randrange(len(mv)) if mv else 0
        if what == "bad_result_state":
            q2 = BAD_STATE
        elif what == "bad_result_symbol":
            mv = [(BAD_SYM if t == j else w, dr) for t, (w, dr) in enumerate(mv)]
        elif what == "bad_direction":
            mv = [(w, rng.choice(["X", "l", "", "LR"]) if t == j else dr) for t, (w, dr) in enumerate(mv)]
        elif what == "result_wrong_tape_count":
            mv = mv + [(blank, "N")] if rng.random() < 0.5 or len(mv) < 2 else mv[:-1]
        res[i] = (q2, mv)
        if kind == "dtm":
            new = (res[0][0], res[0][1][0][0], res[0][1][0][1])
        elif kind == "ntm":
            new = {(a, m[0][0], m[0][1]) for a, m in res}
        else:
            new = [(a, tuple(m)) for a, m in res]
        tr[q1][key] = new
        return c
    return f


def c_tm_initial_final(rng, d):
    c = _copy(d)
    c["final_states"] = set(d["final_states"]) | {d["initial_state"]}
    return c


def corruptions(kind):
    """name -> (function, documented exception class)."""
    if kind == "dfa":
        return {"bad_end_state": (c_dfa_bad_end, "InvalidStateError"), "bad_symbol": (c_dfa_bad_symbol, "InvalidSymbolError"),
                "missing_row": (c_dfa_missing_row, "MissingStateError"),
                "missing_symbol": (c_dfa_missing_symbol, "MissingSymbolError"),
                "bad_initial": (c_bad_initial, "InvalidStateError"), "bad_final": (c_bad_final, "InvalidStateError")}
    if kind == "nfa":
        return {"bad_end_state": (c_nfa_bad_end, "InvalidStateError"), "bad_symbol": (c_nfa_bad_symbol, "InvalidSymbolError"),
                "bad_initial": (c_bad_initial, "InvalidStateError"), "bad_final": (c_bad_final, "InvalidStateError"),
                "initial_without_row": (c_initial_without_row, "MissingStateError")}
    if kind == "gnfa":
        return {"bad_label": (c_gnfa_bad_label, "InvalidRegexError"), "bad_end_state": (c_gnfa_bad_end, "InvalidStateError"),
                "bad_initial": (c_bad_initial, "InvalidStateError"), "bad_final": (c_gnfa_bad_final, "InvalidStateError"),
                "initial_without_row": (c_initial_without_row, "MissingStateError"),
                "final_with_row": (c_gnfa_final_with_row, "InvalidStateError"),
                "missing_target": (c_gnfa_missing_target, "MissingStateError")}
    if kind in ("dpda", "npda"):
        t = {"bad_input_symbol": (c_pda_bad_input, "InvalidSymbolError"),
             "bad_stack_symbol": (_c_pda_bad_stack(kind == "npda"), "InvalidSymbolError"),
             "bad_initial": (c_bad_initial, "InvalidStateError"),
             "bad_initial_stack": (c_pda_bad_initial_stack, "InvalidSymbolError"),
             "bad_final": (c_bad_final, "InvalidStateError"), "bad_mode": (c_pda_bad_mode, "InvalidAcceptanceModeError")}
        if kind == "dpda":
            t["nondeterministic"] = (c_dpda_nondeterministic, "NondeterminismError")
        return t
    t = {"input_not_subset": (c_tm_input_not_subset, "MissingSymbolError"),
         "input_equals_tape": (c_tm_input_equals_tape, "MissingSymbolError"),
         "bad_blank": (c_tm_bad_blank, "InvalidSymbolError"),
         "row_of_unknown_state": (_c_tm(kind, "row_of_unknown_state"), "InvalidStateError"),
         "bad_read_symbol": (_c_tm(kind, "bad_read_symbol"), "InvalidSymbolError"),
         "bad_result_state": (_c_tm(kind, "bad_result_state"), "InvalidStateError"),
         "bad_result_symbol": (_c_tm(kind, "bad_result_symbol"), "InvalidSymbolError"),
         "bad_direction": (_c_tm(kind, "bad_direction"), "InvalidDirectionError"),
         "bad_initial": (c_bad_initial, "InvalidStateError"),
         "initial_without_row": (c_initial_without_row, "MissingStateError"),
         "bad_final": (c_bad_final, "InvalidStateError"),
         "final_with_row": (_c_tm(kind, "final_with_row"), "FinalStateError")}
    if kind == "mntm":
        t["key_wrong_tape_count"] = (_c_tm(kind, "key_wrong_tape_count"), "InconsistentTapesException")
        t["result_wrong_tape_count"] = (_c_tm(kind, "result_wrong_tape_count"), "InconsistentTapesException")
    return t


# corruptions that break a second rule as a side effect (documented kind is then not the expected outcome;
# only implementation == model is demanded): initial state final also means a final state with transitions
MULTI = {"initial_final": (c_tm_initial_final, None)}


# ================================================================ stream (a)
def ctor_outcome(kind, d):
    r = outcome(lambda: CLASSES[kind](**d))
    return ("ok",) if r[0] == "ok" else ("err", r[1], r[2])


def explicit_validate_outcome(kind, d):
    """validate() called on an object built with validation switched off (GNFA validates regardless)."""
    if kind == "gnfa":
        return None
    old = global_config.should_validate_automata
    global_config.should_validate_automata = False
    try:
        obj = CLASSES[kind](**d)
    finally:
        global_config.should_validate_automata = old
    r = outcome(obj.validate)
    return ("ok",) if r[0] == "ok" else ("err", r[1], r[2])


def check_defs(ctx, batch, expect_valid=True):
    """batch: list of (kind, definition, corruption names, documented code or None, tag); with no corruption name the
    definition is expected to be valid unless expect_valid is False (exhaustive families)."""
    items = [(19, OPS[kind], enc.tree(enc_raw(kind, d))) for kind, d, _, _, _ in batch]
    answers = ctx.driver.batch(items)
    for (kind, d, names, doc, tag), ans, item in zip(batch, answers, items):
        if ans == [0, enc.BAD_INPUT]:
            raise RuntimeError(f"driver rejected the encoding of {kind} {d!r}")
        m = enc.dec_res(ans[0])
        want = ("ok",) if m[0] == "ok" else ("err", m[1])
        got = ctor_outcome(kind, d)
        got2 = explicit_validate_outcome(kind, d)
        problems = []
        if (kind == "ntm" and len(names) > 1 and got[0] == "err" and want[0] == "err" and got[:2] != want
                and any(len(rs) > 1 for row in d["transitions"].values() if isinstance(row, dict)
                        for rs in row.values() if isinstance(rs, (set, frozenset)))):
            # two broken rules inside one NTM result SET: which one is met first is the set's iteration order, which
            # the model (a list in wire order) does not share; both refuse, and that is all that is compared
            ctx.tally("ntm:two rules broken in one result set (order of refusal not determined)")
            want = got[:2]
        if got[:2] != want:
            problems.append(f"constructor: {'accepted' if got[0] == 'ok' else 'raised ' + got[2]}; model validate: "
                            f"{'accepts' if m[0] == 'ok' else 'error kind %d' % m[1]}")
        if got2 is not None and got2[:2] != got[:2]:
            problems.append(f"explicit validate() {got2} differs from the constructor {got}")
        if len(names) == 1 and got[0] == "ok":
            problems.append(f"corrupted definition ({'+'.join(names)}) accepted silently")
        if doc is not None and got[0] == "err" and got[1] != doc:
            problems.append(f"rule {names[0]} is documented to raise code {doc}, constructor raised {got[2]} ({got[1]})")
        if doc is not None and m != ("err", doc):
            problems.append(f"model gives {m} for rule {names[0]}, documented code {doc}")
        if kind in ("dfa", "nfa") and not names and not expect_valid:
            # valid_dfa / valid_nfa of Spec/FA.v = duplicate-free keys (always, from Python dicts) and validate accepts
            if (ans[1] == 1) != (m[0] == "ok") or ans[2] != 1:
                problems.append(f"valid_{kind} = {ans[1]}, keys_ok = {ans[2]} but the model's validate gives {m}")
        if kind in ("dfa", "nfa") and not names and expect_valid:
            if ans[1] != 1 or ans[2] != 1:
                problems.append(f"valid_{kind}/keys_ok of the model = {ans[1:]} on an accepted definition")
        if kind == "dpda" and d["acceptance_mode"] in c02.MODES and ans[1] != ans[0]:
            problems.append(f"Model/PDA.v dpda_validate {ans[1]} differs from Model/Validate.v {ans[0]}")
        ctx.tally(f"{kind}:" + ("two rules broken" if len(names) > 1 else names[0] if names else "valid"))
        ctx.tally("outcome:" + (got[2] if got[0] == "err" else "accepted"))
        ctx.case((kind, item[2], tuple(names)), nontrivial=bool(names),
                 sample={"class": kind, "corruption": names, "def": repr(d),
                         "outcome": got[2] if got[0] == "err" else "accepted"} if names and ctx.rng.random() < 0.02 else None)
        if problems:
            confirmed = any(p.startswith("corrupted definition") or p.startswith("rule ") for p in problems) or \
                (not names and expect_valid and got[0] == "err")
            ctx.violation(f"{kind.upper()} validation: " + "; ".join(problems),
                          {"kind": "ctor", "class": kind, "def": repr(d), "corruptions": names, "documented": doc,
                           "problems": problems, "model": repr(ans), "tag": tag}, confirmed=confirmed)


def fixed_cases():
    """The library's own test fixtures for the rules, as (kind, definition, rule name, documented exception)."""
    dfa = dict(states={"q0", "q1"}, input_symbols={"0", "1"}, transitions={"q0": {"0": "q0", "1": "q1"}, "q1": {"0": "q0", "1": "q1"}},
               initial_state="q0", final_states={"q1"})
    out = [("dfa", dfa, [], None)]
    out.append(("dfa", dict(dfa, transitions={"q0": {"0": "q0", "1": "q1"}}), ["missing_row"], "MissingStateError"))
    out.append(("dfa", dict(dfa, transitions={"q0": {"0": "q0", "1": "q1"}, "q1": {"0": "q0"}}), ["missing_symbol"], "MissingSymbolError"))
    out.append(("dfa", dict(dfa, transitions={"q0": {"0": "q0", "1": "q1"}, "q1": {"0": "q0", "1": "q1", "2": "q0"}}), ["bad_symbol"], "InvalidSymbolError"))
    out.append(("dfa", dict(dfa, transitions={"q0": {"0": "q0", "1": "q3"}, "q1": {"0": "q0", "1": "q1"}}), ["bad_end_state"], "InvalidStateError"))
    out.append(("dfa", dict(dfa, final_states={3}), ["bad_final"], "InvalidStateError"))
    # a partial DFA may miss symbols and rows' symbols, never rows
    out.append(("dfa", dict(dfa, transitions={"q0": {"1": "q1"}, "q1": {}}, allow_partial=True), [], None))
    out.append(("dfa", dict(dfa, transitions={"q0": {"1": "q1"}}, allow_partial=True), ["missing_row"], "MissingStateError"))
    nfa = dict(states={"q0"}, input_symbols={"a"}, transitions={"q0": {"a": {"q0"}}}, initial_state="q0", final_states={"q0"})
    out.append(("nfa", nfa, [], None))
    out.append(("nfa", dict(nfa, transitions={}), [], None))     # one state: the initial state needs no row
    out.append(("nfa", dict(nfa, states={"q0", "q1"}, transitions={}, final_states={"q1"}), ["initial_without_row"], "MissingStateError"))
    out.append(("nfa", dict(nfa, states={"q0", "q1"}, transitions={"q1": {}}, final_states={"q1"}), ["initial_without_row"], "MissingStateError"))
    out.append(("nfa", dict(nfa, transitions={"q0": {"b": {"q0"}}}), ["bad_symbol"], "InvalidSymbolError"))
    out.append(("nfa", dict(nfa, transitions={"q0": {"a": {"q1"}}}), ["bad_end_state"], "InvalidStateError"))
    out.append(("nfa", dict(nfa, transitions={"q0": {"": {"q0"}, "a": set()}}), [], None))
    g = dict(states={"q_in", "q_f", "q0", "q1", "q2"}, input_symbols={"a", "b"},
             transitions={"q0": {"q1": "a", "q_f": None, "q2": None, "q0": None}, "q1": {"q1": "a", "q2": "", "q_f": "", "q0": None},
                          "q2": {"q0": "b", "q_f": None, "q2": None, "q1": None}, "q_in": {"q0": "", "q_f": None, "q2": None, "q1": None}},
             initial_state="q_in", final_state="q_f")
    out.append(("gnfa", g, [], None))
    t = dict(g["transitions"])
    out.append(("gnfa", dict(g, transitions=dict(t, q0={"q1": "c", "q_f": None, "q2": None, "q0": None})), ["bad_label"], "InvalidRegexError"))
    out.append(("gnfa", dict(g, transitions=dict(t, q1={"q2": "", "q_f": "", "q0": None})), ["missing_target"], "MissingStateError"))
    out.append(("gnfa", dict(g, transitions=dict(t, q_f={"q0": "", "q_f": None, "q2": None, "q1": None})), ["final_with_row"], "InvalidStateError"))
    return out


def stream_a(ctx):
    rng = ctx.rng
    batch = []
    for kind, d, names, exc in fixed_cases():
        batch.append((kind, d, names, DOC[exc] if exc else None, "fixture"))
    n = ctx.n(500, 4000)
    for kind in CLASSES:
        table = corruptions(kind)
        for i in range(n):
            d = rand_valid(rng, kind)
            batch.append((kind, d, [], None, "random-valid"))
            for name, (fn, exc) in table.items():
                c = fn(rng, d)
                if c is not None:
                    batch.append((kind, c, [name], DOC[exc], "single"))
            if kind in ("dtm", "ntm", "mntm"):
                batch.append((kind, c_tm_initial_final(rng, d), ["initial_final"], None, "multi"))
            # two rules broken: only the order (first broken rule) is compared
            for _ in range(3):
                (n1, (f1, _e1)), (n2, (f2, _e2)) = rng.sample(sorted(table.items()), 2)
                c = f1(rng, d)
                c = f2(rng, c) if c is not None else None
                if c is not None:
                    batch.append((kind, c, [n1, n2], None, "double"))
        if len(batch) > 1500:
            check_defs(ctx, batch)
            batch = []
    check_defs(ctx, batch)


# ================================================================ known finding: stray transition row
def stray_row(ctx):
    k = next((k for k in ctx.known if k["id"] == "validate_accepts_stray_transition_row" and k["status"] == "open"), None)
    d = dict(states={0}, input_symbols={"a"}, transitions={0: {}, 5: {"a": {0}}}, initial_state=0, final_states={0})
    acc = ctor_outcome("nfa", d)
    rev = outcome(lambda: NFA(**d).reverse()) if acc[0] == "ok" else None
    still = acc[0] == "ok" and rev[0] == "err" and rev[2] == "InvalidStateError"
    ctx.case(("nfa", "stray-row"), True, {"class": "nfa", "def": repr(d), "ctor": acc, "reverse": repr(rev)})
    if still:
        if k is not None:
            ctx.report_known(k)
        else:
            ctx.violation("NFA.validate() accepts a transition row keyed by a name outside `states`; reverse() then raises "
                          "InvalidStateError", {"kind": "stray", "def": repr(d)})
    else:
        ctx.notes.append(f"stray-row reproducer no longer fails as recorded: ctor {acc}, reverse {rev}")


# ================================================================ known finding: GNFA edge into the initial state
def gnfa_into_initial(ctx):
    """The class docstring of GNFA says the initial state has no incoming transitions; validate() does not check it
    (a row only has to cover states - {initial}); to_regex() on such a definition raises KeyError.  The model mirrors
    the acceptance (C19_example_gnfa); the comparison with the model runs through check_defs."""
    k = next((k for k in ctx.known if k["id"] == "gnfa_validate_accepts_edge_into_initial_state" and k["status"] == "open"), None)
    d = dict(states={0, 1, 2}, input_symbols={"a"},
             transitions={0: {1: "a", 2: None}, 1: {1: "a", 2: "a", 0: "a"}}, initial_state=0, final_state=2)
    acc = ctor_outcome("gnfa", d)
    rx = outcome(lambda: GNFA(**d).to_regex()) if acc[0] == "ok" else None
    still = acc[0] == "ok" and rx[0] == "err" and rx[2] == "KeyError"
    ctx.case(("gnfa", "into-initial"), True, {"class": "gnfa", "def": repr(d), "ctor": acc, "to_regex": repr(rx)})
    check_defs(ctx, [("gnfa", d, [], None, "into-initial")])
    if still:
        if k is not None:
            ctx.report_known(k)
        else:
            ctx.violation("GNFA.validate() accepts a transition into the initial state (class docstring: none come in); "
                          "to_regex() then raises KeyError", {"kind": "gnfa-into-initial", "def": repr(d)})
    else:
        ctx.notes.append(f"gnfa-into-initial reproducer no longer fails as recorded: ctor {acc}, to_regex {rx}")


# ================================================================ battery (streams b-d), run in a worker process
WORDS_LEN = 5
# exceptions an operation documents for valid operands
ALLOWED = {
    "cardinality": {"InfiniteLanguageException"}, "len": {"InfiniteLanguageException"},
    "minimum_word_length": {"EmptyLanguageException"}, "maximum_word_length": {"EmptyLanguageException"},
    "predecessor": {"InfiniteLanguageException"}, "predecessors": {"InfiniteLanguageException"},
    "random_word": {"ValueError"},
}
# defects of the unchanged code that belong to other properties (DESIGN section 8): (operation prefix, exception) -> owner
OTHER = {
    ("left_quotient", "MissingStateError"): "C08", ("iter", "EmptyLanguageException"): "C13",
    ("predecessor", "UnboundLocalError"): "C14", ("predecessors", "UnboundLocalError"): "C14",
    ("read_input_as_ntm", "MalformedExtendedTapeError"): "C17",
}


def lang_bits(a, sigma):
    return "".join("1" if a.accepts_input(w) else "0" for w in gen.all_words(sorted(sigma), WORDS_LEN))


class Battery:
    def __init__(self, out):
        self.out = out
        self.cid = ""

    def emit(self, op, obs, trees=(), problems=(), filtered=None, auto=False):
        rec = {"id": f"{self.cid}/{op}", "obs": obs}
        if trees:
            rec["trees"] = trees
        if problems:
            rec["problems"] = list(problems)
        if filtered:
            rec["filtered"] = filtered
        if auto:
            rec["auto"] = True
        self.out.write(json.dumps(rec, sort_keys=True, default=repr) + "\n")

    def op(self, name, fn, sigma=None, base=None):
        """Run one operation; observe its result; re-validate automata; classify exceptions."""
        base = base or name.split(":")[0]
        try:
            r = fn()
        except BaseException as e:  # noqa: BLE001
            if isinstance(e, (KeyboardInterrupt, SystemExit, MemoryError)):
                raise
            tn = type(e).__name__
            if tn in ALLOWED.get(base, ()):
                return self.emit(name, ["exc", tn])
            if (base, tn) in OTHER:
                return self.emit(name, ["exc", tn], filtered=OTHER[(base, tn)])
            return self.emit(name, ["exc", tn], problems=[f"undocumented {tn}: {e}"])
        if isinstance(r, (DFA, NFA, GNFA)):
            problems, trees = [], []
            kind = "gnfa" if isinstance(r, GNFA) else "dfa" if isinstance(r, DFA) else "nfa"
            v = outcome(r.validate)
            if v[0] != "ok" and (base, v[2]) in OTHER:
                # the same defect seen with validation switched off: the invalid result is returned instead of raised
                return self.emit(name, ["invalid-result", v[2]], filtered=OTHER[(base, v[2])])
            if v[0] != "ok":
                problems.append(f"result fails validate(): {v[2]}")
            try:
                trees.append([OPS[kind], enc.tree(enc_raw(kind, params_of(r)))])
            except Exception as e:  # noqa: BLE001
                problems.append(f"result cannot be encoded: {e!r}")
            if kind == "gnfa":
                obs = ["gnfa", len(r.states)]
            else:
                obs = [kind, len(r.states), lang_bits(r, sigma if sigma is not None else r.input_symbols)]
            return self.emit(name, obs, trees=trees, problems=problems, auto=True)
        if hasattr(r, "__next__"):
            r = list(itertools.islice(r, 12))
        if isinstance(r, (set, frozenset)):
            r = sorted(r, key=enc.sort_key)
        return self.emit(name, ["val", repr(r)])


def rand_regex(rng, sigma, depth=3):
    if depth == 0 or rng.random() < 0.25:
        return rng.choice(list(sigma))
    r = rng.random()
    a = rand_regex(rng, sigma, depth - 1)
    if r < 0.3:
        return a + rand_regex(rng, sigma, depth - 1)
    if r < 0.5:
        return "(" + a + "|" + rand_regex(rng, sigma, depth - 1) + ")"
    if r < 0.62:
        return "(" + a + ")*"
    if r < 0.7:
        return "(" + a + ")?"
    if r < 0.76:
        return "(" + a + ")+"
    if r < 0.82:
        return "(" + a + "&" + rand_regex(rng, sigma, depth - 1) + ")"
    if r < 0.86:
        return "(" + a + "^" + rand_regex(rng, sigma, depth - 1) + ")"
    if r < 0.93:
        lo = rng.randint(0, 2)
        return "(" + a + "){" + str(lo) + "," + str(lo + rng.randint(0, 2) if lo + 0 else rng.randint(1, 2)) + "}"
    return "(" + a + ")"


def reads(b, name, obj, words, budget=None):
    """accepts_input on every word: acceptance, RejectionException, nothing else."""
    obs = []
    problems = []
    for w in words:
        if budget is None:
            r = outcome(lambda: obj.read_input(w))
            if r[0] == "ok":
                obs.append("1")
            elif r[2] == "RejectionException":
                obs.append("0")
            else:
                obs.append("!")
                problems.append(f"read_input({w!r}) raised {r[2]}")
        else:
            # nondeterministic readers yield sets of configurations: stop when a level gets large
            items, o = tmlib.consume(obj.read_input_stepwise(w), budget,
                                     stop=lambda y: isinstance(y, (set, frozenset)) and len(y) > 150)
            if o[0] == "ok":
                obs.append("1")
            elif o[0] in ("limit", "stop"):
                obs.append("?")
            elif o[2] == "RejectionException":
                obs.append("0")
            else:
                obs.append("!")
                problems.append(f"read_input_stepwise({w!r}) raised {o[2]}")
    b.emit(name, ["reads", "".join(obs)], problems=problems)


def battery_case(b, rng, i):
    b.cid = f"fa{i}"
    sigma = gen.rand_alphabet(rng, maxk=2 if i % 3 else 3)
    kindA = rng.choice(list(gen.NAME_POOLS))
    namesA, _ = gen.pick_names(rng, 5, kindA)
    dA = gen.rand_dfa_def(rng, nmax=5, alphabet=sigma, names=namesA)
    dB = gen.rand_dfa_def(rng, nmax=4, alphabet=sigma)
    dN = gen.rand_nfa_def(rng, nmax=4, alphabet=sigma)
    dM = gen.rand_nfa_def(rng, nmax=3, alphabet=sigma)
    A, B, N, M = DFA(**dA), DFA(**dB), NFA(**dN), NFA(**dM)
    S = set(sigma)
    words = [gen.rand_word(rng, sigma, 6, p_foreign=0.1 if j % 3 == 0 else 0.0) for j in range(8)]
    for nm, o in (("A", A), ("B", B), ("N", N), ("M", M)):
        reads(b, "read:" + nm, o, words)
        b.op("copy:" + nm, o.copy, S)
    for nm, f in (("union", A.union), ("intersection", A.intersection), ("difference", A.difference),
                  ("symmetric_difference", A.symmetric_difference)):
        b.op(nm, lambda: f(B), S)
        b.op(nm + ":raw", lambda: f(B, retain_names=True, minify=False), S)
    b.op("complement", A.complement, S)
    b.op("complement:raw", lambda: A.complement(retain_names=True, minify=False), S)
    b.op("minify", A.minify, S)
    b.op("minify:names", lambda: A.minify(retain_names=True), S)
    b.op("to_partial", A.to_partial, S)
    b.op("to_partial:raw", lambda: A.to_partial(retain_names=True, minify=False), S)
    b.op("to_complete", A.to_complete, S)
    for nm, f in (("eq", lambda: A == B), ("le", lambda: A <= B), ("lt", lambda: A < B), ("ge", lambda: A >= B),
                  ("isdisjoint", lambda: A.isdisjoint(B)), ("isempty", A.isempty), ("isfinite", A.isfinite),
                  ("cardinality", A.cardinality), ("len", lambda: len(A)),
                  ("minimum_word_length", A.minimum_word_length), ("maximum_word_length", A.maximum_word_length),
                  ("count_words_of_length", lambda: A.count_words_of_length(3)),
                  ("words_of_length", lambda: list(A.words_of_length(2))),
                  ("iter", lambda: list(itertools.islice(iter(A), 10))),
                  ("random_word", lambda: A.random_word(3, seed=7)),
                  # max_length: without it the lexicographic successor need not exist (a*b has no least word) and the search never ends
                  ("successor", lambda: A.successor(words[1].replace("#", "").replace("Z", ""), max_length=6)),
                  ("successors", lambda: list(itertools.islice(A.successors(None, strict=False, max_length=5), 8))),
                  ("predecessor", lambda: A.predecessor(sigma[0] * 3, max_length=6)),
                  ("predecessors", lambda: list(itertools.islice(A.predecessors(sigma[-1] * 3, max_length=5), 8)))):
        b.op(nm, f)
    b.op("NFA.from_dfa", lambda: NFA.from_dfa(A), S)
    b.op("DFA.from_nfa", lambda: DFA.from_nfa(N), S)
    b.op("DFA.from_nfa:raw", lambda: DFA.from_nfa(N, retain_names=True, minify=False), S)
    b.op("eliminate_lambda", N.eliminate_lambda, S)
    b.op("GNFA.from_dfa", lambda: GNFA.from_dfa(A), S)
    b.op("GNFA.from_nfa", lambda: GNFA.from_nfa(N), S)
    # the string itself depends on set iteration order (and is C12's business): only "returned / raised what"
    b.op("to_regex:dfa", lambda: type(GNFA.from_dfa(A).to_regex()).__name__)
    b.op("to_regex:nfa", lambda: type(GNFA.from_nfa(N).to_regex()).__name__)
    for nm, f in (("union", lambda: N.union(M)), ("concatenate", lambda: N.concatenate(M)), ("kleene_star", N.kleene_star),
                  ("option", N.option), ("reverse", N.reverse), ("intersection", lambda: N.intersection(M)),
                  ("shuffle_product", lambda: N.shuffle_product(M)), ("right_quotient", lambda: N.right_quotient(M)),
                  ("left_quotient", lambda: N.left_quotient(M))):
        b.op("nfa_" + nm, f, S, base=nm)
    b.op("nfa_eq", lambda: N == M)
    rx = rand_regex(rng, sigma)
    b.op("from_regex", lambda: NFA.from_regex(rx, input_symbols=S), S)
    pat = gen.rand_word(rng, sigma, 3) or sigma[0]
    k = rng.randint(1, 3)
    for nm, f in (("from_prefix", lambda: DFA.from_prefix(S, pat)), ("from_suffix", lambda: DFA.from_suffix(S, pat)),
                  ("from_substring", lambda: DFA.from_substring(S, pat)), ("from_subsequence", lambda: DFA.from_subsequence(S, pat)),
                  ("from_prefix:not", lambda: DFA.from_prefix(S, pat, contains=False)),
                  ("from_substrings", lambda: DFA.from_substrings(S, {pat, sigma[0] * 2})),
                  ("of_length", lambda: DFA.of_length(S, min_length=k - 1, max_length=k + 1)),
                  ("count_mod", lambda: DFA.count_mod(S, k + 1, remainders={0})),
                  ("nth_from_start", lambda: DFA.nth_from_start(S, sigma[0], k)),
                  ("nth_from_end", lambda: DFA.nth_from_end(S, sigma[0], k)),
                  ("universal_language", lambda: DFA.universal_language(S)),
                  ("empty_language", lambda: DFA.empty_language(S)),
                  ("from_finite_language", lambda: DFA.from_finite_language(S, {pat, pat + sigma[0], ""})),
                  ("edit_distance", lambda: NFA.edit_distance(S, pat, 1))):
        b.op("ctor_" + nm, f, S)
    # ---- pushdown automata (empty-string moves climb a state ranking: every run ends)
    b.cid = f"pda{i}"
    dd = c02.rand_dpda_def(rng, "rank")
    dn = c02.rand_npda_def(rng, "rank")
    pwords = [""] + [gen.rand_word(rng, sorted(dd["input_symbols"]), 4) for _ in range(5)]
    reads(b, "read:dpda", DPDA(**dd), pwords, budget=200)
    reads(b, "read:dpda_as_npda", NPDA(**c02.npda_def_of(dd)), pwords, budget=200)
    nwords = [""] + [gen.rand_word(rng, sorted(dn["input_symbols"]), 4, p_foreign=0.1) for _ in range(5)]
    reads(b, "read:npda", NPDA(**dn), nwords, budget=60)
    # ---- Turing machines under a step budget
    b.cid = f"tm{i}"
    md = tmlib.rand_table(rng, k=1, nondet=False)
    tw = tmlib.rand_words(rng, md, 5, maxlen=4)
    reads(b, "read:dtm", DTM(**tmlib.dtm_def(md)), tw, budget=60)
    reads(b, "read:dtm_as_ntm", NTM(**tmlib.ntm_def(md)), tw, budget=60)
    md2 = tmlib.rand_table(rng, k=1, nondet=True)
    reads(b, "read:ntm", NTM(**tmlib.ntm_def(md2)), tmlib.rand_words(rng, md2, 4, maxlen=4), budget=20)
    md3 = tmlib.rand_table(rng, k=rng.choice([1, 2, 2, 3]), nondet=rng.random() < 0.5)
    mw = tmlib.rand_words(rng, md3, 4, maxlen=3)
    mn = MNTM(**tmlib.mntm_def(md3))
    reads(b, "read:mntm", mn, mw, budget=60)
    obs = []
    for w in mw:
        items, o = tmlib.consume(mn.read_input_as_ntm(w), 30, stop=lambda y: len(y) > 150)
        obs.append("1" if o[0] == "ok" else "?" if o[0] in ("limit", "stop") else "0" if o[2] == "RejectionException" else "!" + o[2])
    bad = sorted({x[1:] for x in obs if x.startswith("!")})
    if not bad:
        b.emit("read_input_as_ntm", ["reads", "".join(obs)])
    elif all(("read_input_as_ntm", x) in OTHER for x in bad):
        b.emit("read_input_as_ntm", ["reads-filtered"], filtered="C17")
    else:
        b.emit("read_input_as_ntm", ["reads", "".join(obs)], problems=[f"read_input_as_ntm raised {bad}"])
    # ---- a few corrupted definitions: the kind raised by the constructor, or by validate() when validation is off
    b.cid = f"bad{i}"
    for kind in ("dfa", "nfa", "dpda", "npda", "dtm", "ntm", "mntm", "gnfa"):
        d = rand_valid(rng, kind)
        table = corruptions(kind)
        name = rng.choice(sorted(table))
        c = table[name][0](rng, d)
        if c is None:
            continue
        r = outcome(lambda: CLASSES[kind](**c))
        if r[0] == "ok":
            obj = r[1]
            silently = True
            r = outcome(obj.validate)
        else:
            silently = False
        problems = []
        if silently and (global_config.should_validate_automata or kind == "gnfa"):
            problems.append(f"corrupted {kind} ({name}) accepted although validation is on")
        if not silently and not global_config.should_validate_automata and kind != "gnfa":
            problems.append(f"constructor of {kind} validated although should_validate_automata is off")
        b.emit(f"{kind}:{name}", ["kind", r[2] if r[0] == "err" else "accepted"], problems=problems)


def _alarm(signum, frame):
    raise TimeoutError("battery case exceeded its wall-clock allowance")


def worker(seed, n):
    import signal
    out = sys.stdout
    b = Battery(out)
    signal.signal(signal.SIGALRM, _alarm)
    for i in range(n):
        rng = random.Random(seed * 7919 + i)
        try:
            signal.alarm(120)        # a run-away case must not hang the check
            battery_case(b, rng, i)
            signal.alarm(0)
        except BaseException as e:  # noqa: BLE001
            if isinstance(e, (KeyboardInterrupt, SystemExit, MemoryError)):
                raise
            import traceback
            b.emit("case-aborted", ["aborted", type(e).__name__],
                   problems=["battery case aborted: " + traceback.format_exc().splitlines()[-1] + " | " +
                             " <- ".join(l.strip() for l in traceback.format_exc().splitlines()[-6:-1:2])])
    out.flush()


FLAG_SETS = ("10", "11", "00", "01")   # should_validate_automata, allow_mutable_automata ("10" is the default)


def spawn_batteries(ctx, n):
    import tempfile
    procs = {}
    for fl in FLAG_SETS:
        env = dict(os.environ, C19_FLAGS=fl, PYTHONHASHSEED="0")
        out = tempfile.TemporaryFile(mode="w+")      # a file, not a pipe: the four processes must not block on a full pipe
        err = tempfile.TemporaryFile(mode="w+")
        p = subprocess.Popen([sys.executable, "-B", os.path.abspath(__file__), "worker", str(ctx.seed), str(n)],
                             stdout=out, stderr=err, text=True, env=env)
        procs[fl] = (p, out, err)
    return procs


def collect_batteries(ctx, procs, n):
    outs = {}
    for fl, (p, out, err) in procs.items():
        p.wait(timeout=3000)
        out.seek(0)
        err.seek(0)
        so, se = out.read(), err.read()
        out.close()
        err.close()
        if p.returncode != 0:
            raise RuntimeError(f"battery process for flags {fl} failed: {se[-800:]}")
        outs[fl] = [json.loads(l) for l in so.splitlines() if l.strip()]
    base = outs["10"]
    # (b), (c): problems found inside a process
    tree_items, tree_owner = [], []
    reported = set()
    for fl, recs in outs.items():
        for r in recs:
            if r.get("filtered"):
                ctx.tally(f"filtered_defect_of_{r['filtered']}")
            for p in r.get("problems", ()):
                key = (r["id"].split("/")[1], p.split(":")[0])
                if key in reported:
                    ctx.tally("further_cases_of_reported_problem")
                    continue
                reported.add(key)
                ctx.violation(f"flags validate={fl[0]} mutable={fl[1]}: {r['id']}: {p}",
                              {"kind": "battery", "flags": fl, "id": r["id"], "n": n, "problem": p, "obs": r["obs"]})
            for t in r.get("trees", ()):
                tree_items.append((19, t[0], t[1]))
                tree_owner.append((fl, r["id"]))
    # (c) through the model: every returned automaton is valid for the model's validate / valid_dfa / valid_nfa
    uniq = sorted(set(tree_items))          # the four processes mostly return the same automata
    memo = dict(zip(uniq, ctx.driver.batch(uniq)))
    for (fl, rid), it in zip(tree_owner, tree_items):
        ans = memo[it]
        ok = ans != [0, enc.BAD_INPUT] and ans[0][0] == 1 and (it[1] == 3 or (ans[1] == 1 and ans[2] == 1))
        ctx.tally("result_revalidated_by_model")
        if not ok:
            key = (rid.split("/")[1], "model-invalid")
            if key in reported:
                continue
            reported.add(key)
            ctx.violation(f"flags validate={fl[0]} mutable={fl[1]}: result of {rid} is not a valid automaton for the model: {ans}",
                          {"kind": "battery", "flags": fl, "id": rid, "n": n, "tree": it[2], "model": repr(ans)})
    # (d): the four processes observed the same things
    for fl in FLAG_SETS[1:]:
        other = outs[fl]
        if [r["id"] for r in other] != [r["id"] for r in base]:
            ctx.violation(f"battery under flags {fl} ran different operations than under the defaults",
                          {"kind": "battery-shape", "flags": fl, "n": n}, confirmed=False)
            continue
        for r0, r1 in zip(base, other):
            if r0.get("filtered") or r1.get("filtered"):
                continue
            if r0["obs"] != r1["obs"]:
                key = (r0["id"].split("/")[1], "flags")
                if key in reported:
                    ctx.tally("further_cases_of_reported_problem")
                    continue
                reported.add(key)
                ctx.violation(f"{r0['id']}: result depends on the global options: defaults give {str(r0['obs'])[:200]}, "
                              f"validate={fl[0]} mutable={fl[1]} gives {str(r1['obs'])[:200]}",
                              {"kind": "battery", "flags": fl, "id": r0["id"], "n": n, "default": r0["obs"], "other": r1["obs"]})
    for r in base:
        opname = r["id"].split("/")[1]
        ctx.tally("battery_op_" + opname.split(":")[0])
        ctx.case(("battery", r["id"], json.dumps(r["obs"])), nontrivial=bool(r.get("auto")),
                 sample={"battery": r["id"], "obs": str(r["obs"])[:160]} if ctx.rng.random() < 0.002 else None)
        for fl in FLAG_SETS[1:]:
            ctx.evaluations += 1
            ctx.validated += 1
    ctx.tally("battery_cases_per_process", n)
    ctx.tally("processes", len(FLAG_SETS))


# ================================================================ entry points
def exhaustive(ctx):
    """Every DFA / NFA definition of a small finite family (valid and malformed ones alike): constructor vs model."""
    batch = []
    drows = [None, {}, {"a": 0}, {"a": 1}, {"a": 9}, {"b": 0}, {"a": 0, "b": 0}, {"b": 0, "a": 9}]
    nrows = [None, {}, {"a": {0}}, {"a": {1}}, {"a": {0, 1}}, {"a": {9}}, {"": {1}}, {"b": {0}}, {"a": set()}, {"b": {0}, "a": {9}}]
    finals = [set(), {0}, {1}, {0, 1}, {9}, {0, 9}]
    nd = nn = 0
    for r0, r1 in itertools.product(drows, repeat=2):
        tr = {q: dict(r) for q, r in ((0, r0), (1, r1)) if r is not None}
        for init, fin, partial in itertools.product([0, 1, 9], finals, [False, True]):
            batch.append(("dfa", dict(states={0, 1}, input_symbols={"a"}, transitions=tr, initial_state=init,
                                      final_states=set(fin), allow_partial=partial), [], None, "exhaustive"))
            nd += 1
    for r0, r1 in itertools.product(nrows, repeat=2):
        tr = {q: {a: set(t) for a, t in r.items()} for q, r in ((0, r0), (1, r1)) if r is not None}
        for init, fin in itertools.product([0, 1, 9], finals):
            batch.append(("nfa", dict(states={0, 1}, input_symbols={"a"}, transitions=tr, initial_state=init,
                                      final_states=set(fin)), [], None, "exhaustive"))
            nn += 1
    check_defs(ctx, batch, expect_valid=False)
    ctx.exhaustive = True
    ctx.exhaustive_scope = (f"constructor outcome = model validate on all {nd} DFA definitions over states {{0,1}}, alphabet {{a}} with each "
                            "row absent or one of {}, {a:0}, {a:1}, {a:9}, {b:0}, {a:0,b:0}, {b:0,a:9}, initial state in {0,1,9}, final "
                            f"states in {{}},{{0}},{{1}},{{0,1}},{{9}},{{0,9}}, complete and partial; and on all {nn} NFA definitions with each row "
                            "absent or one of {}, {a:{0}}, {a:{1}}, {a:{0,1}}, {a:{9}}, {'':{1}}, {b:{0}}, {a:{}}, {b:{0},a:{9}} and the same "
                            "initial / final choices (the random streams and the battery are not exhaustive)")


def run(ctx):
    ctx.rule = RULE
    n = ctx.n(600, 6000)
    procs = spawn_batteries(ctx, n)
    try:
        stray_row(ctx)
        gnfa_into_initial(ctx)
        stream_a(ctx)
        if ctx.tier == "thorough":
            exhaustive(ctx)
    finally:
        collect_batteries(ctx, procs, n)


def replay(ctx, case):
    kind = case.get("kind")
    if kind == "ctor":
        d = load_def(case["def"])
        cls = case["class"]
        print("constructor:", ctor_outcome(cls, d))
        print("explicit validate():", explicit_validate_outcome(cls, d))
        check_defs(ctx, [(cls, d, case.get("corruptions") or [], case.get("documented"), "replay")])
    elif kind == "battery":
        seen = {}
        for fl in ("10", case["flags"]):
            env = dict(os.environ, C19_FLAGS=fl, PYTHONHASHSEED="0")
            p = subprocess.run([sys.executable, "-B", os.path.abspath(__file__), "worker", str(case["seed"]), str(case["n"])],
                               capture_output=True, text=True, env=env)
            for l in p.stdout.splitlines():
                r = json.loads(l)
                if r["id"] == case["id"]:
                    print(f"flags validate={fl[0]} mutable={fl[1]}:", l[:700])
                    seen[fl] = r["obs"]
                    if r.get("problems"):
                        ctx.violations.append("replayed")
            if p.returncode:
                print(p.stderr[-600:])
        if len({json.dumps(v) for v in seen.values()}) > 1:
            print("the observation depends on the global options")
            ctx.violations.append("replayed")
    elif kind == "stray":
        stray_row(ctx)
    elif kind == "gnfa-into-initial":
        gnfa_into_initial(ctx)
    else:
        print("nothing to replay for kind", kind)
    print("replay:", "VIOLATION reproduced" if ctx.violations else "no disagreement")


if __name__ == "__main__" and len(sys.argv) >= 4 and sys.argv[1] == "worker":
    worker(int(sys.argv[2]), int(sys.argv[3]))
