"""C16 - edit-distance NFA (correspondence half).

NFA.edit_distance of /repo vs the model's grid NFA (language equality decided by the verified
subset-construction comparator, validity of both) and, word by word, vs an independent
dynamic-programming oracle written here."""
from __future__ import annotations

import itertools

import enc
from props.common import outcome

RULE = ("every reference word up to a length over an alphabet x every bound k x every non-empty subset of "
        "{insertion, deletion, substitution}: implementation NFA vs model NFA (language equality, validity), and the "
        "verdicts of implementation, model and a DP oracle on every word up to a length (plus words with a foreign "
        "symbol); refusal cases (negative bound, no kind, reference symbol outside the alphabet). distinct = distinct "
        "(alphabet, reference, k, kinds); non-trivial = reference non-empty and k >= 1")

KINDS = [(i, d, s) for i in (True, False) for d in (True, False) for s in (True, False) if i or d or s]
INF = 10 ** 9
BUDGET = 60000


def oracle_cost(sigma, ref, w, ins, dele, sub):
    """Cheapest derivation of w from ref with the enabled kinds (classic DP table)."""
    n, m = len(ref), len(w)
    D = [[INF] * (m + 1) for _ in range(n + 1)]
    D[0][0] = 0
    for i in range(n + 1):
        for j in range(m + 1):
            if i == 0 and j == 0:
                continue
            best = INF
            if i > 0 and j > 0 and ref[i - 1] == w[j - 1]:
                best = min(best, D[i - 1][j - 1])
            if ins and j > 0 and w[j - 1] in sigma:
                best = min(best, D[i][j - 1] + 1)
            if dele and i > 0:
                best = min(best, D[i - 1][j] + 1)
            if sub and i > 0 and j > 0 and w[j - 1] in sigma:
                best = min(best, D[i - 1][j - 1] + 1)
            D[i][j] = best
    return D[n][m]


def enc_int(k):
    return [0, k] if k >= 0 else [1, -k]


def words_for(sigma, maxlen, foreign="#"):
    ws = ["".join(t) for n in range(maxlen + 1) for t in itertools.product(sigma, repeat=n)]
    # a few words with a symbol outside the alphabet
    if not sigma:
        return ws, [foreign, foreign * 2]
    extra = [foreign, sigma[0] + foreign, foreign + sigma[0], sigma[0] * 2 + foreign + sigma[-1]]
    return ws, extra


def check_batch(ctx, cases, maxlen, tag):
    """cases: list of (sigma, ref, k, (ins, del, sub))."""
    from automata.fa.nfa import NFA
    items, metas = [], []
    for sigma, ref, k, (ins, dele, sub) in cases:
        res = outcome(lambda: NFA.edit_distance(set(sigma), ref, k, insertion=ins, deletion=dele, substitution=sub))
        ws, extra = words_for(sigma, maxlen)
        sy = enc.SymMap(sigma, ref + "#")
        if res[0] == "ok":
            m = res[1]
            st = enc.Renum(enc.nfa_names(m))
            t = [[sy(a) for a in sigma], sy.word(ref), enc_int(k), ins, dele, sub, enc.enc_nfa(m, st, sy),
                 [sy.word(w) for w in ws + extra], BUDGET]
            items.append((16, 2, enc.tree(t)))
        else:
            t = [[sy(a) for a in sigma], sy.word(ref), enc_int(k), ins, dele, sub]
            items.append((16, 1, enc.tree(t)))
        metas.append((sigma, ref, k, ins, dele, sub, res, ws + extra, sy))
    answers = ctx.driver.batch(items)
    for (sigma, ref, k, ins, dele, sub, res, ws, sy), ans in zip(metas, answers):
        problems, confirmed = [], False
        kinds = "".join(c for c, f in zip("ids", (ins, dele, sub)) if f) or "-"
        replay = {"kind": "case", "sigma": sigma, "ref": ref, "k": k, "flags": [ins, dele, sub], "maxlen": maxlen, "tag": tag}
        model = enc.dec_res(ans)
        if res[0] == "err":
            ctx.tally("refused_" + res[2])
            if model != ("err", res[1]):
                problems.append(f"implementation raised {res[2]} (code {res[1]}), model answers {model}")
                # the property fixes the two ValueError cases
                want = enc.VALUEERR if (k < 0 or not (ins or dele or sub)) else None
                confirmed = want is not None and res[1] != want
        elif model[0] != "ok":
            problems.append(f"implementation built an NFA, model refuses with code {model[1]}")
            confirmed = k < 0 or not (ins or dele or sub)
        else:
            m = res[1]
            v_model, v_impl, diff, m_acc = model[1]
            if v_model != 1:
                problems.append("model NFA is not valid")
            if v_impl != 1:
                problems.append("implementation NFA is not valid by the model's validity check")
            d = enc.dec_res(diff)
            if d[0] != "ok":
                problems.append(f"comparator ran out of budget ({d})")
            elif d[1] != []:
                w = sy.unword(d[1][0])
                cost = oracle_cost(sigma, ref, w, ins, dele, sub)
                got = m.accepts_input(w)
                problems.append(f"languages differ on {w!r}: implementation accepts={got}, cheapest derivation costs "
                                f"{cost if cost < INF else 'infinity'} (bound {k})")
                confirmed = got != (cost <= k)
            n_acc = 0
            for w, ma in zip(ws, m_acc):
                want = oracle_cost(sigma, ref, w, ins, dele, sub) <= k
                got = m.accepts_input(w)
                n_acc += want
                if got != want:
                    problems.append(f"{w!r}: implementation accepts={got}, oracle (cost <= {k}) says {want}")
                    confirmed = True
                    break
                if (ma == 1) != want:
                    problems.append(f"{w!r}: model accepts={ma == 1}, oracle says {want}")
                    break
            ctx.tally("words_checked", len(ws))
            ctx.tally("words_accepted", n_acc)
            ctx.tally("kinds_" + kinds)
            ctx.tally(f"k_{k}")
            ctx.tally(f"ref_len_{len(ref)}")
            ctx.tally("states_%02d" % len(m.states))
        ctx.case((sigma, ref, k, kinds), nontrivial=len(ref) > 0 and k >= 1,
                 sample={"alphabet": sigma, "reference": ref, "k": k, "kinds": kinds,
                         "outcome": res[0] if res[0] == "err" else f"NFA with {len(res[1].states)} states"}
                 if ctx.evaluations % 211 == 0 else None)
        if problems:
            ctx.violation(f"edit_distance({sigma!r}, {ref!r}, {k}, kinds={kinds}): " + "; ".join(problems[:3]),
                          dict(replay, problems=problems), confirmed=confirmed)


def scope(sigma, maxref, maxk):
    for n in range(maxref + 1):
        for t in itertools.product(sigma, repeat=n):
            for k in range(maxk + 1):
                for kinds in KINDS:
                    yield (sigma, "".join(t), k, kinds)


def refusals():
    out = []
    for sigma, ref in (("ab", "ab"), ("a", ""), ("ab", "abba")):
        for kinds in KINDS + [(False, False, False)]:
            out.append((sigma, ref, -1, kinds))
            out.append((sigma, ref, -3, kinds))
        for k in (0, 1, 2):
            out.append((sigma, ref, k, (False, False, False)))
    # reference symbol outside the alphabet: the NFA constructor's own validation refuses
    for kinds in KINDS:
        out.append(("ab", "acb", 1, kinds))
        out.append(("a", "b", 0, kinds))
    return out


def run_chunks(ctx, cases, maxlen, tag, size=200):
    cases = list(cases)
    for i in range(0, len(cases), size):
        check_batch(ctx, cases[i:i + size], maxlen, tag)


def run(ctx):
    ctx.rule = RULE
    run_chunks(ctx, refusals(), 3, "refusal")
    run_chunks(ctx, scope("", 0, 3), 2, "empty-alphabet")
    run_chunks(ctx, scope("a", 4, 3), 6, "exhaustive-a")
    run_chunks(ctx, scope("ab", 4, 3), 6, "exhaustive-ab")
    ctx.exhaustive = True
    ctx.exhaustive_scope = ("the empty alphabet; all references of length <= 4 over {a} and over {a,b}, k = 0..3, all 7 kind subsets; verdicts on "
                            "all words of length <= 6 over the alphabet plus 4 words with a foreign symbol")
    if ctx.tier == "thorough":
        run_chunks(ctx, scope("ab", 6, 4), 7, "exhaustive-ab-large")
        run_chunks(ctx, scope("abc", 5, 3), 5, "exhaustive-abc")
        ctx.exhaustive_scope = ("all references of length <= 6 over {a,b} with k = 0..4 (words <= 7), of length <= 5 over "
                                "{a,b,c} with k = 0..3 (words <= 5), of length <= 4 over {a}; all 7 kind subsets; plus "
                                "words with a foreign symbol")


def replay(ctx, case):
    check_batch(ctx, [(case["sigma"], case["ref"], case["k"], tuple(case["flags"]))], case.get("maxlen", 6), "replay")
    print("replay:", "VIOLATION reproduced" if ctx.violations else "no disagreement")
