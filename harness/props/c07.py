"""C07 - NFA/DFA conversions and epsilon-elimination (correspondence half)."""
from __future__ import annotations

import itertools

import enc
import gen
from props.common import load_def, mk_dfa, mk_nfa, outcome
from automata.fa.dfa import DFA
from automata.fa.nfa import NFA

RULE = ("random valid NFAs (1-6 states; epsilon edges and cycles, states without a row, empty target sets, unreachable "
        "parts; 7 name pools) and two (thorough: five) counter NFAs whose subset automata have 150-300 states (judged by the NFA-vs-DFA comparator only): DFA.from_nfa under all four minify x retain_names combinations, eliminate_lambda; random "
        "valid DFAs: NFA.from_dfa. Results are judged by the proved comparators (language equality with the source over "
        "all words), validity, and for eliminate_lambda 'no empty-string key left' and 'every state reachable' "
        "(both evaluated by extracted Coq code on the implementation's result); with retain_names and no minify the "
        "subset-state names must equal the model's set of subset states. distinct = canonical source automaton; "
        "non-trivial = the NFA has an epsilon edge or a nondeterministic choice")


def diff_word(d, sy):
    d = enc.dec_res(d)
    if d[0] != "ok":
        return ("error", d)
    return ("word", sy.unword(d[1][0])) if d[1] else None


def check_nfa(ctx, ndef, tag):
    n = mk_nfa(ndef)
    st = enc.Renum(enc.nfa_names(n))
    sy = enc.SymMap(n.input_symbols)
    tn = enc.enc_nfa(n, st, sy)
    has_eps = any("" in row and row[""] for row in n.transitions.values())
    nondet = any(len(ts) > 1 for row in n.transitions.values() for ts in row.values())
    ctx.tally("nfa_eps" if has_eps else "nfa_no_eps")
    items, metas = [], []
    for rn, mn in itertools.product([False, True], repeat=2):
        r = outcome(lambda: DFA.from_nfa(n, retain_names=rn, minify=mn))
        replay = {"kind": "from_nfa", "def": repr(ndef), "retain_names": rn, "minify": mn, "tag": tag}
        if r[0] != "ok":
            ctx.violation(f"DFA.from_nfa(retain_names={rn}, minify={mn}) raised {r[2]}", replay)
            continue
        items.append((7, 1, enc.tree([tn, enc.enc_dfa(r[1], None, sy)])))
        metas.append(("from_nfa", r[1], replay, rn, mn))
    r = outcome(lambda: n.eliminate_lambda())
    replay = {"kind": "eliminate_lambda", "def": repr(ndef), "tag": tag}
    if r[0] != "ok":
        ctx.violation(f"eliminate_lambda raised {r[2]}", replay)
    else:
        items.append((7, 3, enc.tree([tn, enc.enc_nfa(r[1], None, sy)])))
        metas.append(("elim", r[1], replay, None, None))
    items.append((7, 4, enc.tree(tn)))
    answers = ctx.driver.batch(items)
    subset_states = enc.dec_res(answers[-1])
    for (kind, obj, replay, rn, mn), ans in zip(metas, answers):
        problems = []
        if kind == "from_nfa":
            valid_impl, size_impl, d_src, model = ans
            if not valid_impl:
                problems.append("result is not a valid DFA")
            dw = diff_word(d_src, sy)
            if dw:
                w = dw[1]
                problems.append(f"language differs from the NFA's: {dw}" + (
                    f" (NFA accepts {n.accepts_input(w)}, DFA accepts {obj.accepts_input(w)})" if dw[0] == "word" else ""))
            m = enc.dec_res(model)
            if m[0] != "ok":
                ctx.violation(f"model determinisation failed: {m}", replay, confirmed=False)
            elif not mn and size_impl != m[1][0]:
                problems.append(f"number of subset states {size_impl} differs from the reachable subset states {m[1][0]}")
            elif mn:
                ms = enc.dec_res(m[1][3])
                if ms[0] != "ok":
                    ctx.violation(f"model minimisation failed: {ms}", replay, confirmed=False)
                else:
                    # minimum for the result's own kind (see C05): live classes, plus the dead class for a complete result
                    live, live_is_partial = ms[1][0], bool(ms[1][1])
                    want = live if obj.allow_partial else live + (1 if live_is_partial else 0)
                    if size_impl != want:
                        problems.append(f"minify=True result ({'partial' if obj.allow_partial else 'complete'}) has "
                                        f"{size_impl} states, the minimum for a DFA of that kind is {want}")
            if rn and not mn and subset_states[0] == "ok":
                want = {frozenset(s) for s in subset_states[1]}
                got = {frozenset(st(q) for q in name) for name in obj.states}
                if want != got:
                    problems.append(f"retained names are not the reachable subset states: {sorted(map(sorted, got))} vs {sorted(map(sorted, want))}")
        else:
            valid_impl, d_src, eps_left, reach = ans
            if not valid_impl:
                problems.append("result is not a valid NFA")
            dw = diff_word(d_src, sy)
            if dw:
                problems.append(f"language differs from the source's: {dw}" + (
                    f" (source accepts {n.accepts_input(dw[1])}, result accepts {obj.accepts_input(dw[1])})" if dw[0] == "word" else ""))
            if eps_left:
                problems.append("an empty-string transition key is left")
            rr = enc.dec_res(reach)
            if rr != ("ok", 1):
                problems.append(f"some state is unreachable from the initial state ({rr})")
        if problems:
            replay = dict(replay)
            replay["problems"] = problems
            ctx.violation(f"{kind}: " + "; ".join(problems), replay)
    ctx.case(("nfa", enc.tree(tn)), has_eps or nondet,
             sample={"nfa": repr(ndef), "subset_states": subset_states[1] if subset_states[0] == "ok" else None})


def check_dfa(ctx, ddef, tag):
    d = mk_dfa(ddef)
    sy = enc.SymMap(d.input_symbols)
    r = outcome(lambda: NFA.from_dfa(d))
    replay = {"kind": "from_dfa", "def": repr(ddef), "tag": tag}
    if r[0] != "ok":
        ctx.violation(f"NFA.from_dfa raised {r[2]}", replay)
        return
    ans = ctx.driver.batch([(7, 2, enc.tree([enc.enc_dfa(d, None, sy), enc.enc_nfa(r[1], None, sy)]))])[0]
    problems = []
    if not ans[0]:
        problems.append("result is not a valid NFA")
    for dd in (ans[1], ans[2]):
        dw = diff_word(dd, sy)
        if dw:
            problems.append(f"language differs from the DFA's: {dw}")
    ctx.case(("dfa", enc.tree(enc.enc_dfa(d, None, sy))), len(d.states) > 1)
    if problems:
        ctx.violation("from_dfa: " + "; ".join(problems), dict(replay, problems=problems))


def cycles_nfa_def(p, q, two_symbols):
    """'length divisible by p or by q' (one symbol), or 'number of a divisible by p or number of b by q' with both
    counters running (two symbols): the subset automaton has about lcm(p, q) resp. p * q states."""
    A = [("A", i) for i in range(p)]
    B = [("B", i) for i in range(q)]
    trans = {"s": {"": {A[0], B[0]}}}
    if two_symbols:
        for i in range(p):
            trans[A[i]] = {"a": {A[(i + 1) % p]}, "b": {A[i]}}
        for i in range(q):
            trans[B[i]] = {"b": {B[(i + 1) % q]}, "a": {B[i]}}
    else:
        for i in range(p):
            trans[A[i]] = {"a": {A[(i + 1) % p]}}
        for i in range(q):
            trans[B[i]] = {"a": {B[(i + 1) % q]}}
    return dict(states={"s"} | set(A) | set(B), input_symbols={"a", "b"} if two_symbols else {"a"}, transitions=trans,
                initial_state="s", final_states={A[0], B[0]})


def check_large(ctx, ndef, p, q, two):
    """The model's own subset construction is too slow at this size; the results are judged by the proved NFA-vs-DFA
    comparator alone (validity of both, language difference over all words) and by their state counts."""
    n = mk_nfa(ndef)
    st, sy = enc.Renum(enc.nfa_names(n)), enc.SymMap(n.input_symbols)
    tn = enc.enc_nfa(n, st, sy)
    want_states = {False: None, True: None}
    for rn, mn in itertools.product([False, True], repeat=2):
        r = outcome(lambda: DFA.from_nfa(n, retain_names=rn, minify=mn))
        replay = {"kind": "from_nfa_large", "p": p, "q": q, "two": two, "retain_names": rn, "minify": mn}
        ctx.case(("large", p, q, two, rn, mn), True)
        if r[0] != "ok":
            ctx.violation(f"DFA.from_nfa(retain_names={rn}, minify={mn}) raised {r[2]} on the {len(n.states)}-state counter NFA", replay)
            continue
        a = ctx.driver.batch([(0, 3, enc.tree([tn, enc.enc_dfa(r[1], None, sy)]))], timeout=600)[0]
        ctx.tally("large_subset_automaton_states_%d" % len(r[1].states))
        if a[0] != 1 or a[1] != 1 or a[2] != [1, []]:
            w = sy.unword(a[2][1][0]) if a[2][0] == 1 and a[2][1] else None
            conf = None if w is None else {"word": w if len(w) < 60 else f"{w[:20]}...({len(w)} symbols)",
                                           "nfa_accepts": n.accepts_input(w), "dfa_accepts": r[1].accepts_input(w)}
            ctx.violation(f"DFA.from_nfa(retain_names={rn}, minify={mn}) of the counter NFA ({p}, {q}, {'two symbols' if two else 'one symbol'}; "
                          f"{len(r[1].states)} DFA states) does not have the NFA's language: comparator [valid nfa, valid dfa, diff] = {str(a)[:200]}, {conf}",
                          dict(replay, confirm=conf))


def run(ctx):
    ctx.rule = RULE
    rng = ctx.rng
    # comparatively large subset automata (more than 128 and more than 256 subset states)
    for p, q, two in ([(12, 17, False), (12, 13, True)] if ctx.tier == "quick" else
                      [(12, 17, False), (12, 13, True), (16, 19, False), (15, 20, True), (3, 50, True)]):
        check_large(ctx, cycles_nfa_def(p, q, two), p, q, two)
    for i in range(ctx.n(220, 4000)):
        check_nfa(ctx, gen.rand_nfa_def(rng, nmax=ctx.n(6, 8)), "random")
        if i % 2 == 0:
            check_dfa(ctx, gen.rand_dfa_def(rng), "random")
    if ctx.tier == "thorough":
        # exhaustive: every NFA with 2 states over {a}: targets on 'a' and on '' any subset, finals any subset
        subsets = [set(), {0}, {1}, {0, 1}]
        for ta0, te0, ta1, te1 in itertools.product(subsets, repeat=4):
            for fin in subsets:
                trans = {0: {}, 1: {}}
                for q, ta, te in ((0, ta0, te0), (1, ta1, te1)):
                    if ta:
                        trans[q]["a"] = set(ta)
                    if te:
                        trans[q][""] = set(te)
                check_nfa(ctx, dict(states={0, 1}, input_symbols={"a"}, transitions=trans, initial_state=0,
                                    final_states=set(fin)), "exhaustive")
        ctx.exhaustive = True
        ctx.exhaustive_scope = "all NFAs with states {0,1} over {a} (any 'a'/epsilon target subsets, any finals, initial 0)"


def replay(ctx, case):
    if case["kind"] == "from_nfa_large":
        check_large(ctx, cycles_nfa_def(case["p"], case["q"], case["two"]), case["p"], case["q"], case["two"])
    elif case["kind"] in ("from_nfa", "eliminate_lambda"):
        check_nfa(ctx, load_def(case["def"]), "replay")
    else:
        check_dfa(ctx, load_def(case["def"]), "replay")
    print("replay:", "VIOLATION reproduced" if ctx.violations else "no disagreement")
