"""C01 - FA acceptance follows the formal definition (correspondence half)."""
from __future__ import annotations

import itertools

import enc
import gen
from props.common import drain, load_def, mk_dfa, mk_nfa, outcome

RULE = ("(one machine in five is read again as an instance built under allow_mutable_automata = True, every word twice) random valid DFA/NFA definitions (1-6 states, 1-3 symbols, partial/complete, epsilon cycles, "
        "rows missing, empty target sets, 7 state-name type pools) x random words incl. foreign symbols; "
        "distinct = distinct (canonical automaton, word); non-trivial = word non-empty and automaton has >= 2 states")


def impl_dfa(d, w):
    ys, out = drain(lambda: d.read_input_stepwise(w))
    acc = outcome(lambda: d.accepts_input(w))
    mem = outcome(lambda: w in d)
    ri = outcome(lambda: d.read_input(w))
    return ys, out, acc, mem, ri


def check_dfa(ctx, ddef, words, tag, mutable=False):
    d = mk_mutable(mk_dfa, ddef) if mutable else mk_dfa(ddef)
    if mutable:
        ctx.tally("dfa_mutable_mode")
    st = enc.Renum(enc.dfa_names(d))
    items, metas = [], []
    for w in words:
        sy = enc.SymMap(d.input_symbols, w)
        items.append((1, 1, enc.tree([enc.enc_dfa(d, st, sy), sy.word(w)])))
        metas.append((w, sy))
    answers = ctx.driver.batch(items)
    canon = enc.tree(enc.enc_dfa(d, st))
    for (w, sy), ans in zip(metas, answers):
        m_ys, m_out, m_acc = ans[0], enc.dec_res(ans[1]), enc.dec_res(ans[2])
        ys, out, acc, mem, ri = impl_dfa(d, w)
        i_ys = [[] if y is None else [st(y)] for y in ys]
        problems = []
        if i_ys != m_ys:
            problems.append(f"yielded configurations differ: impl {i_ys} model {m_ys}")
        # how the generator ends
        if out[0] == "ok":
            if m_out[0] != "ok":
                problems.append(f"impl accepted, model ends with error {m_out}")
        else:
            if m_out != ("err", out[1]):
                problems.append(f"impl raised {out[2]}, model {m_out}")
        # accepts_input / in / read_input
        want_acc = ("ok", m_acc[1] == 1) if m_acc[0] == "ok" else ("err", m_acc[1])
        if acc[:2] != want_acc:
            problems.append(f"accepts_input = {acc}, model {want_acc}")
        if mem[:2] != want_acc:
            problems.append(f"membership operator = {mem}, model {want_acc}")
        if m_out[0] == "ok":
            want_ri = ("ok", m_out[1])
            got_ri = ("ok", [] if ri[1] is None else [st(ri[1])]) if ri[0] == "ok" else ri[:2]
            if got_ri != want_ri:
                problems.append(f"read_input = {ri}, model {want_ri}")
        elif ri[:2] != ("err", m_out[1]):
            problems.append(f"read_input = {ri}, model {m_out}")
        if len(ys) != (len(w) + 1) and out[0] == "ok":
            problems.append("number of yielded configurations is not len(word)+1")
        ctx.tally("dfa_" + ("accept" if out[0] == "ok" else "reject"))
        ctx.tally("dfa_partial" if d.allow_partial else "dfa_complete")
        if any(c not in d.input_symbols for c in w):
            ctx.tally("word_with_foreign_symbol")
        ctx.case((canon, w), nontrivial=len(w) > 0 and len(d.states) > 1,
                 sample={"dfa": repr(ddef), "word": w, "impl_yields": repr(ys), "outcome": out[:2]})
        if problems:
            ctx.violation("DFA reading disagrees with the textbook run: " + "; ".join(problems),
                          {"kind": "dfa", "def": repr(ddef), "word": w, "problems": problems,
                           "model": repr(ans), "tag": tag})


def mk_mutable(mk, d):
    """Built under allow_mutable_automata = True from its own deep copy: keeps the plain dicts and sets it was given."""
    import copy
    import automata.base.config as cfg
    saved = cfg.allow_mutable_automata
    cfg.allow_mutable_automata = True
    try:
        return mk(copy.deepcopy(d))
    finally:
        cfg.allow_mutable_automata = saved


def check_nfa(ctx, ndef, words, tag, mutable=False):
    n = mk_mutable(mk_nfa, ndef) if mutable else mk_nfa(ndef)
    if mutable:
        ctx.tally("nfa_mutable_mode")
    st = enc.Renum(enc.nfa_names(n))
    items, metas = [], []
    for w in words:
        sy = enc.SymMap(n.input_symbols, w)
        items.append((1, 2, enc.tree([enc.enc_nfa(n, st, sy), sy.word(w)])))
        metas.append((w, sy))
    answers = ctx.driver.batch(items)
    canon = enc.tree(enc.enc_nfa(n, st))
    for (w, sy), ans in zip(metas, answers):
        m_ys, m_out, m_acc = ans[0], enc.dec_res(ans[1]), enc.dec_res(ans[2])
        ys, out = drain(lambda: n.read_input_stepwise(w))
        acc = outcome(lambda: n.accepts_input(w))
        mem = outcome(lambda: w in n)
        ri = outcome(lambda: n.read_input(w))
        i_ys = [sorted(st(q) for q in y) for y in ys]
        problems = []
        if i_ys != m_ys:
            problems.append(f"yielded state sets differ: impl {i_ys} model {m_ys}")
        if out[0] == "ok":
            if m_out[0] != "ok":
                problems.append(f"impl accepted, model ends with {m_out}")
        elif m_out != ("err", out[1]):
            problems.append(f"impl raised {out[2]}, model {m_out}")
        want_acc = ("ok", m_acc[1] == 1) if m_acc[0] == "ok" else ("err", m_acc[1])
        if acc[:2] != want_acc:
            problems.append(f"accepts_input = {acc}, model {want_acc}")
        if mem[:2] != want_acc:
            problems.append(f"membership operator = {mem}, model {want_acc}")
        if m_out[0] == "ok":
            got = ("ok", sorted(st(q) for q in ri[1])) if ri[0] == "ok" else ri[:2]
            if got != ("ok", m_out[1]):
                problems.append(f"read_input = {ri}, model {m_out}")
        elif ri[:2] != ("err", m_out[1]):
            problems.append(f"read_input = {ri}, model {m_out}")
        ctx.tally("nfa_" + ("accept" if out[0] == "ok" else "reject"))
        if any("" in row for row in n.transitions.values()):
            ctx.tally("nfa_with_epsilon")
        ctx.case((canon, w), nontrivial=len(w) > 0 and len(n.states) > 1,
                 sample={"nfa": repr(ndef), "word": w, "impl_yields": repr(ys), "outcome": out[:2]})
        if problems:
            ctx.violation("NFA reading disagrees with the textbook run: " + "; ".join(problems),
                          {"kind": "nfa", "def": repr(ndef), "word": w, "words": words, "mutable": mutable, "problems": problems,
                           "model": repr(ans), "tag": tag})


def known_none_state(ctx):
    """Open finding: a state literally named None collides with the DFA's 'no transition' sentinel."""
    from automata.fa.dfa import DFA
    d = DFA(states={None, 1}, input_symbols={"a"}, transitions={None: {"a": 1}, 1: {"a": 1}},
            initial_state=None, final_states={1})
    # textbook: 'a' is accepted (None --a--> 1, final)
    got = d.accepts_input("a")
    for k in ctx.known:
        if k["id"] == "dfa_state_named_None" and k["status"] == "open":
            if got is False:
                ctx.report_known(k)
            return
    if got is not True:
        ctx.violation("DFA with a state named None rejects 'a' although None --a--> 1 and 1 is final",
                      {"kind": "dfa_none_state"})


def known_nfa_none_state(ctx):
    """Open finding: an NFA with a state named None passes validate(), every read raises ValueError from networkx
    ('None cannot be a node') inside _get_lambda_closures."""
    from automata.fa.nfa import NFA
    out = outcome(lambda: NFA(states={None, 1}, input_symbols={"a"}, transitions={None: {"a": {1}}}, initial_state=None,
                              final_states={1}).accepts_input("a"))
    ctx.open_finding("nfa_state_named_None", out[:2] != ("ok", True),
                     f"NFA(states={{None, 1}}, None --a--> 1, final 1).accepts_input('a') gives {out}, expected True")


def run(ctx):
    ctx.rule = RULE
    rng = ctx.rng
    # non-string items are never members
    d0 = mk_dfa(gen.rand_dfa_def(rng))
    for item in (5, None, ("a",), b"a"):
        if (item in d0) is not False:
            ctx.violation(f"membership of non-string {item!r} is not False", {"kind": "nonstr", "item": repr(item)})
    known_none_state(ctx)
    known_nfa_none_state(ctx)
    n_machines = ctx.n(250, 4000)
    for i in range(n_machines):
        ddef = gen.rand_dfa_def(rng)
        sigma = sorted(ddef["input_symbols"])
        words = [""] + [gen.rand_word(rng, sigma, 8, p_foreign=0.08 if j % 3 == 0 else 0.0) for j in range(9)]
        check_dfa(ctx, ddef, words, "random")
        if i % 4 == 0:
            # long empty-string chains / rings through up to 9 states
            ndef = gen.rand_nfa_eps_rich(rng, nmax=9, long=(i % 8 == 0))
        else:
            ndef = gen.rand_nfa_def(rng)
        sigma = sorted(ndef["input_symbols"])
        words = [""] + [gen.rand_word(rng, sigma, 7, p_foreign=0.08 if j % 3 == 0 else 0.0) for j in range(9)]
        check_nfa(ctx, ndef, words, "random")
        if i % 5 == 0:
            # the same reads on instances that keep plain dicts and sets (allow_mutable_automata): a read must not
            # change what the next read sees
            check_nfa(ctx, ndef, words + words[::-1], "random_mutable_mode", mutable=True)
            check_dfa(ctx, ddef, [""] + words[:4], "random_mutable_mode", mutable=True)
    if ctx.tier == "thorough":
        # exhaustive: every partial DFA with <= 2 states over {a,b}, initial state 0, all words <= 4 over {a,b,#}
        words = list(gen.all_words("ab#", 4))
        for n in (1, 2):
            for tgt in itertools.product([None] + list(range(n)), repeat=2 * n):
                for fin in itertools.product([0, 1], repeat=n):
                    trans = {q: {a: tgt[2 * q + j] for j, a in enumerate("ab") if tgt[2 * q + j] is not None}
                             for q in range(n)}
                    ddef = dict(states=set(range(n)), input_symbols={"a", "b"}, transitions=trans,
                                initial_state=0, final_states={q for q in range(n) if fin[q]}, allow_partial=True)
                    check_dfa(ctx, ddef, words, "exhaustive")
        ctx.exhaustive = True
        ctx.exhaustive_scope = "all partial DFAs with <= 2 states over {a,b} (initial 0) x all words of length <= 4 over {a,b,#}"


def replay(ctx, case):
    if case["kind"] == "dfa":
        check_dfa(ctx, load_def(case["def"]), [case["word"]], "replay")
    elif case["kind"] == "nfa":
        # (a mutable-mode case replays the whole series of reads: the failing read may depend on the earlier ones)
        check_nfa(ctx, load_def(case["def"]), case["words"] if case.get("mutable") else [case["word"]], "replay",
                  mutable=case.get("mutable", False))
    else:
        known_none_state(ctx)
    print("replay:", "VIOLATION reproduced" if ctx.violations else "no disagreement")
