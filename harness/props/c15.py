"""C15 - language constructors of DFA (correspondence half).

Per case (constructor + parameters):
 (a) the implementation's DFA vs the model's DFA (coq/Model/Construct.v): validity, language equality over
     all words by the proved comparator dfa_diff, exact table equality (informational when only the table differs);
 (b) the implementation's verdicts vs an independent Python predicate on every word up to length K over the
     alphabet (walk of the implementation's own table, plus accepts_input on a sample), and vs the boolean
     predicate of coq/Spec/Preds.v evaluated by the extracted code (driver op 21);
 (c) is_minimal (extracted) of the implementation's result where the docstring promises the minimal DFA.
from_substrings / from_finite_language: (b) + validity (+ (c) for from_finite_language), and additionally an all-words
comparison (proved comparators of property 0) with the obvious NFA / trie built by this module.
from_substring / from_suffix: additionally (a') against the mirror model of the code itself (KMP failure table and
transition loop, coq/Model/KMP.v, proved equal to the specification model): validity, dfa_diff, exact table.
from_finite_language: additionally against the mirror model of the Mihov-Schulz construction (coq/Model/FiniteLang.v, driver
op 14; C15_from_finite_language_lang / _minimal): same refusal (a word with a symbol outside the alphabet), dfa_diff, and - after
renaming the implementation's states (prefix strings, trap 0) to the model's numbers through the model's list of state
names - the exact transition table (the state that survives a merge is fixed by the sorted order of the words)."""
from __future__ import annotations

import itertools

import enc
from automata.fa.dfa import DFA
from props.common import load_def, outcome

RULE = ("every constructor x parameter set: all patterns of length <= 4 over alphabets of 1-3 symbols (plus a two-symbol alphabet outside Latin-1 with patterns of length <= 2; self-overlapping ones "
        "included) x every flag combination for from_prefix/from_suffix/from_substring/from_subsequence; of_length lo 0-4 x "
        "hi None/0-4 x every counted-symbol subset; count_mod k 1-4 x every remainder subset x every counted subset; "
        "nth_from_start/nth_from_end n 1-3 x every symbol; universal/empty; random pattern sets (1-4 patterns, length <= 3, "
        "every fourth set up to length 6, nested/overlapping) x flags for from_substrings; random finite languages (<= 6 words) x as_partial, languages with a word outside the alphabet (refused); refusals "
        "(k = 0, n = 0, symbol outside the alphabet). distinct = distinct (constructor, alphabet, parameters); "
        "non-trivial = the result has >= 2 states and its language is neither empty nor universal up to length K")

SINK = object()

# driver op codes (coq/Model/D15.v)
OPS = {"from_prefix": 1, "from_suffix": 2, "from_substring": 3, "from_subsequence": 4, "of_length": 5,
       "count_mod": 6, "nth_from_start": 7, "nth_from_end": 8, "universal_language": 9, "empty_language": 10}
OP_KMP, OP_KMP_TABLE, OP_AC, OP_FL = 11, 12, 13, 14
PROMISED_MINIMAL = {"from_prefix", "from_suffix", "from_substring", "from_subsequence", "of_length",
                    "nth_from_start", "nth_from_end", "from_finite_language", "universal_language", "empty_language"}


def is_subseq(p, w):
    it = iter(w)
    return all(c in it for c in p)


def counted(w, cs):
    return sum(1 for c in w if c in cs)


class Case:
    """One constructor call: how to run it, how to send it to the model, what it must accept."""

    def __init__(self, kind, sigma, **kw):
        self.kind, self.sigma, self.kw = kind, "".join(sorted(sigma)), kw

    def key(self):
        return (self.kind, self.sigma, repr(sorted(self.kw.items(), key=lambda kv: kv[0])))

    def replay(self):
        return {"kind": self.kind, "sigma": self.sigma, "kwargs": repr(self.kw)}

    def call(self):
        S, k = set(self.sigma), self.kw
        f = getattr(DFA, self.kind)
        if self.kind == "from_prefix":
            return f(S, k["p"], contains=k["contains"], as_partial=k["as_partial"])
        if self.kind in ("from_suffix", "from_subsequence"):
            return f(S, k["p"], contains=k["contains"])
        if self.kind == "from_substring":
            return f(S, k["p"], contains=k["contains"], must_be_suffix=k["must_be_suffix"])
        if self.kind == "from_substrings":
            return f(S, self.pat_set(), contains=k["contains"], must_be_suffix=k["must_be_suffix"])
        if self.kind == "of_length":
            cs = None if k["cs"] is None else set(k["cs"])
            return f(S, min_length=k["lo"], max_length=k["hi"], symbols_to_count=cs)
        if self.kind == "count_mod":
            cs = None if k["cs"] is None else set(k["cs"])
            rs = None if k["rems"] is None else set(k["rems"])
            return f(S, k["k"], remainders=rs, symbols_to_count=cs)
        if self.kind in ("nth_from_start", "nth_from_end"):
            return f(S, k["s"], k["n"])
        if self.kind == "from_finite_language":
            return f(S, set(k["lang"]), as_partial=k["as_partial"])
        return f(S)   # universal_language / empty_language

    def pat_set(self):
        """The very set object handed to from_substrings; its iteration order is the schedule the mirror model gets."""
        if not hasattr(self, "_pat_set"):
            self._pat_set = set(self.kw["pats"])
        return self._pat_set

    def pred(self, w):
        """Independent Python predicate (w is a string over the alphabet)."""
        k, kind = self.kw, self.kind
        if kind == "from_prefix":
            return w.startswith(k["p"]) == k["contains"]
        if kind == "from_suffix" or (kind == "from_substring" and k["must_be_suffix"]):
            return w.endswith(k["p"]) == k["contains"]
        if kind == "from_substring":
            return (k["p"] in w) == k["contains"]
        if kind == "from_subsequence":
            return is_subseq(k["p"], w) == k["contains"]
        if kind == "from_substrings":
            hit = any(w.endswith(p) for p in k["pats"]) if k["must_be_suffix"] else any(p in w for p in k["pats"])
            return hit == k["contains"]
        if kind == "of_length":
            n = counted(w, self.sigma if k["cs"] is None else k["cs"])
            return k["lo"] <= n and (k["hi"] is None or n <= k["hi"])
        if kind == "count_mod":
            n = counted(w, self.sigma if k["cs"] is None else k["cs"])
            return n % k["k"] in ({0} if k["rems"] is None else set(k["rems"]))
        if kind == "nth_from_start":
            return len(w) >= k["n"] and w[k["n"] - 1] == k["s"]
        if kind == "nth_from_end":
            return len(w) >= k["n"] and w[-k["n"]] == k["s"]
        if kind == "from_finite_language":
            return w in k["lang"]
        return kind == "universal_language"

    # ---- wire ----
    def params(self, sy):
        k, kind = self.kw, self.kind
        syms = list(range(sy.n))
        ow = lambda s: None if s is None else [sorted(sy(c) for c in s)]
        if kind == "from_prefix":
            return [syms, sy.word(k["p"]), k["contains"], k["as_partial"]]
        if kind in ("from_suffix", "from_subsequence"):
            return [syms, sy.word(k["p"]), k["contains"]]
        if kind == "from_substring":
            return [syms, sy.word(k["p"]), k["contains"], k["must_be_suffix"]]
        if kind == "of_length":
            return [syms, k["lo"], None if k["hi"] is None else [k["hi"]], [] if k["cs"] is None else ow(k["cs"])]
        if kind == "count_mod":
            return [syms, k["k"], [] if k["rems"] is None else [sorted(k["rems"])], [] if k["cs"] is None else ow(k["cs"])]
        if kind in ("nth_from_start", "nth_from_end"):
            return [syms, sy(k["s"]), k["n"]]
        return [syms]

    def pred_code(self, sy):
        """(code, args) of the boolean predicate in coq/Spec/Preds.v (driver op 21)."""
        k, kind = self.kw, self.kind
        cs = lambda: sorted(sy(c) for c in (self.sigma if k["cs"] is None else k["cs"]))
        if kind == "from_prefix":
            return 1, [sy.word(k["p"]), k["contains"]]
        if kind == "from_suffix" or (kind == "from_substring" and k["must_be_suffix"]):
            return 2, [sy.word(k["p"]), k["contains"]]
        if kind == "from_substring":
            return 3, [sy.word(k["p"]), k["contains"]]
        if kind == "from_subsequence":
            return 4, [sy.word(k["p"]), k["contains"]]
        if kind == "of_length":
            return 5, [cs(), k["lo"], None if k["hi"] is None else [k["hi"]]]
        if kind == "count_mod":
            return 6, [cs(), k["k"], sorted({0} if k["rems"] is None else k["rems"])]
        if kind == "nth_from_start":
            return 7, [sy(k["s"]), k["n"]]
        if kind == "nth_from_end":
            return 8, [sy(k["s"]), k["n"]]
        if kind == "from_finite_language":
            return 9, [[sy.word(w) for w in sorted(k["lang"])]]
        if kind == "from_substrings":
            return (11 if k["must_be_suffix"] else 10), [[sy.word(p) for p in sorted(k["pats"])], k["contains"]]
        return 12, [kind == "universal_language"]

    def state_map(self, d):
        """Canonical numbering of the implementation's states (None: not canonical, renumber by name order)."""
        if self.kind in ("from_finite_language",):
            return None
        names = enc.dfa_names(d)
        if not all(isinstance(q, int) and not isinstance(q, bool) for q in names):
            return None
        if self.kind == "from_prefix":
            err = len(self.kw["p"]) + 1
            m = {q: (err if q == -1 else q) for q in names}
        else:
            m = {q: q for q in names}
        if any(v < 0 for v in m.values()) or len(set(m.values())) != len(m):
            return None
        return lambda q: m[q]

    def promised_minimal(self):
        """Where the docstring says 'the minimal DFA' and the property's side condition holds."""
        k, kind = self.kw, self.kind
        if kind not in PROMISED_MINIMAL:
            return None
        if kind in ("from_prefix", "from_suffix", "from_substring", "from_subsequence"):
            return "promised" if (k["p"] and len(self.sigma) >= 2) else "outside"
        if kind == "of_length":
            degenerate = (k["hi"] is not None and k["hi"] < k["lo"]) or (k["cs"] is not None and not k["cs"])
            return "outside" if degenerate else "promised"
        if kind == "from_finite_language" and not self.sigma and k["lang"] and not k["as_partial"]:
            # side condition of C15_from_finite_language_minimal: over the empty alphabet _to_complete adds an unreachable trap
            return "outside"
        return "promised"

    def family(self):
        if self.kind in ("from_suffix", "from_substring"):
            return "from_substring/from_suffix"
        return self.kind


def spec_nfa_substrings(pats, sy, must_be_suffix):
    """The obvious NFA for 'some pattern occurs' (resp. 'some pattern is a suffix'), as a wire value:
    state 0 loops on every symbol and guesses the start of an occurrence; one chain per pattern;
    substring mode ends in an absorbing accepting state 1."""
    syms = list(range(sy.n))
    trans = {0: {a + 1: {0} for a in syms}}
    finals = set()
    nxt = 2
    if not must_be_suffix:
        trans[1] = {a + 1: {1} for a in syms}
        finals.add(1)
    for p in sorted(pats):
        if any(sy(ch) >= sy.n for ch in p):
            continue               # a pattern with a symbol outside the alphabet never occurs in a word over the alphabet
        cur = 0
        if p == "":
            finals.add(0)          # the empty pattern occurs in (and ends) every word
        for i, c in enumerate(p):
            last = i == len(p) - 1
            if last and not must_be_suffix:
                tgt = 1
            else:
                tgt = nxt
                nxt += 1
                trans.setdefault(tgt, {})
                if last:
                    finals.add(tgt)
            trans.setdefault(cur, {}).setdefault(sy(c) + 1, set()).add(tgt)
            cur = tgt
    states = sorted(trans)
    return [states, syms, [[q, sorted([a, sorted(ts)] for a, ts in trans[q].items())] for q in states], 0, sorted(finals)]


def spec_trie_dfa(lang, sy):
    """The trie of a finite language as a partial DFA (wire value)."""
    ids = {"": 0}
    trans = {0: {}}
    for w in sorted(lang):
        for i in range(len(w)):
            pre, nx = w[:i], w[:i + 1]
            if nx not in ids:
                ids[nx] = len(ids)
                trans[ids[nx]] = {}
            trans[ids[pre]][sy(w[i])] = ids[nx]
    states = sorted(trans)
    return [states, list(range(sy.n)), [[q, sorted([a, t] for a, t in trans[q].items())] for q in states], 0,
            sorted(ids[w] for w in lang), True]


def canon_dfa_tree(t):
    """Wire DFA with states, rows and final states in ascending order (as enc.enc_dfa writes the implementation's)."""
    return [sorted(t[0]), t[1], sorted([q, sorted(row)] for q, row in t[2]), t[3], sorted(t[4])] + list(t[5:])


def complemented(timpl):
    """Wire value of a (complete) DFA with the final states complemented."""
    t = list(timpl)
    t[4] = sorted(set(t[0]) - set(t[4]))
    return t


def impl_verdicts(d, sigma, K):
    """(word, accepted) for every word of length <= K over sigma, by walking the implementation's table."""
    trans, finals = d.transitions, d.final_states
    level = [("", d.initial_state)]
    for k in range(K + 1):
        for w, q in level:
            yield w, (q is not SINK and q in finals)
        if k == K:
            break
        nxt = []
        for w, q in level:
            row = trans.get(q, {}) if q is not SINK else {}
            for c in sigma:
                nxt.append((w + c, row.get(c, SINK) if q is not SINK else SINK))
        level = nxt


def word_bound(sigma, tier):
    return 7 if (len(sigma) <= 2 or tier == "thorough") else 6


class Runner:
    def __init__(self, ctx):
        self.ctx = ctx
        self.reported = set()

    def violation(self, signature, what, replay, confirmed=True):
        """One VIOLATION line per defect signature; further instances are only counted."""
        self.ctx.tally("violating_cases")
        if signature in self.reported:
            self.ctx.tally("further_instances_of:" + signature)
            return
        self.reported.add(signature)
        self.ctx.violation(what, replay, confirmed=confirmed)

    def run_cases(self, cases, chunk=400):
        for i in range(0, len(cases), chunk):
            self.run_chunk(cases[i:i + chunk])

    def run_chunk(self, cases):
        ctx = self.ctx
        prepared, reqs = [], []
        for c in cases:
            sy = enc.SymMap(c.sigma, extra=c.kw.get("s", "") + "".join(c.kw.get("pats", ())) + "".join(c.kw.get("lang", ())))
            r = outcome(c.call)
            K = word_bound(c.sigma, ctx.tier)
            info = {"case": c, "sy": sy, "r": r, "K": K, "slots": {}}
            timpl = None
            if r[0] == "ok":
                d = r[1]
                sm = c.state_map(d)
                info["canonical"] = sm is not None
                timpl = enc.enc_dfa(d, sm, sy)
                info["timpl"] = timpl
            if c.kind in OPS:
                info["slots"]["ctor"] = len(reqs)
                reqs.append((15, OPS[c.kind], enc.tree([c.params(sy), [] if timpl is None else [timpl]])))
            if c.kind == "from_substrings":
                # the mirror model of the Aho-Corasick construction (coq/Model/AhoCorasick.v, driver op 13), fed with
                # the patterns in the iteration order of the set the implementation was given
                info["slots"]["ac"] = len(reqs)
                order = list(c.pat_set())
                info["pat_order"] = order
                ap = [list(range(sy.n)), [sy.word(p) for p in order], c.kw["contains"], c.kw["must_be_suffix"]]
                reqs.append((15, OP_AC, enc.tree([ap, [] if timpl is None else [timpl]])))
            if c.kind == "from_finite_language":
                # the mirror model of the Mihov-Schulz construction (coq/Model/FiniteLang.v, driver op 14); the words go in
                # the iteration order of the set (the model sorts them as the code does)
                info["slots"]["fl"] = len(reqs)
                fp = [list(range(sy.n)), [sy.word(w) for w in c.kw["lang"]], c.kw["as_partial"]]
                reqs.append((15, OP_FL, enc.tree([fp, [] if timpl is None else [timpl]])))
            if c.kind in ("from_substring", "from_suffix"):
                # the mirror model of the code itself (KMP table + transition loop, coq/Model/KMP.v, driver op 11)
                info["slots"]["kmp"] = len(reqs)
                kp = [list(range(sy.n)), sy.word(c.kw["p"]), c.kw["contains"], c.kw.get("must_be_suffix", True)]
                reqs.append((15, OP_KMP, enc.tree([kp, [] if timpl is None else [timpl]])))
            if timpl is not None:
                if c.kind not in OPS:
                    info["slots"]["vm"] = len(reqs)
                    reqs.append((15, 20, enc.tree([timpl])))
                    info["slots"]["spec"] = len(reqs)
                    if c.kind == "from_substrings":
                        # all-words comparison with the obvious NFA (proved comparator nfa_dfa_diff, property 0 op 3)
                        nfa = spec_nfa_substrings(c.kw["pats"], sy, c.kw["must_be_suffix"])
                        reqs.append((0, 3, enc.tree([nfa, timpl if c.kw["contains"] else complemented(timpl)])))
                    else:
                        # all-words comparison with the trie (proved comparator dfa_diff, property 0 op 1)
                        reqs.append((0, 1, enc.tree([spec_trie_dfa(c.kw["lang"], sy), timpl])))
                code, args = c.pred_code(sy)
                info["slots"]["pred"] = len(reqs)
                reqs.append((15, 21, enc.tree([timpl, K, code, args])))
            prepared.append(info)
        answers = ctx.driver.batch(reqs)
        for info in prepared:
            self.judge(info, {k: answers[i] for k, i in info["slots"].items()})

    def judge(self, info, ans):
        ctx, c, sy, r, K = self.ctx, info["case"], info["sy"], info["r"], info["K"]
        rp = c.replay()
        fam = c.family()
        ctx.tally("ctor_" + c.kind)
        empty_pat = "p" in c.kw and c.kw["p"] == ""
        model = enc.dec_res(ans["ctor"][0]) if "ctor" in ans else None
        if model is not None and model[0] == "err":
            # the model refuses: the implementation must refuse with the same kind of exception
            ctx.tally("refusal")
            ctx.case(c.key(), False)
            if r[0] != "err" or r[1] != model[1]:
                self.violation(f"{fam}:refusal", f"{c.kind}{c.kw}: expected refusal with code {model[1]}, implementation gave {r[:1] + r[2:] if r[0] == 'err' else 'a DFA'}", rp)
            return
        flm = enc.dec_res(ans["fl"][0]) if "fl" in ans else None
        if flm is not None and flm[0] == "err":
            # the mirror model of from_finite_language refuses (validate(): a word has a symbol outside the alphabet):
            # the implementation must refuse with the same kind of exception
            ctx.tally("refusal")
            ctx.tally("fl_mirror_refusal")
            ctx.case(c.key(), False)
            if r[0] == "ok":
                # C15 states the language, not the refusal: a constructor that ignores the words that can never be read
                # (they contain a symbol outside the alphabet) and builds the DFA of the rest satisfies it too
                d, lang = r[1], set(c.kw["lang"])
                top = max((len(w) for w in lang), default=0) + 1
                words = ["".join(t) for n in range(top + 1) for t in itertools.product(c.sigma, repeat=n)]
                wrong = [w for w in words if d.accepts_input(w) != (w in lang)]
                wrong += [w for w in lang if any(ch not in c.sigma for ch in w) and d.accepts_input(w)]
                if wrong or outcome(lambda: d.validate())[0] != "ok":
                    self.violation(f"{fam}:refusal", f"{c.kind}{c.kw}: the mirror model refuses with code {flm[1]}; the implementation "
                                   f"built a DFA that is not the DFA of the words over the alphabet (differs on {wrong[:3]!r})",
                                   dict(rp, correspondence="C15/fl-mirror"))
                else:
                    ctx.structural += 1
                    ctx.tally("fl_foreign_words_ignored_instead_of_refused")
            elif r[1] != flm[1]:
                self.violation(f"{fam}:refusal", f"{c.kind}{c.kw}: the mirror model refuses with code {flm[1]}, implementation gave "
                               f"{r[:1] + r[2:]}", dict(rp, correspondence="C15/fl-mirror"))
            return
        if r[0] == "err":
            ctx.case(c.key(), False)
            sig = f"{fam}:raises:{r[2]}" + (":empty_pattern" if empty_pat else "")
            self.violation(sig, f"DFA.{c.kind}(alphabet {c.sigma!r}, {c.kw}) raises {r[2]} instead of building the DFA of the "
                                f"specified language" + (" (empty pattern: every word qualifies)" if empty_pat else ""),
                           dict(rp, observed="raises " + r[2]))
            return
        d = r[1]
        problems = []
        # ---- (a) against the model DFA ----
        if model is not None:
            tmodel = model[1]
            valid_impl, diff, minimal = ans["ctor"][1]
            diff = enc.dec_res(diff)
            if diff[0] != "ok":
                self.violation(f"{fam}:comparator", f"{c.kind}: comparator failed {diff}", rp, confirmed=False)
                return
            if diff[1]:
                w = sy.unword(diff[1][0])
                got, want = d.accepts_input(w), c.pred(w)
                if got != want:
                    problems.append(("language", f"accepts_input({w!r}) = {got}, the specified predicate gives {want}"))
                else:
                    self.violation(f"{fam}:model-vs-impl-unconfirmed",
                                   f"{c.kind}{c.kw}: comparator reports word {w!r} but implementation and predicate agree on it "
                                   "(model problem)", dict(rp, correspondence="C15/" + c.kind), confirmed=False)
            elif info["canonical"] and enc.tree(tmodel) != enc.tree(info["timpl"]):
                ctx.structural += 1
                ctx.tally("table_differs_language_equal")
            elif info["canonical"]:
                ctx.tally("table_identical")
            # ---- (a') against the mirror model of the KMP construction ----
            if "kmp" in ans:
                mirror = enc.dec_res(ans["kmp"][0])
                if mirror[0] != "ok":
                    self.violation(f"{fam}:kmp-mirror-fails", f"{c.kind}{c.kw}: the KMP mirror model fails with {mirror} "
                                   "(Coq: C15_kmp_faithful says it never does)", dict(rp, correspondence="C15/kmp-mirror"),
                                   confirmed=False)
                else:
                    ctx.tally("kmp_mirror_compared")
                    kdiff = enc.dec_res(ans["kmp"][1][1])
                    if enc.tree(mirror[1]) != enc.tree(tmodel):
                        self.violation(f"{fam}:kmp-mirror-vs-spec-model", f"{c.kind}{c.kw}: extracted KMP mirror model and "
                                       "specification model differ (C15_kmp_faithful proves them equal: build problem)",
                                       dict(rp, correspondence="C15/kmp-mirror"), confirmed=False)
                    if kdiff[0] != "ok":
                        self.violation(f"{fam}:comparator", f"{c.kind}: comparator failed {kdiff}", rp, confirmed=False)
                    elif kdiff[1]:
                        w = sy.unword(kdiff[1][0])
                        got, want = d.accepts_input(w), c.pred(w)
                        if got != want:
                            problems.append(("language", f"accepts_input({w!r}) = {got}, the specified predicate gives {want}"))
                        else:
                            self.violation(f"{fam}:kmp-mirror-vs-impl-unconfirmed",
                                           f"{c.kind}{c.kw}: comparator reports word {w!r} against the KMP mirror model but "
                                           "implementation and predicate agree on it (model problem)",
                                           dict(rp, correspondence="C15/kmp-mirror"), confirmed=False)
                    elif info["canonical"] and enc.tree(mirror[1]) != enc.tree(info["timpl"]):
                        ctx.structural += 1
                        ctx.tally("kmp_mirror_table_differs_language_equal")
                    elif info["canonical"]:
                        ctx.tally("kmp_mirror_table_identical")
        else:
            valid_impl, minimal = ans["vm"]
            sp = ans["spec"]
            diff = enc.dec_res(sp[-1])
            if not sp[0]:
                self.violation(f"{fam}:spec-automaton-invalid", f"{c.kind}{c.kw}: harness-built specification automaton invalid",
                               dict(rp, correspondence="C15/spec-automaton"), confirmed=False)
            elif diff[0] != "ok":
                self.violation(f"{fam}:comparator", f"{c.kind}: comparator failed {diff}", rp, confirmed=False)
            elif diff[1]:
                w = sy.unword(diff[1][0])
                got, want = d.accepts_input(w), c.pred(w)
                if got != want:
                    problems.append(("language", f"accepts_input({w!r}) = {got}, the specified predicate gives {want}"))
                else:
                    self.violation(f"{fam}:spec-automaton-vs-impl-unconfirmed",
                                   f"{c.kind}{c.kw}: comparator reports word {w!r} against the specification automaton but "
                                   "implementation and predicate agree on it (harness problem)",
                                   dict(rp, correspondence="C15/spec-automaton"), confirmed=False)
            else:
                ctx.tally("all_words_equal_to_spec_automaton")
            # ---- against the mirror model of the Aho-Corasick construction ----
            if "ac" in ans:
                mirror = enc.dec_res(ans["ac"][0])
                if mirror[0] != "ok":
                    self.violation(f"{fam}:ac-mirror-fails", f"{c.kind}{c.kw}: the Aho-Corasick mirror model fails with {mirror}",
                                   dict(rp, correspondence="C15/ac-mirror", pattern_order=info["pat_order"]), confirmed=False)
                else:
                    ctx.tally("ac_mirror_compared")
                    adiff = enc.dec_res(ans["ac"][1][1])
                    if adiff[0] != "ok":
                        self.violation(f"{fam}:comparator", f"{c.kind}: comparator failed {adiff}", rp, confirmed=False)
                    elif adiff[1]:
                        w = sy.unword(adiff[1][0])
                        got, want = d.accepts_input(w), c.pred(w)
                        if got != want:
                            problems.append(("language", f"accepts_input({w!r}) = {got}, the specified predicate gives {want}"))
                        else:
                            self.violation(f"{fam}:ac-mirror-vs-impl-unconfirmed",
                                           f"{c.kind}{c.kw}: comparator reports word {w!r} against the Aho-Corasick mirror model "
                                           "but implementation and predicate agree on it (model problem)",
                                           dict(rp, correspondence="C15/ac-mirror", pattern_order=info["pat_order"]), confirmed=False)
                    elif info["canonical"] and enc.tree(canon_dfa_tree(mirror[1])) != enc.tree(info["timpl"]):
                        # state labels are fixed by the insertion order, so the tables must coincide literally
                        ctx.structural += 1
                        ctx.tally("ac_mirror_table_differs_language_equal")
                    elif info["canonical"]:
                        ctx.tally("ac_mirror_table_identical")
        # ---- against the mirror model of the Mihov-Schulz construction ----
        if flm is not None:
            ctx.tally("fl_mirror_compared")
            fdiff = enc.dec_res(ans["fl"][1][1])
            names = enc.dec_res(ans["fl"][2])
            if fdiff[0] != "ok" or names[0] != "ok":
                self.violation(f"{fam}:comparator", f"{c.kind}: comparator / state names failed {fdiff} {names}", rp, confirmed=False)
            elif fdiff[1]:
                w = sy.unword(fdiff[1][0])
                got, want = d.accepts_input(w), c.pred(w)
                if got != want:
                    problems.append(("language", f"accepts_input({w!r}) = {got}, the specified predicate gives {want}"))
                else:
                    self.violation(f"{fam}:fl-mirror-vs-impl-unconfirmed",
                                   f"{c.kind}{c.kw}: comparator reports word {w!r} against the mirror model of the construction "
                                   "but implementation and predicate agree on it (model problem; Coq: "
                                   "C15_from_finite_language_lang)", dict(rp, correspondence="C15/fl-mirror"), confirmed=False)
            else:
                # exact table: the implementation's states are prefix strings (and the trap 0 / the single state 0 of
                # empty_language); the model says which prefix its i-th state is
                number = {tuple(wd): i for i, wd in enumerate(names[1])}
                sm = lambda q: number.get(tuple(sy.word(q)), -1) if isinstance(q, str) else len(number)
                img = [sm(q) for q in enc.dfa_names(d)]
                same = (min(img, default=0) >= 0 and len(set(img)) == len(img)
                        and enc.tree(canon_dfa_tree(flm[1])) == enc.tree(enc.enc_dfa(d, sm, sy)))
                if same:
                    ctx.tally("fl_mirror_table_identical")
                else:
                    ctx.structural += 1
                    ctx.tally("fl_mirror_table_differs_language_equal")
        if not valid_impl:
            problems.append(("valid", "result does not satisfy the DFA validity rules"))
        # ---- (b) predicate level ----
        fd = ans["pred"]
        if fd:
            w = sy.unword(fd[0])
            got, want = d.accepts_input(w), c.pred(w)
            if got != want:
                problems.append(("language", f"accepts_input({w!r}) = {got}, the specified predicate gives {want}"))
            else:
                self.violation(f"{fam}:preds-vs-python", f"{c.kind}{c.kw}: Coq predicate and Python predicate disagree on {w!r}",
                               dict(rp, correspondence="C15/predicate"), confirmed=False)
        nacc = ntot = 0
        bad = None
        for w, acc in impl_verdicts(d, c.sigma, K):
            ntot += 1
            nacc += acc
            if bad is None and acc != c.pred(w):
                bad = w
        if bad is not None:
            problems.append(("language", f"table walk on {bad!r} gives {not c.pred(bad)}, accepts_input = {d.accepts_input(bad)}, "
                                         f"the specified predicate gives {c.pred(bad)}"))
        for _ in range(6 if c.sigma else 0):
            w = "".join(ctx.rng.choice(c.sigma) for _ in range(ctx.rng.randint(0, 9)))
            if d.accepts_input(w) != c.pred(w):
                problems.append(("language", f"accepts_input({w!r}) = {d.accepts_input(w)}, the specified predicate gives {c.pred(w)}"))
                break
        ctx.tally("words_checked", ntot)
        # ---- (c) minimality ----
        pm = c.promised_minimal()
        if pm == "promised":
            ctx.tally("minimality_checked")
            if not minimal:
                problems.append(("minimal", f"result with {len(d.states)} states is not minimal for its kind "
                                            f"(allow_partial={d.allow_partial}): unreachable, equivalent or dead states"))
        elif pm == "outside":
            ctx.tally("outside_promise_minimal" if minimal else "outside_promise_not_minimal")
        nontrivial = len(d.states) >= 2 and 0 < nacc < ntot
        ctx.tally("partial_result" if d.allow_partial else "complete_result")
        ctx.tally("states_%d" % min(len(d.states), 9))
        ctx.case(c.key(), nontrivial, sample={"call": f"DFA.{c.kind}", "alphabet": c.sigma, "kwargs": repr(c.kw),
                                               "states": len(d.states), "accepted_upto_K": nacc, "K": K})
        if problems:
            problems = list(dict.fromkeys(problems))
            kinds = sorted({p[0] for p in problems})
            sig = f"{fam}:{'+'.join(kinds)}" + (":empty_pattern" if empty_pat else "")
            self.violation(sig, f"DFA.{c.kind}(alphabet {c.sigma!r}, {c.kw}): " + "; ".join(p[1] for p in problems),
                           dict(rp, problems=[p[1] for p in problems]))


# ---------------- generators ----------------
def subsets(s):
    s = sorted(s)
    return [frozenset(x) for n in range(len(s) + 1) for x in itertools.combinations(s, n)]


def patterns(sigma, maxlen):
    for n in range(maxlen + 1):
        for t in itertools.product(sigma, repeat=n):
            yield "".join(t)


def pattern_cases(sigma, maxlen):
    out = []
    for p in patterns(sigma, maxlen):
        for c in (True, False):
            for ap in (True, False):
                out.append(Case("from_prefix", sigma, p=p, contains=c, as_partial=ap))
            out.append(Case("from_suffix", sigma, p=p, contains=c))
            for m in (False, True):
                out.append(Case("from_substring", sigma, p=p, contains=c, must_be_suffix=m))
            out.append(Case("from_subsequence", sigma, p=p, contains=c))
    return out


def numeric_cases(sigma, maxlen, maxk, maxn):
    out = []
    css = [None] + subsets(sigma)
    for lo in range(maxlen + 1):
        for hi in [None] + list(range(maxlen + 1)):
            for cs in css:
                out.append(Case("of_length", sigma, lo=lo, hi=hi, cs=cs))
    for k in range(1, maxk + 1):
        for rems in [None] + subsets(range(k)):
            for cs in css:
                out.append(Case("count_mod", sigma, k=k, rems=rems, cs=cs))
    for n in range(1, maxn + 1):
        for s in sigma:
            out.append(Case("nth_from_start", sigma, s=s, n=n))
            out.append(Case("nth_from_end", sigma, s=s, n=n))
    out.append(Case("universal_language", sigma))
    out.append(Case("empty_language", sigma))
    return out


def refusal_cases():
    return [Case("count_mod", "ab", k=0, rems=None, cs=None),
            Case("nth_from_start", "ab", s="a", n=0), Case("nth_from_end", "ab", s="a", n=0),
            Case("nth_from_start", "ab", s="c", n=1), Case("nth_from_end", "ab", s="c", n=2),
            Case("nth_from_start", "a", s="b", n=0)]


def rand_pattern_set(rng, sigma, maxlen=3):
    """1-4 non-empty patterns of length <= maxlen; nested / overlapping ones are favoured."""
    n = min(rng.randint(1, 4), sum(len(sigma) ** i for i in (1, 2, 3)))
    pats = set()
    while len(pats) < n:
        if pats and rng.random() < 0.5:
            base = rng.choice(sorted(pats))
            how = rng.random()
            if how < 0.35 and len(base) > 1:      # a proper factor of an existing pattern
                i = rng.randrange(len(base))
                j = rng.randint(i + 1, len(base))
                p = base[i:j]
            elif how < 0.7 and len(base) < maxlen:     # an extension
                p = base + rng.choice(sigma) if rng.random() < 0.5 else rng.choice(sigma) + base
            else:                                  # overlap: suffix of base + new symbols
                p = (base[1:] + "".join(rng.choice(sigma) for _ in range(rng.randint(1, 2))))[:maxlen]
        else:
            p = "".join(rng.choice(sigma) for _ in range(rng.randint(1, maxlen)))
        if p:
            pats.add(p)
    return frozenset(pats)


def rand_language(rng, sigma):
    n = min(rng.randint(1, 6), 4 * len(sigma))
    lang = set()
    while len(lang) < n:
        if lang and rng.random() < 0.5:
            base = rng.choice(sorted(lang))
            w = (base[:rng.randint(0, len(base))] + "".join(rng.choice(sigma) for _ in range(rng.randint(0, 2))))[:5]
        else:
            w = "".join(rng.choice(sigma) for _ in range(rng.randint(0, 4)))
        lang.add(w)
    return frozenset(lang)


def known_finding_reproducer(ctx):
    """from_substrings with the empty pattern in the set and must_be_suffix=True (open finding)."""
    for k in ctx.known:
        if k["id"] != "substrings_with_empty_pattern_suffix":
            continue
        k["_match"] = lambda rp: (rp.get("kind") == "from_substrings" and "''" in rp.get("kwargs", "")
                                  and "'must_be_suffix': True" in rp.get("kwargs", ""))
        r = outcome(lambda: DFA.from_substrings({"a", "b"}, {"", "aa"}, must_be_suffix=True))
        still = r[0] == "err" or not r[1].accepts_input("a")     # every word ends with ""
        if k["status"] == "open":
            if still:
                ctx.report_known(k)
            else:
                ctx.notes.append("known finding substrings_with_empty_pattern_suffix no longer reproduces")
        elif still:
            ctx.violation("fixed finding substrings_with_empty_pattern_suffix reproduces again",
                          {"kind": "from_substrings", "sigma": "ab",
                           "kwargs": repr(dict(pats=frozenset({"", "aa"}), contains=True, must_be_suffix=True))})


FOREIGN_REPRO = [("a", ("bb", "aa")), ("a", ("ba", "aa")), ("a", ("c", "bb", "aaa")), ("ab", ("cc", "ab", "a"))]


def foreign_symbol_reproducer(ctx):
    """from_substrings (not must_be_suffix) with a pattern that has a symbol outside the alphabet (finding fixed by ae299fb;
    kept as a regression): the goto loop never visits the nodes behind that symbol, the old `end_state = len(transitions)`
    collided with the label of a visited node; the repaired code uses len(labels)."""
    for k in ctx.known:
        if k["id"] != "substrings_pattern_symbol_outside_alphabet":
            continue
        k["_match"] = lambda rp: rp.get("kind") == "from_substrings" and rp.get("foreign_symbol")
        witness = None
        for sigma, pats in FOREIGN_REPRO:
            for contains in (True, False):
                r = outcome(lambda: DFA.from_substrings(set(sigma), set(pats), contains=contains))
                if r[0] == "err":
                    witness = (sigma, pats, contains, "raises " + r[2])
                    break
                for n in range(7):
                    for t in itertools.product(sigma, repeat=n):
                        w = "".join(t)
                        if r[1].accepts_input(w) != (any(p in w for p in pats) == contains):
                            witness = (sigma, pats, contains, w)
                            break
                    if witness:
                        break
                if witness:
                    break
            if witness:
                break
        # regression on the reproducer inputs themselves: the mirror model (end state = number of trie nodes, as the repaired
        # code's len(labels)) builds the implementation's table, whatever the iteration order of the set
        for sigma, pats in FOREIGN_REPRO:
            for contains in (True, False):
                pset = set(pats)
                r = outcome(lambda: DFA.from_substrings(set(sigma), pset, contains=contains))
                if r[0] != "ok":
                    continue
                sy = enc.SymMap(sigma, extra="".join(pats))
                timpl = enc.enc_dfa(r[1], lambda q: q, sy)
                ap = [list(range(sy.n)), [sy.word(p) for p in pset], contains, False]
                ans = ctx.driver.batch([(15, OP_AC, enc.tree([ap, [timpl]]))])[0]
                mirror = enc.dec_res(ans[0])
                same = mirror[0] == "ok" and enc.tree(canon_dfa_tree(mirror[1])) == enc.tree(timpl)
                ctx.tally("foreign_symbol_reproducer_mirror_table_" + ("identical" if same else "differs"))
                if not same and k["status"] != "open" and not witness:
                    # another (correct) numbering of the trie nodes: the language check above decides; counted as structural
                    ctx.structural += 1
        if k["status"] == "open":
            if witness:
                ctx.tally("known_foreign_symbol_defect_reproduced")
                ctx.report_known(k)
            else:
                ctx.notes.append("known finding substrings_pattern_symbol_outside_alphabet no longer reproduces")
        elif witness:
            ctx.violation("fixed finding substrings_pattern_symbol_outside_alphabet reproduces again: %r" % (witness,),
                          {"kind": "from_substrings", "sigma": witness[0], "foreign_symbol": True,
                           "kwargs": repr(dict(pats=frozenset(witness[1]), contains=witness[2], must_be_suffix=False))})


def run(ctx):
    ctx.rule = RULE
    rng = ctx.rng
    R = Runner(ctx)
    known_finding_reproducer(ctx)
    foreign_symbol_reproducer(ctx)
    thorough = ctx.tier == "thorough"
    cases = []
    for sigma in ("a", "ab", "abc"):
        cases += pattern_cases(sigma, 4)
        cases += numeric_cases(sigma, 4, 4, 5 if thorough else 3)
    # symbols outside Latin-1: equal strings are then separate objects (every iteration over a str builds new ones)
    cases += pattern_cases("\u03bb\u2192", 2 if not thorough else 3)
    cases += numeric_cases("\u03bb\u2192", 2, 2, 3)
    if thorough:
        cases += pattern_cases("ab", 6)[len(pattern_cases("ab", 4)):]
        cases += pattern_cases("xyz", 5)[len(pattern_cases("xyz", 4)):]
        cases += numeric_cases("01", 6, 6, 6)
    cases += refusal_cases()
    # from_substrings: random pattern sets
    for i in range(ctx.n(330, 6000)):
        sigma = rng.choice(["a", "ab", "ab", "abc", "abc"])
        # most sets as the property text says (length <= 3); every fourth with longer patterns (deeper failure chains)
        pats = rand_pattern_set(rng, sigma, 3 if i % 4 else 6)
        if i % 12 == 5:
            pats = frozenset(pats) | {""}      # the empty pattern in the set: every word qualifies
        for c in (True, False):
            for m in (False, True):
                cases.append(Case("from_substrings", sigma, pats=pats, contains=c, must_be_suffix=m))
    # pattern sets with a symbol outside the alphabet (both modes since the finding substrings_pattern_symbol_outside_alphabet
    # is fixed; the theorems C15_from_substrings_lang / _suffix_lang need no hypothesis on the patterns)
    foreign_open = any(k["id"] == "substrings_pattern_symbol_outside_alphabet" and k["status"] == "open" for k in ctx.known)
    for i in range(ctx.n(40, 600)):
        sigma = rng.choice(["a", "ab", "ab"])
        pats = set(rand_pattern_set(rng, sigma, 3))
        for _ in range(rng.randint(1, 2)):
            base = rng.choice(sorted(pats))
            j = rng.randint(0, len(base))
            pats.add(base[:j] + rng.choice("yz") + base[j:][:2])
        for c in (True, False):
            for m in ((True,) if foreign_open else (True, False)):
                cases.append(Case("from_substrings", sigma, pats=frozenset(pats), contains=c, must_be_suffix=m))
    # from_finite_language (the empty alphabet included: the only languages are {} and {""})
    for sigma in ("", "a", "ab"):
        for ap in (True, False):
            cases.append(Case("from_finite_language", sigma, lang=frozenset(), as_partial=ap))
            cases.append(Case("from_finite_language", sigma, lang=frozenset({""}), as_partial=ap))
    for _ in range(ctx.n(250, 4000)):
        sigma = rng.choice(["a", "ab", "ab", "abc", "abc"])
        lang = rand_language(rng, sigma)
        for ap in (True, False):
            cases.append(Case("from_finite_language", sigma, lang=lang, as_partial=ap))
    # languages with a word that has a symbol outside the alphabet: refused by validate() (InvalidSymbolError), as the mirror model
    for _ in range(ctx.n(12, 150)):
        sigma = rng.choice(["a", "ab", "bc"])
        lang = set(rand_language(rng, sigma))
        base = rng.choice(sorted(lang))
        j = rng.randint(0, len(base))
        lang.add(base[:j] + rng.choice("ayz".replace("a", "" if "a" in sigma else "a")) + base[j:][:2])
        for ap in (True, False):
            cases.append(Case("from_finite_language", sigma, lang=frozenset(lang), as_partial=ap))
    if thorough:
        # exhaustive: every set of 1-2 non-empty patterns of length <= 2 over {a,b}; every language of <= 2 words of length <= 2
        pool = [p for p in patterns("ab", 2) if p]
        for n in (1, 2):
            for ps in itertools.combinations(pool, n):
                for c in (True, False):
                    for m in (False, True):
                        cases.append(Case("from_substrings", "ab", pats=frozenset(ps), contains=c, must_be_suffix=m))
        pool = list(patterns("ab", 2))
        for n in (1, 2):
            for ws in itertools.combinations(pool, n):
                for ap in (True, False):
                    cases.append(Case("from_finite_language", "ab", lang=frozenset(ws), as_partial=ap))
    R.run_cases(cases)
    ctx.exhaustive = True
    ctx.exhaustive_scope = ("complete enumeration of: all patterns of length <= 4 over {a}, {a,b}, {a,b,c} x all flag combinations "
                            "(from_prefix, from_suffix, from_substring, from_subsequence); of_length lo,hi in 0..4/None x all counted "
                            "subsets; count_mod k in 1..4 x all remainder subsets x all counted subsets; nth_from_start/end n in "
                            "1..3 x all symbols; universal/empty - each judged over ALL words by the proved comparator against the "
                            "model. from_substrings / from_finite_language are sampled (random sets), words up to length 6-7 only"
                            + ("; thorough adds patterns up to length 6 over {a,b}, length 5 over {x,y,z}, all pattern sets of <= 2 "
                               "patterns and languages of <= 2 words of length <= 2 over {a,b}" if thorough else ""))


def replay(ctx, case):
    c = Case(case["kind"], case["sigma"], **load_def(case["kwargs"]))
    foreign_symbol_reproducer(ctx)
    r = outcome(c.call)
    print("call: DFA.%s alphabet=%r kwargs=%s" % (c.kind, c.sigma, c.kw))
    if r[0] == "ok":
        d = r[1]
        print("implementation:", dict(states=sorted(d.states, key=enc.sort_key), transitions={q: dict(t) for q, t in d.transitions.items()},
                                      final_states=sorted(d.final_states, key=enc.sort_key), allow_partial=d.allow_partial))
        K = word_bound(c.sigma, ctx.tier)
        bad = [w for w, acc in impl_verdicts(d, c.sigma, K) if acc != c.pred(w)]
        print("words up to length %d where the implementation differs from the specified predicate: %s" % (K, bad[:10]))
    else:
        print("implementation raises", r[2])
    if c.kind in OPS:
        sy = enc.SymMap(c.sigma, extra=c.kw.get("s", ""))
        m = ctx.driver.batch([(15, OPS[c.kind], enc.tree([c.params(sy), []]))])[0]
        print("model:", m[0])
        if c.kind in ("from_substring", "from_suffix"):
            kp = [list(range(sy.n)), sy.word(c.kw["p"]), c.kw["contains"], c.kw.get("must_be_suffix", True)]
            m, t = ctx.driver.batch([(15, OP_KMP, enc.tree([kp, []])), (15, OP_KMP_TABLE, enc.tree([sy.word(c.kw["p"])]))])
            print("KMP mirror model:", m[0])
            tt = enc.dec_res(t)
            print("KMP failure table of the mirror model:", [v - 1 for v in tt[1]] if tt[0] == "ok" else tt)
    if c.kind == "from_finite_language":
        sy = enc.SymMap(c.sigma, extra="".join(c.kw["lang"]))
        fp = [list(range(sy.n)), [sy.word(w) for w in c.kw["lang"]], c.kw["as_partial"]]
        m = ctx.driver.batch([(15, OP_FL, enc.tree([fp, []]))])[0]
        print("mirror model of the construction:", m[0])
        nm = enc.dec_res(m[2])
        print("its state names (state i = i-th prefix):", [sy.unword(w) for w in nm[1]] if nm[0] == "ok" else nm)
    known_finding_reproducer(ctx)
    Runner(ctx).run_cases([c])
    print("replay:", "VIOLATION reproduced" if ctx.violations else "no disagreement")
