"""Turing-machine helpers shared by C03 and C17: table generators, wire encoders, canonical
tape form, bounded generator consumption and a small independent oracle (sparse tapes)."""
from __future__ import annotations

import itertools

import enc
import gen
from automata.tm.dtm import DTM
from automata.tm.mntm import MNTM
from automata.tm.ntm import NTM

DIRS = {"L": 0, "R": 1, "N": 2}

# ---------------------------------------------------------------- generic tables
# A generic table is   {state: {read_tuple: [(next_state, ((write, dir), ...)), ...]}}
# over `k` tapes; DTM/NTM views exist when k == 1.


NASTY = ["\n", "\t", "$", "(", "\\", "*", ";", "[", "|", "?", "\r", "'", "{", "}", "^", "_", "!"]


def translate_symbols(md, mapping):
    """The same machine with every tape symbol c written mapping[c] (a bijection on the tape alphabet)."""
    t = lambda c: mapping[c]
    table = {q: {tuple(t(c) for c in key): [(a[0], tuple((t(w), d) for w, d in a[1])) for a in alts]
                 for key, alts in row.items()} for q, row in md["table"].items()}
    return dict(md, input_symbols="".join(t(c) for c in md["input_symbols"]),
                tape_symbols="".join(sorted(t(c) for c in md["tape_symbols"])), blank=t(md["blank"]), table=table)


def rand_table(rng, k=1, nondet=False, names=None, profile=None, twin=None, nasty=None, empty=False):
    """Random machine description (dict with states/finals/symbols/table...).  twin: the second alternative of an entry
    repeats the first one's writes and moves with another target state (two branches that differ in the state only);
    nasty: tape symbols are control characters and punctuation (newline, tab, backslash, ...);
    empty: one random entry of the table gets an EMPTY list of alternatives (the constructor accepts it; the run treats it
    like a missing entry) - None = in one table out of ten.  Such a table has no DTM view (dtm_def needs one alternative);
    its NTM view has the empty set there.  Off by default: callers that build a DTM from the table must not ask for it."""
    if twin is None:
        twin = nondet and rng.random() < 0.3
    if nasty is None:
        nasty = rng.random() < 0.15
    if empty is None:
        empty = rng.random() < 0.10
    md = _rand_table(rng, k, nondet, names, profile, twin)
    if empty:
        entries = [(q, key) for q, row in md["table"].items() for key in row]
        if entries:
            # mostly an entry the run meets early: a row of the initial state
            first = [e for e in entries if e[0] == md["initial"]]
            q, key = rng.choice(first if first and rng.random() < 0.6 else entries)
            md["table"][q][key] = []
    if nasty:
        pool = NASTY[:]
        rng.shuffle(pool)
        md = translate_symbols(md, dict(zip(md["tape_symbols"], pool)))
    return md


def _rand_table(rng, k, nondet, names, profile, twin):
    inp = rng.choice(["a", "ab", "ab", "01"])
    blank = rng.choice([".", ".", "#", " "])
    extra = rng.choice(["", "x", "x"])
    tsyms = sorted(set(inp) | set(extra) | {blank})
    n_work = rng.randint(1, 4 if k == 1 else 3)
    n_fin = rng.choice([1, 1, 2])
    if names is None:
        names, _ = gen.pick_names(rng, n_work + n_fin)
    work, fins = names[:n_work], names[n_work:n_work + n_fin]
    profile = profile or rng.choice(["uniform", "left", "right", "stay", "zigzag"])
    dirw = {"uniform": "LRN", "left": "LLLLRN", "right": "RRRRLN", "stay": "NNNLR", "zigzag": "LLRR"}[profile]
    density = rng.choice([1.0, 0.9, 0.75, 0.5]) if k == 1 else rng.choice([0.9, 0.6, 0.35])
    p_final = rng.choice([0.03, 0.08, 0.2])
    p_blank = rng.choice([0.1, 0.3, 0.5])
    p_two = rng.choice([0.15, 0.3, 0.5]) if nondet else 0.0

    def alt():
        q2 = rng.choice(fins) if rng.random() < p_final else rng.choice(work)
        mv = tuple((blank if rng.random() < p_blank else rng.choice(tsyms), rng.choice(dirw)) for _ in range(k))
        return (q2, mv)

    table = {}
    for q in work:
        row = {}
        for key in itertools.product(tsyms, repeat=k):
            if rng.random() >= density:
                continue
            alts = [alt()]
            if rng.random() < p_two:
                a2 = alt()
                if twin:
                    a2 = (rng.choice(work + fins if rng.random() < 0.2 else work), alts[0][1])
                    if len(work) >= 2 and rng.random() < 0.5:
                        # the guess is between the first two working states (same writes, same moves)
                        pair = work[:2] if rng.random() < 0.5 else work[1::-1]
                        alts[0], a2 = (pair[0], alts[0][1]), (pair[1], alts[0][1])
                if a2 != alts[0]:
                    alts.append(a2)
            row[key] = alts
        if row or q == work[0] or rng.random() < 0.5:
            table[q] = row
    if len(work) > 1 and rng.random() < 0.3:
        table.pop(work[-1], None)       # an explicit reject state: reachable, not final, no row at all
    return dict(states=list(work) + list(fins), finals=list(fins), input_symbols=inp, tape_symbols="".join(tsyms),
                blank=blank, initial=work[0], k=k, table=table, profile=profile)


def common_kwargs(md):
    return dict(states=set(md["states"]), input_symbols=set(md["input_symbols"]), tape_symbols=set(md["tape_symbols"]),
                initial_state=md["initial"], blank_symbol=md["blank"], final_states=set(md["finals"]))


def dtm_def(md):
    assert md["k"] == 1
    tr = {q: {key[0]: (alts[0][0], alts[0][1][0][0], alts[0][1][0][1]) for key, alts in row.items()}
          for q, row in md["table"].items()}
    return dict(transitions=tr, **common_kwargs(md))


def ntm_def(md):
    assert md["k"] == 1
    tr = {q: {key[0]: {(a[0], a[1][0][0], a[1][0][1]) for a in alts} for key, alts in row.items()}
          for q, row in md["table"].items()}
    return dict(transitions=tr, **common_kwargs(md))


def mntm_def(md):
    tr = {q: {key: [(a[0], tuple(a[1])) for a in alts] for key, alts in row.items()} for q, row in md["table"].items()}
    return dict(transitions=tr, n_tapes=md["k"], **common_kwargs(md))


def rand_words(rng, md, count, maxlen=5):
    sigma = md["input_symbols"]
    out = [""]
    for j in range(count - 1):
        r = rng.random()
        if r < 0.08:
            out.append(gen.rand_word(rng, md["tape_symbols"], maxlen))          # tape-only symbols / blanks inside
        elif r < 0.14:
            out.append(gen.rand_word(rng, sigma, maxlen, p_foreign=0.3, foreign="Z"))  # symbol outside the tape alphabet
        else:
            out.append(gen.rand_word(rng, sigma, maxlen))
    return out


# ---------------------------------------------------------------- wire encoding
def names_of(md):
    return list(md["states"])


def symmap(md, word=""):
    extra = set(word)
    for row in md["table"].values():
        for key, alts in row.items():
            extra.update(key)
            for a in alts:
                extra.update(w for w, _ in a[1])
    return enc.SymMap(md["tape_symbols"], "".join(sorted(extra)))


def enc_dtm(md, st, sy):
    tr = [[st(q), sorted([sy(key[0]), [st(alts[0][0]), sy(alts[0][1][0][0]), DIRS[alts[0][1][0][1]]]]
                         for key, alts in row.items())]
          for q, row in sorted(md["table"].items(), key=lambda kv: st(kv[0]))]
    return [tr, st(md["initial"]), sy(md["blank"]), sorted(st(q) for q in md["finals"])]


def enc_ntm(md, st, sy):
    tr = [[st(q), sorted([sy(key[0]), sorted([st(a[0]), sy(a[1][0][0]), DIRS[a[1][0][1]]] for a in alts)]
                         for key, alts in row.items())]
          for q, row in sorted(md["table"].items(), key=lambda kv: st(kv[0]))]
    return [tr, st(md["initial"]), sy(md["blank"]), sorted(st(q) for q in md["finals"])]


def enc_mntm(md, st, sy):
    # the order of the alternatives is kept: it fixes the order of the BFS queue
    tr = [[st(q), sorted([[sy(c) for c in key], [[st(a[0]), [[sy(w), DIRS[d]] for w, d in a[1]]] for a in alts]]
                         for key, alts in row.items())]
          for q, row in sorted(md["table"].items(), key=lambda kv: st(kv[0]))]
    return [md["k"], tr, st(md["initial"]), sy(md["blank"]), sorted(st(q) for q in md["finals"])]


def strip_end(cells, blank):
    cells = list(cells)
    while cells and cells[-1] == blank:
        cells.pop()
    return cells


def canon_tape(t):
    """(left cells nearest first, scanned cell, right cells), far blanks dropped - as characters."""
    cells, p, b = list(t.tape), t.current_position, t.blank_symbol
    return (tuple(strip_end(cells[:p][::-1], b)), cells[p], tuple(strip_end(cells[p + 1:], b)))


def num_tape(ct, sy):
    return [[sy(c) for c in ct[0]], sy(ct[1]), [sy(c) for c in ct[2]]]


def canon_cfg(c):
    return (c.state, canon_tape(c.tape))


def canon_mcfg(c):
    return (c.state, tuple(canon_tape(t) for t in c.tapes))


def num_cfg(cc, st, sy):
    return [st(cc[0]), num_tape(cc[1], sy)]


def num_mcfg(cc, st, sy):
    return [st(cc[0]), [num_tape(t, sy) for t in cc[1]]]


# ---------------------------------------------------------------- bounded consumption
def consume(genr, max_items, stop=None):
    """Take at most max_items items; returns (items, outcome) with outcome one of
    ('ok',) generator ended, ('err', code, name) it raised, ('limit',) it was still going,
    ('stop',) the stop predicate fired on the last item taken."""
    items = []
    try:
        while True:
            if len(items) >= max_items:
                return items, ("limit",)
            try:
                y = next(genr)
            except StopIteration:
                return items, ("ok",)
            items.append(y)
            if stop is not None and stop(y):
                return items, ("stop",)
    except BaseException as e:  # noqa: BLE001
        if isinstance(e, (KeyboardInterrupt, SystemExit, MemoryError)):
            raise
        return items, ("err", enc.exc_code(e), type(e).__name__)
    finally:
        try:
            genr.close()
        except Exception:  # noqa: BLE001
            pass


# ---------------------------------------------------------------- independent oracle
# sparse textbook tapes: (left tuple nearest first, head, right tuple), blanks stripped
def o_tape(word, blank):
    cells = list(word) if word else [blank]
    return ((), cells[0], tuple(strip_end(cells[1:], blank)))


def o_act(t, w, d, blank):
    left, _, right = t
    head = w
    if d == "R":
        left = (head,) + left
        head, right = (right[0], right[1:]) if right else (blank, ())
    elif d == "L":
        right = (head,) + right
        head, left = (left[0], left[1:]) if left else (blank, ())
    return (tuple(strip_end(left, blank)), head, tuple(strip_end(right, blank)))


def o_start(md, word):
    b = md["blank"]
    return (md["initial"], (o_tape(word, b),) + tuple(o_tape("", b) for _ in range(md["k"] - 1)))


def o_succ(md, cfg):
    """Successor configurations in the order of the alternatives; None when no entry."""
    q, tapes = cfg
    row = md["table"].get(q)
    key = tuple(t[1] for t in tapes)
    if row is None or key not in row:
        return None
    return [(a[0], tuple(o_act(t, w, d, md["blank"]) for (w, d), t in zip(a[1], tapes))) for a in row[key]]


def o_dtm(md, word, budget):
    """(trace, verdict) of the deterministic reading: verdict 'accept' | 'reject' | 'limit'."""
    c = o_start(md, word)
    trace = [c]
    steps = 0
    while True:
        if c[0] in md["finals"]:
            return trace, "accept"
        s = o_succ(md, c)
        if not s:
            return trace, "reject"
        if steps == budget:
            return trace, "limit"
        c = s[0]
        trace.append(c)
        steps += 1


def o_ntm(md, word, budget):
    """levels as sets; verdict."""
    cur = {o_start(md, word)}
    levels = [cur]
    while True:
        if not cur:
            return levels, "reject"
        if any(c[0] in md["finals"] for c in cur):
            return levels, "accept"
        if len(levels) > budget or len(cur) > 400:
            return levels, "limit"     # (also stops a level explosion: the oracle only confirms, it never decides)
        nxt = set()
        for c in cur:
            nxt.update(o_succ(md, c) or [])
        cur = nxt
        levels.append(cur)


def o_mntm(md, word, budget):
    """BFS with the queue discipline of the implementation: (visited list, verdict)."""
    from collections import deque
    queue = deque([o_start(md, word)])
    seen = []
    while queue:
        if len(seen) >= budget:
            return seen, "limit"
        c = queue.popleft()
        seen.append(c)
        s = o_succ(md, c)
        if not s:          # no entry, or an entry with no alternative (`if not possible_transitions`)
            if c[0] in md["finals"]:
                return seen, "accept"
        else:
            queue.extend(s[1:])
            queue.append(s[0])
    return seen, "reject"


def mk(md, kind):
    if kind == "dtm":
        return DTM(**dtm_def(md))
    if kind == "ntm":
        return NTM(**ntm_def(md))
    return MNTM(**mntm_def(md))
