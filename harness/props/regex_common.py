"""Shared by C10 and C11: character codes of the regex model, AST generation and printing,
a word-level evaluator of the denotation (independent of both implementation and model)."""
from __future__ import annotations

import itertools

import enc

RESERVED = set("*|()? \t&+.^{}")
FIXED = {" ": 0, "\t": 1, "(": 2, ")": 3, "|": 4, "&": 5, "^": 6, "*": 7, "+": 8, "?": 9, ".": 10,
         "{": 11, "}": 12, ",": 13, "\n": 14, "\r": 15, "\x0b": 15, "\x0c": 15}
POOL = "abcdefghijklmnopqrstuvwxyzABCDEFGHIJKLMNOPQRSTUVWXYZé#_-=%@!;:<>/~'\"[]$\\`"


def code(ch: str) -> int:
    """Character -> code of coq/Model/RegexLex.v."""
    if ch in FIXED:
        return FIXED[ch]
    if ch.isdigit() and ch.isascii():
        return 16 + int(ch)
    return 26 + POOL.index(ch)


def chars(s: str):
    return [code(c) for c in s]


class CodeSyms:
    """Symbol map for enc.enc_nfa: a symbol is numbered by its character code."""

    def __init__(self, input_symbols):
        self.syms = sorted(input_symbols, key=code)

    def __call__(self, c):
        return code(c)


def alpha_arg(input_symbols):
    """Wire form of the optional input_symbols argument."""
    if input_symbols is None:
        return None            # enc.tree(None) = []
    return [sorted(code(c) for c in input_symbols)]


def effective_alphabet(s: str, input_symbols):
    return sorted(set(s) - RESERVED) if input_symbols is None else sorted(input_symbols)


# ---------------------------------------------------------------- ASTs
# ("eps",) ("sym", ch) ("any",) ("union", r, s) ("inter", r, s) ("shuffle", r, s) ("cat", r, s)
# ("star", r) ("plus", r) ("opt", r) ("rep", r, lo, hi|None)
BIN = {"union": "|", "inter": "&", "shuffle": "^"}
POST = {"star": "*", "plus": "+", "opt": "?"}
TAGS = ["eps", "sym", "any", "union", "inter", "shuffle", "cat", "star", "plus", "opt", "rep"]


def ast_wire(r):
    t = r[0]
    k = TAGS.index(t)
    if t == "eps" or t == "any":
        return [k]
    if t == "sym":
        return [k, code(r[1])]
    if t in BIN or t == "cat":
        return [k, ast_wire(r[1]), ast_wire(r[2])]
    if t in POST:
        return [k, ast_wire(r[1])]
    return [k, ast_wire(r[1]), r[2], [] if r[3] is None else [r[3]]]


def size(r):
    return 1 + sum(size(x) for x in r[1:] if isinstance(x, tuple))


def rand_bounds(rng):
    """Repetition bounds with the corner shapes: 0 upper bound, m = n, {m,}, {,n}, {,}."""
    k = rng.random()
    if k < 0.12:
        return (0, 0)
    if k < 0.30:
        m = rng.randint(0, 3)
        return (m, m)
    if k < 0.50:
        return (rng.randint(0, 3), None)
    if k < 0.65:
        return (0, rng.randint(0, 3))
    lo = rng.randint(0, 2)
    return (lo, lo + rng.randint(0, 2))


def rand_ast(rng, sigma, depth, p_prod=0.18, prod_budget=None):
    """Random AST over the symbols of sigma. Products (& ^) are limited by prod_budget (a
    one-element list used as a counter) to keep the automata small."""
    if prod_budget is None:
        prod_budget = [2]
    if depth <= 0 or rng.random() < 0.22:
        k = rng.random()
        if k < 0.70:
            return ("sym", rng.choice(sigma))
        if k < 0.85:
            return ("any",)
        return ("eps",)
    k = rng.random()
    if k < p_prod and prod_budget[0] > 0:
        prod_budget[0] -= 1
        return (rng.choice(["inter", "shuffle"]),
                rand_ast(rng, sigma, depth - 1, p_prod, prod_budget),
                rand_ast(rng, sigma, depth - 1, p_prod, prod_budget))
    if k < 0.40:
        return ("union", rand_ast(rng, sigma, depth - 1, p_prod, prod_budget),
                rand_ast(rng, sigma, depth - 1, p_prod, prod_budget))
    if k < 0.65:
        return ("cat", rand_ast(rng, sigma, depth - 1, p_prod, prod_budget),
                rand_ast(rng, sigma, depth - 1, p_prod, prod_budget))
    if k < 0.82:
        lo, hi = rand_bounds(rng)
        return ("rep", rand_ast(rng, sigma, depth - 1, p_prod, prod_budget), lo, hi)
    return (rng.choice(["star", "plus", "opt"]), rand_ast(rng, sigma, depth - 1, p_prod, prod_budget))


def has_zero_upper(r):
    """An {m,0} repetition somewhere (the shape of the C10 upper-bound-0 defect)."""
    if r[0] == "rep" and r[3] == 0:
        return True
    return any(has_zero_upper(x) for x in r[1:] if isinstance(x, tuple))


def quant_text(lo, hi, rng=None):
    a = str(lo)
    if lo == 0 and rng is not None and rng.random() < 0.5:
        a = ""
    b = "" if hi is None else str(hi)
    if rng is not None and rng.random() < 0.25:
        # blanks inside the braces, also in the place of an omitted bound ("{ ,2}", "{1, }", "{ , }")
        pad = lambda t: rng.choice(["", " ", "\t", "  "]) + t + rng.choice(["", " ", " "])     # noqa: E731
        a, b = pad(a), pad(b)
    return "{" + a + "," + b + "}"


def to_tokens(r, level=1, redundant=0.0, rng=None):
    """Token texts of the minimal-parenthesis printing (level: 1 binary, 2 concatenation,
    3 postfix operand). With redundant > 0, extra parentheses are added at random."""
    t = r[0]
    if t == "eps":
        out, mine = ["(", ")"], 4
    elif t == "sym":
        out, mine = [r[1]], 4
    elif t == "any":
        out, mine = ["."], 4
    elif t in BIN:
        out = to_tokens(r[1], 1, redundant, rng) + [BIN[t]] + to_tokens(r[2], 2, redundant, rng)
        mine = 1
    elif t == "cat":
        out = to_tokens(r[1], 2, redundant, rng) + to_tokens(r[2], 3, redundant, rng)
        mine = 2
    elif t in POST:
        out = to_tokens(r[1], 3, redundant, rng) + [POST[t]]
        mine = 3
    else:
        out = to_tokens(r[1], 3, redundant, rng) + [quant_text(r[2], r[3], rng)]
        mine = 3
    if mine < level:
        out = ["("] + out + [")"]
    if redundant and rng is not None:
        while rng.random() < redundant:
            out = ["("] + out + [")"]
    return out


def join_tokens(tokens, rng=None, p_blank=0.0):
    if not p_blank or rng is None:
        return "".join(tokens)
    out = []
    for tk in [None] + tokens:
        if tk is not None:
            out.append(tk)
        while rng.random() < p_blank:
            out.append(rng.choice([" ", " ", "\t"]))
    return "".join(out)


def print_ast(r, rng=None, redundant=0.0, p_blank=0.0):
    return join_tokens(to_tokens(r, 1, redundant, rng), rng, p_blank)


# ---------------------------------------------------------------- denotation on words <= N
def shuffles(u, v, memo={}):
    key = (u, v)
    if key in memo:
        return memo[key]
    if not u:
        res = {v}
    elif not v:
        res = {u}
    else:
        res = {u[0] + w for w in shuffles(u[1:], v)} | {v[0] + w for w in shuffles(u, v[1:])}
    memo[key] = res
    return res


def cat_sets(A, B, n):
    return {u + v for u in A for v in B if len(u) + len(v) <= n}


def den_upto(r, sigma, n):
    """Set of the words of length <= n in the denotation of r (wildcard over sigma)."""
    t = r[0]
    if t == "eps":
        return {""}
    if t == "sym":
        return {r[1]} if n >= 1 else set()
    if t == "any":
        return set(sigma) if n >= 1 else set()
    if t == "union":
        return den_upto(r[1], sigma, n) | den_upto(r[2], sigma, n)
    if t == "inter":
        return den_upto(r[1], sigma, n) & den_upto(r[2], sigma, n)
    if t == "cat":
        return cat_sets(den_upto(r[1], sigma, n), den_upto(r[2], sigma, n), n)
    if t == "shuffle":
        A, B = den_upto(r[1], sigma, n), den_upto(r[2], sigma, n)
        out = set()
        for u in A:
            for v in B:
                if len(u) + len(v) <= n:
                    out |= shuffles(u, v)
        return out
    A = den_upto(r[1], sigma, n)
    if t == "opt":
        return A | {""}
    if t == "star":
        lo, hi = 0, None
    elif t == "plus":
        lo, hi = 1, None
    else:
        lo, hi = r[2], r[3]
    # P_k = words <= n of A^k; for k > n the sequence is constant (empty, or stable when "" in A)
    top = max(lo, n) + 1 if hi is None else min(hi, max(lo, n) + 1)
    out = set()
    P = {""}
    for k in range(0, top + 1):
        if k >= lo:
            out |= P
        P = cat_sets(P, A, n)
    return out


def all_words(sigma, n):
    for k in range(n + 1):
        for t in itertools.product(sigma, repeat=k):
            yield "".join(t)


def enc_impl_nfa(n):
    st = enc.Renum(enc.nfa_names(n))
    return enc.enc_nfa(n, st, CodeSyms(n.input_symbols))
