"""C09 - NFA equality decides language equivalence (correspondence half)."""
from __future__ import annotations

import enc
import gen
import hkspy
from props.common import load_def, mk_nfa, outcome
from automata.fa.dfa import DFA
from automata.fa.nfa import NFA

RULE = ("random pairs of valid NFAs over a common alphabet (1-5 states, epsilon edges/cycles, nondeterminism) plus pairs "
        "built to be equivalent (an NFA vs its epsilon-eliminated form, vs the NFA view of its determinisation, vs its "
        "double reversal) and near-equivalent (one final flag flipped), and ultimately periodic 'lasso' pairs (periods 2 vs 3, a cycle vs its unrolling, one flag changed; a guess between cycles of lengths p and q vs the single cycle of length lcm(p, q), equal or with one flag flipped; two lassos of different shapes that agree on all short words); ==, != in both argument orders compared with "
        "the proved comparator and, for ==, with the mirror model of the code's Hopcroft-Karp/union-find loop over subset states (two symbol orders and tie-breaks, both argument orders), and the sequence of union calls observed by a spy on networkx's UnionFind is compared with the mirror model run under the observed schedule; additionally == is compared with DFA equality of the determinisations. distinct = "
        "canonical pair; non-trivial = both languages non-empty and the operands are not literally identical")


class SubNFA(NFA):
    """A user's subclass that changes nothing."""


class OtherSubNFA(NFA):
    """Another one."""


def variants(rng, n):
    yield "eliminated", n.eliminate_lambda()
    yield "determinised", NFA.from_dfa(DFA.from_nfa(n, minify=bool(rng.getrandbits(1))))
    yield "reversed_twice", n.reverse().reverse()


def hk_trace_prepare(a, b, ta, tb, sy, label):
    """Run a == b under the spy; return (wire item for the mirror model under the observed schedule, judge)."""
    if a.input_symbols != b.input_symbols or type(a) is not type(b):
        # (with an instance of a subclass on the right Python calls the reflected method first, so which operand
        # runs the loop is not what the expression says: only the answers are compared then)
        return None, None
    sta, stb = enc.Renum(enc.nfa_names(a)), enc.Renum(enc.nfa_names(b))

    def el(e):
        qs, idx = e
        st = (sta, stb)[idx]
        return [idx, sorted(st(q) for q in qs)]

    got, rec = hkspy.observe_eq(a, b)
    order = [sy(c) for c in a.input_symbols]
    try:
        ties = [[el(x), el(y)] for x, y in rec.first_wins]
        calls = [[el(x), el(y)] for x, y in rec.calls]
    except (KeyError, TypeError, ValueError, IndexError) as e:
        # the loop handled something that is not a state (set) of the operand it is tagged with: there is no schedule
        # to run the mirror model under; reported as a difference of the run (the answers are judged on their own)
        what = f"union-find was called on an element that does not belong to its operand ({type(e).__name__}: {e}); calls {rec.calls!r:.300}"
        return None, (lambda ctx, answer, eq_outcome: [what])

    def judge(ctx, answer, eq_outcome):
        m_res, m_log = answer
        m_res = enc.dec_res(m_res)
        want = ("ok", m_res[1] == 1) if m_res[0] == "ok" else ("err", m_res[1])
        out = []
        if got[:2] != want or got[:2] != eq_outcome[:2]:
            out.append(f"{label} under the observed schedule: impl {got} (unobserved run {eq_outcome}) mirror model {want}")
        if calls != m_log:
            out.append(f"{label}: union-find calls differ from the mirror model's: impl {calls} model {m_log}")
        ctx.tally("hk_trace_compared")
        ctx.tally(f"hk_unions_{min(len(calls), 6)}{'+' if len(calls) >= 6 else ''}")
        return out

    return (7, 7, enc.tree([ta, tb, order, ties])), judge


def check_pair(ctx, a, b, tag, defs=None):
    sy = enc.SymMap(a.input_symbols | b.input_symbols)
    ta, tb = enc.enc_nfa(a, None, sy), enc.enc_nfa(b, None, sy)
    traces = [hk_trace_prepare(a, b, ta, tb, sy, "eq"), hk_trace_prepare(b, a, tb, ta, sy, "eq_rev")]
    ans, hk, *trace_ans = ctx.driver.batch([(7, 5, enc.tree([ta, tb])), (7, 6, enc.tree([ta, tb]))]
                                           + [item for item, _ in traces if item])
    m_eq, m_ne, m_eq_rev, diff = (enc.dec_res(x) for x in ans)
    hk_eq, hk_eq_alt, hk_eq_rev = (enc.dec_res(x) for x in hk)
    got = {"eq": outcome(lambda: a == b), "ne": outcome(lambda: a != b),
           "eq_rev": outcome(lambda: b == a), "ne_rev": outcome(lambda: b != a)}
    problems = []
    if m_eq[0] != "ok":
        ctx.violation(f"model comparison failed: {m_eq}", {"kind": "model", "tag": tag}, confirmed=False)
        return
    want = m_eq[1] == 1
    for k, exp in (("eq", want), ("ne", not want), ("eq_rev", want), ("ne_rev", not want)):
        if got[k][:2] != ("ok", exp):
            problems.append(f"{k}: impl {got[k]} expected {exp}")
    # == against the mirror model of NFA.__eq__ (Hopcroft-Karp as coded)
    for k, sched, m in (("eq", "record order, first root wins ties", hk_eq),
                        ("eq", "reversed order, second root wins ties", hk_eq_alt),
                        ("eq_rev", "operands swapped", hk_eq_rev)):
        mw = ("ok", m[1] == 1) if m[0] == "ok" else ("err", m[1])
        if got[k][:2] != mw:
            problems.append(f"{k}: impl {got[k]} Hopcroft-Karp mirror model ({sched}) {mw}")
    ctx.tally("hk_mirror_compared")
    # the run of the loop itself: union calls seen by a spy on networkx's UnionFind against the mirror model driven
    # by the schedule the implementation actually used (symbol iteration order, tie-breaks); both argument orders
    trace_problems = []
    rest = list(trace_ans)
    for (item, judge), key in zip(traces, ("eq", "eq_rev")):
        if judge:
            trace_problems += judge(ctx, rest.pop(0) if item else None, got[key])
    da, db = DFA.from_nfa(a), DFA.from_nfa(b)
    if got["eq"][0] == "ok" and (da == db) != got["eq"][1]:
        problems.append(f"== on the NFAs is {got['eq'][1]} but == on their determinisations is {da == db}")
    word = diff[1][0] if diff[0] == "ok" and diff[1] else None
    ctx.tally("equal" if want else "different")
    ctx.tally("pair_" + tag)
    ctx.case((enc.tree(ta), enc.tree(tb)), enc.tree(ta) != enc.tree(tb) and not da.isempty() and not db.isempty(),
             sample={"A": repr(a), "B": repr(b), "eq": got["eq"][1]})
    if trace_problems and not problems:
        # same answers, different run: the code's loop is no longer the one the mirror model describes (a different
        # union-find, agenda or expansion order). The property fixes the boolean only - decided above against the
        # specification model, which is proved to be language equality - so this is a structural difference, counted
        # and shown in the evidence, not a violation.
        ctx.structural += 1
        ctx.tally("hk_trace_differs_from_mirror_model")
        if len(ctx.notes) < 3:
            ctx.notes.append("hk_trace differs: " + "; ".join(trace_problems)[:300])
        return
    problems += trace_problems
    if problems:
        conf = None
        if word is not None:
            s = sy.unword(word)
            conf = {"word": s, "A_accepts": a.accepts_input(s), "B_accepts": b.accepts_input(s)}
        ctx.violation("NFA equality disagrees with language equivalence: " + "; ".join(problems),
                      {"kind": "pair", "A": repr(a.input_parameters), "B": repr(b.input_parameters),
                       "problems": problems, "distinguishing_word": conf, "tag": tag})


def check_session(ctx, refdef, otherdefs, tag):
    """One long-lived left operand compared with a series of short-lived right operands (each dropped before the next
    is built): the answers must not depend on what was compared before."""
    ref = mk_nfa(refdef)
    got = []
    for od in otherdefs:
        other = mk_nfa(od)
        got.append((outcome(lambda: ref == other), outcome(lambda: ref != other)))
        del other
    sy = enc.SymMap(ref.input_symbols)
    tr = enc.enc_nfa(ref, None, sy)
    items = [(7, 5, enc.tree([tr, enc.enc_nfa(mk_nfa(od), None, sy)])) for od in otherdefs]
    for j, (od, (g_eq, g_ne), ans) in enumerate(zip(otherdefs, got, ctx.driver.batch(items))):
        m_eq = enc.dec_res(ans[0])
        ctx.tally("session_comparison")
        if m_eq[0] != "ok":
            continue
        want = m_eq[1] == 1
        problems = []
        if g_eq[:2] != ("ok", want):
            problems.append(f"eq: impl {g_eq} expected {want}")
        if g_ne[:2] != ("ok", not want):
            problems.append(f"ne: impl {g_ne} expected {not want}")
        if problems:
            x, y = mk_nfa(refdef), mk_nfa(od)
            fresh = outcome(lambda: x == y)
            ctx.violation(f"NFA comparison #{j + 1} of a series on one left operand disagrees with language equivalence "
                          f"(the same comparison on fresh objects gives {fresh}): " + "; ".join(problems),
                          {"kind": "session", "A": repr(refdef), "Bs": [repr(o) for o in otherdefs], "index": j,
                           "problems": problems, "tag": tag})
            return


def flip_final(rng, ndef):
    d = dict(ndef)
    q = rng.choice(sorted(ndef["states"], key=enc.sort_key))
    d["final_states"] = set(ndef["final_states"]) ^ {q}
    return d


def run(ctx):
    ctx.rule = RULE
    rng = ctx.rng
    for i in range(ctx.n(400, 6000)):
        sigma = gen.rand_alphabet(rng, 2)
        adef = gen.rand_nfa_def(rng, nmax=rng.choice([5, 5, 6]), alphabet=sigma)
        a = mk_nfa(adef)
        r = rng.random()
        if i % 3 == 0:
            for _ in range(4):
                x, y, tag = gen.lasso_pair(rng, rng.choice(["a", "a", "ab"]))
                check_pair(ctx, mk_nfa(x), mk_nfa(y), tag)
            x, y, tag = gen.coprime_cycles_pair(rng)
            check_pair(ctx, mk_nfa(x), mk_nfa(y), tag)
            for _ in range(3):
                x, y, tag = gen.prefix_agreeing_lassos(rng)
                check_pair(ctx, mk_nfa(x), mk_nfa(y), tag)
        if i % 5 == 0:
            # (the right operands use the left operand's names: same-named state sets with other transitions)
            names, _ = gen.pick_names(rng, 5)
            refdef = gen.rand_nfa_def(rng, nmax=5, alphabet=sigma, names=list(names))
            others = [gen.rand_nfa_def(rng, nmax=5, alphabet=sigma, names=list(names)) if rng.random() < 0.7
                      else flip_final(rng, refdef) for _ in range(5)]
            check_session(ctx, refdef, others, "session")
        if i % 7 == 0:
            # an instance of a subclass is an NFA too: same answers in every combination of classes
            b = rng.choice([adef, flip_final(rng, adef), gen.rand_nfa_def(rng, nmax=5, alphabet=sigma)])
            check_pair(ctx, SubNFA(**adef), mk_nfa(b), "subclass_left")
            check_pair(ctx, a, SubNFA(**b), "subclass_right")
            check_pair(ctx, SubNFA(**adef), OtherSubNFA(**b), "sibling_subclasses")
        if r < 0.4:
            check_pair(ctx, a, mk_nfa(gen.rand_nfa_def(rng, nmax=5, alphabet=sigma)), "random")
        elif r < 0.7:
            for tag, b in variants(rng, a):
                if len(b.states) <= 9:
                    check_pair(ctx, a, b, tag)
        else:
            check_pair(ctx, a, mk_nfa(flip_final(rng, adef)), "one_flag_flipped")
            # a structurally different automaton for nearly the same language: a variant with one flag flipped
            for tag, b in variants(rng, a):
                if 2 <= len(b.states) <= 9:
                    bdef = flip_final(rng, dict(b.input_parameters))
                    check_pair(ctx, a, mk_nfa(bdef), tag + "_one_flag_flipped")


def replay(ctx, case):
    if case["kind"] == "session":
        check_session(ctx, load_def(case["A"]), [load_def(b) for b in case["Bs"]], "replay")
    if case["kind"] == "pair":
        check_pair(ctx, mk_nfa(load_def(case["A"])), mk_nfa(load_def(case["B"])), "replay")
    print("replay:", "VIOLATION reproduced" if ctx.violations else "no disagreement")
