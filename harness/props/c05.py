"""C05 - minimisation preserves the language and reaches the minimum state count
(correspondence half: DFA.minify / DFA.to_partial vs the extracted model)."""
from __future__ import annotations

import copy
import itertools

import enc
import gen
from automata.fa.dfa import DFA
from props.common import load_def, mk_dfa, outcome

RULE = ("valid DFA definitions: random (1-6 states, 1-3 symbols, 7 name pools incl. negative ints) plus shaped ones - "
        "a live core with dead states entered by explicit edges, unreachable states, cloned (Nerode-equivalent) states, "
        "larger dense DFAs (6-9 states), dead / non-final initial state, empty and universal languages, already-minimal inputs (the model's own result fed "
        "back), states named -1, -2 (trap-name collision); each evaluated through minify(), minify(retain_names=True), "
        "to_partial(minify=True, retain_names=False/True), to_partial(minify=False) and minify().minify(); one shaped "
        "definition in ten is built and used under allow_mutable_automata = True (plain dicts and sets kept); "
        "every case is also run through the mirror model of the Hopcroft worklist under four pop schedules "
        "(oldest first, a random one, newest-first / smallest-id / largest-id in rotation) and shuffled symbol orders; "
        "distinct = distinct canonical input; non-trivial = the minimal automaton has fewer states than the input "
        "(something is merged or dropped)")

OPS = [
    # name, model op (prop 5), call
    ("minify", 1, lambda d: d.minify()),
    ("minify_rn", 1, lambda d: d.minify(retain_names=True)),
    ("to_partial_min", 2, lambda d: d.to_partial(minify=True, retain_names=False)),
    ("to_partial_min_rn", 2, lambda d: d.to_partial(minify=True, retain_names=True)),
    ("to_partial_plain", 3, lambda d: d.to_partial(minify=False)),
]


# ---------- generators specific to C05 ----------
def shaped_def(rng):
    """Live core + dead part + unreachable part + clones; every corner of the quantifier text."""
    sigma = gen.rand_alphabet(rng)
    kind = rng.choice(["negint", "negint", "int", "mixed", "str", "tuple", "fset", "strmix"])
    n_core = rng.randint(1, 4)
    n_dead = rng.choice([0, 1, 1, 2])
    n_unre = rng.choice([0, 0, 1, 2])
    n_clone = rng.choice([0, 0, 1, 2])
    total = n_core + n_dead + n_unre + n_clone
    names, _ = gen.pick_names(rng, total, kind)
    rng.shuffle(names)
    core = names[:n_core]
    dead = names[n_core:n_core + n_dead]
    unre = names[n_core + n_dead:n_core + n_dead + n_unre]
    clones = names[n_core + n_dead + n_unre:]
    partial = rng.random() < 0.7
    trans = {q: {} for q in names}
    p_edge = rng.choice([1.0, 0.8, 0.6]) if partial else 1.0
    p_dead = rng.choice([0.15, 0.3, 0.5]) if dead else 0.0
    for q in core:
        for a in sigma:
            if rng.random() < p_edge:
                trans[q][a] = rng.choice(dead) if rng.random() < p_dead else rng.choice(core)
    for q in dead:          # dead states: non-final, edges (if any) stay inside the dead part
        for a in sigma:
            if not partial or rng.random() < 0.5:
                trans[q][a] = rng.choice(dead)
    for q in unre:          # not entered from anywhere else; may point anywhere
        for a in sigma:
            if not partial or rng.random() < 0.7:
                trans[q][a] = rng.choice(names)
    finals = {q for q in core if rng.random() < rng.choice([0.0, 0.3, 0.5, 1.0])}
    if not finals and rng.random() < 0.85:
        finals.add(rng.choice(core))        # keep the empty language a minority
    finals |= {q for q in unre if rng.random() < 0.5}
    # clones: copy the row and the finality of a core state, then redirect some edges to the clone
    for cq in clones:
        src = rng.choice(core)
        trans[cq] = dict(trans[src])
        if src in finals:
            finals.add(cq)
        for q in core:
            for a in list(trans[q]):
                if trans[q][a] == src and rng.random() < 0.5:
                    trans[q][a] = cq
        # near-clone: one edge of the copy goes into the dead part instead (explicit edge from a kept
        # state into a dropped one - must behave like a missing edge)
        if dead and trans[cq] and rng.random() < 0.5:
            trans[cq][rng.choice(sorted(trans[cq]))] = rng.choice(dead)
    if not partial:
        for q in names:
            for a in sigma:
                trans[q].setdefault(a, rng.choice(dead) if dead and rng.random() < 0.5 else rng.choice(core))
    init = core[0]
    r = rng.random()
    if dead and r < 0.08:
        init = dead[0]                      # dead initial state
    return dict(states=set(names), input_symbols=set(sigma), transitions=trans, initial_state=init,
                final_states=finals, allow_partial=partial)


def big_def(rng):
    """Larger, dense automata (6-9 states, 2-3 symbols): many splitting rounds, so a wrong splitter
    schedule in the implementation's refinement shows as an unmerged or wrongly merged class."""
    sigma = rng.choice(["ab", "abc", "abc", "xyz"])
    n = rng.randint(6, 9) if rng.random() < 0.4 else rng.randint(9, 14)
    names, _ = gen.pick_names(rng, n, rng.choice(["int", "negint", "str", "tuple"]))
    partial = rng.random() < 0.5
    dens = rng.choice([1.0, 0.95, 0.85]) if partial else 1.0
    trans = {q: {a: rng.choice(names) for a in sigma if rng.random() < dens} for q in names}
    pf = rng.choice([0.2, 0.35, 0.5])
    finals = {q for q in names if rng.random() < pf} or {rng.choice(names)}
    return dict(states=set(names), input_symbols=set(sigma), transitions=trans, initial_state=names[0],
                final_states=finals, allow_partial=partial)


def collision_def(rng):
    """Kept states 0..k-1 (sometimes also -1) with at least one missing transition, plus an UNREACHABLE state
    named -1 (or -2) that has transitions into the kept states and whose row comes last in the table: the
    implicit trap of the minimiser gets the first free negative name, which must not be this state's."""
    sigma = rng.choice(["a", "ab", "ab", "abc"])
    k = rng.randint(1, 4)
    kept = list(range(k))
    dropped = -1
    if rng.random() < 0.3:
        kept.append(-1)
        dropped = -2
    trans = {}
    for q in kept:
        trans[q] = {a: rng.choice(kept) for a in sigma if rng.random() < 0.7}
    if all(len(trans[q]) == len(sigma) for q in kept):
        q = rng.choice(kept)
        trans[q].pop(rng.choice(sorted(trans[q])))
    trans[dropped] = {a: rng.choice(kept) for a in sigma if rng.random() < 0.9}
    if rng.random() < 0.3:
        trans = dict(reversed(list(trans.items())))     # the stray row first
    finals = {q for q in kept if rng.random() < 0.5} or {rng.choice(kept)}
    if rng.random() < 0.3:
        finals.add(dropped)
    return dict(states=set(kept) | {dropped}, input_symbols=set(sigma), transitions=trans, initial_state=0,
                final_states=finals, allow_partial=True)


def corner_defs():
    """Hand-written corner cases (run first): the section-8 reproducer and its relatives."""
    out = []
    out.append(("repro_row2", dict(states={0, 1, 2, 3}, input_symbols={"a", "b"},
                                   transitions={0: {"a": 3, "b": 1}, 1: {"a": 3, "b": 2}, 2: {}, 3: {"a": 1, "b": 3}},
                                   initial_state=0, final_states={3}, allow_partial=True)))
    # complete DFA with a dead state: to_partial(minify=True) goes through the same code
    out.append(("complete_with_dead", dict(states={0, 1, 2}, input_symbols={"a", "b"},
                                           transitions={0: {"a": 1, "b": 2}, 1: {"a": 1, "b": 2}, 2: {"a": 2, "b": 2}},
                                           initial_state=0, final_states={1}, allow_partial=False)))
    # trap-name collision: the dropped (dead) state is called -1, kept states 0, 1
    out.append(("trap_name_collision", dict(states={0, 1, -1}, input_symbols={"a", "b"},
                                            transitions={0: {"a": 1, "b": -1}, 1: {"a": 0}, -1: {"a": -1}},
                                            initial_state=0, final_states={1}, allow_partial=True)))
    out.append(("trap_name_collision2", dict(states={-1, -2, -3}, input_symbols={"a", "b"},
                                             transitions={-1: {"a": -2, "b": -3}, -2: {"a": -1, "b": -3}, -3: {"b": -3}},
                                             initial_state=-1, final_states={-2}, allow_partial=True)))
    # dead initial state (empty language), partial and complete
    out.append(("dead_initial_partial", dict(states={0, 1}, input_symbols={"a"}, transitions={0: {"a": 1}, 1: {}},
                                             initial_state=0, final_states=set(), allow_partial=True)))
    out.append(("dead_initial_selfloop", dict(states={0}, input_symbols={"a", "b"}, transitions={0: {"a": 0, "b": 0}},
                                              initial_state=0, final_states=set(), allow_partial=True)))
    out.append(("dead_initial_cycle", dict(states={0, 1}, input_symbols={"a"}, transitions={0: {"a": 1}, 1: {"a": 0}},
                                           initial_state=0, final_states=set(), allow_partial=True)))
    out.append(("empty_complete", dict(states={0, 1}, input_symbols={"a", "b"},
                                       transitions={0: {"a": 1, "b": 0}, 1: {"a": 0, "b": 1}},
                                       initial_state=0, final_states=set(), allow_partial=False)))
    # universal language
    out.append(("universal", dict(states={0, 1}, input_symbols={"a", "b"},
                                  transitions={0: {"a": 1, "b": 0}, 1: {"a": 0, "b": 1}},
                                  initial_state=0, final_states={0, 1}, allow_partial=False)))
    out.append(("universal_partial_flag", dict(states={0, 1}, input_symbols={"a"},
                                               transitions={0: {"a": 1}, 1: {"a": 0}},
                                               initial_state=0, final_states={0, 1}, allow_partial=True)))
    # final state that is unreachable, non-final initial state
    out.append(("unreachable_final", dict(states={0, 1, 2}, input_symbols={"a"},
                                          transitions={0: {"a": 0}, 1: {"a": 2}, 2: {"a": 2}},
                                          initial_state=0, final_states={2}, allow_partial=True)))
    # only the empty word
    out.append(("only_empty_word", dict(states={0}, input_symbols={"a", "b"}, transitions={0: {}},
                                        initial_state=0, final_states={0}, allow_partial=True)))
    return out


def def_from_wire(t, sy):
    """Wire DFA (model result) -> constructor kwargs (states stay ints)."""
    states, syms, trans, init, finals, partial = t
    tr = {q: {} for q in states}
    for q, row in trans:
        tr[q] = {sy.syms[a]: tgt for a, tgt in row}
    return dict(states=set(states), input_symbols=set(sy.syms), transitions=tr, initial_state=init,
                final_states=set(finals), allow_partial=bool(partial))


# ---------- brute-force oracle on an implementation result (confirmation only) ----------
def py_nonminimal_reason(r):
    """Why the DFA r (as returned by the implementation) is not minimal for its own kind, or None."""
    states = list(r.states)
    sigma = sorted(r.input_symbols)
    # reachability
    seen, todo = {r.initial_state}, [r.initial_state]
    while todo:
        q = todo.pop()
        for t in r.transitions.get(q, {}).values():
            if t not in seen:
                seen.add(t)
                todo.append(t)
    if len(seen) < len(states):
        return f"unreachable state(s) {sorted(set(states) - seen, key=repr)!r}"
    # Moore refinement with an explicit sink
    sink = object()
    allq = states + [sink]

    def step(q, a):
        if q is sink:
            return sink
        return r.transitions.get(q, {}).get(a, sink)

    cls = {q: (q is not sink and q in r.final_states) for q in allq}
    while True:
        sigs = {q: (cls[q],) + tuple(cls[step(q, a)] for a in sigma) for q in allq}
        ids = {}
        new = {q: ids.setdefault(sigs[q], len(ids)) for q in allq}
        if len(set(new.values())) == len(set(cls.values())):
            break
        cls = new
    for p, q in itertools.combinations(states, 2):
        if cls[p] == cls[q]:
            return f"states {p!r} and {q!r} accept the same words"
    if r.allow_partial:
        for q in states:
            if cls[q] == cls[sink] and len(states) > 1:
                return f"partial result keeps the dead state {q!r}"
    return None


# ---------- schedules for the mirror model of the Hopcroft worklist (prop 5, ops 5 and 6) ----------
ROTATE = [("newest_first", 1), ("smallest_id", 2), ("largest_id", 3)]


def mirror_requests(rng, src, nsy, serial):
    """[(label, which, op, tree)]: which = 1 the kept states of minify(), 2 those of to_partial()."""
    out = []
    nat = list(range(nsy))
    for which in (1, 2):
        shuf = nat[:]
        rng.shuffle(shuf)
        rot_name, rot_mode = ROTATE[(serial + which) % 3]
        scheds = [("oldest_first", 0, [], nat),
                  ("random", rng.choice([0, 1]), [rng.randrange(8) for _ in range(16)], shuf),
                  (rot_name, rot_mode, [], list(reversed(nat)))]
        for label, mode, choices, sord in scheds:
            out.append((label, which, 5, enc.tree([src, which, mode, choices, sord, 0])))
        shuf2 = nat[:]
        rng.shuffle(shuf2)
        out.append(("coded", which, 6, enc.tree([src, which, rng.choice([0, 1, 2, 3]),
                                                  [rng.randrange(8) for _ in range(16)], shuf2, rng.choice([0, 1, 2])])))
    return out


# ---------- one batch of cases ----------
class MutableMode:
    """allow_mutable_automata = True for a block (the automaton then keeps the plain dicts and sets it was given)."""

    def __init__(self, on):
        self.on = on

    def __enter__(self):
        import automata.base.config as cfg
        self.cfg, self.saved = cfg, cfg.allow_mutable_automata
        if self.on:
            cfg.allow_mutable_automata = True

    def __exit__(self, *exc):
        self.cfg.allow_mutable_automata = self.saved


def check_defs(ctx, items):
    """items: list of (tag, ddef).  Two driver round trips for the whole list."""
    prepared = []
    req = []
    for tag, ddef in items:
        with MutableMode(tag.endswith("mutable_mode")):
            d = mk_dfa(copy.deepcopy(ddef))
        st = enc.Renum(enc.dfa_names(d))
        sy = enc.SymMap(d.input_symbols)
        src = enc.enc_dfa(d, st, sy)
        mreqs = mirror_requests(ctx.rng, src, len(d.input_symbols), len(prepared))
        prepared.append((tag, ddef, d, st, sy, src, len(req), mreqs))
        for op in (1, 2, 3):
            req.append((5, op, enc.tree(src)))
        for _, _, mop_, t_ in mreqs:
            req.append((5, mop_, t_))
    ans = ctx.driver.batch(req)
    req2, plan = [], []
    for i, (tag, ddef, d, st, sy, src, base0, mreqs) in enumerate(prepared):
        model = {1: enc.dec_res(ans[base0]), 2: enc.dec_res(ans[base0 + 1]), 3: enc.dec_res(ans[base0 + 2])}
        mirror = [(label, which, mop_, enc.dec_res(ans[base0 + 3 + j])) for j, (label, which, mop_, _) in enumerate(mreqs)]
        results = {}
        with MutableMode(tag.endswith("mutable_mode")):
            for name, mop, call in OPS:
                results[name] = outcome(lambda: call(d))
            twice = outcome(lambda: d.minify().minify())
        entry = {"tag": tag, "ddef": ddef, "d": d, "st": st, "sy": sy, "src": src, "model": model,
                 "results": results, "twice": twice, "slots": {}, "mirror": mirror, "cslots": {}}
        for name, mop, call in OPS:
            r = results[name]
            mres = model[mop]
            if r[0] != "ok" or mres[0] != "ok":
                continue
            mdfa = mres[1] if mop == 3 else mres[1][0]
            rt = enc.enc_dfa(r[1], enc.Renum(enc.dfa_names(r[1])), sy)
            entry["slots"][name] = (len(req2), mdfa)
            req2.append((0, 1, enc.tree([rt, src])))
            req2.append((0, 1, enc.tree([rt, mdfa])))
            req2.append((5, 4, enc.tree(rt)))
            # the implementation's result against _minify as coded (mirror model, op 6)
            if mop != 3:
                coded = [mm for (lb, wh, o6, mm) in mirror if o6 == 6 and wh == mop]
                if coded and coded[0][0] == "ok":
                    entry["cslots"][name] = (len(req2), coded[0][1][0])
                    req2.append((0, 1, enc.tree([rt, coded[0][1][0]])))
        plan.append(entry)
    ans2 = ctx.driver.batch(req2)
    for e in plan:
        judge(ctx, e, ans2)
    return plan


def judge(ctx, e, ans2):
    d, st, sy = e["d"], e["st"], e["sy"]
    problems = []       # (text, confirmed)
    for name, mop, call in OPS:
        r = e["results"][name]
        mres = e["model"][mop]
        if mres[0] != "ok":
            problems.append((f"{name}: the model returns error {mres[1]} (fuel/decoding) - correspondence C05/{name} broken", False))
            continue
        if r[0] != "ok":
            problems.append((f"{name}: the implementation raises {r[2]} on a valid DFA", True))
            continue
        res = r[1]
        base, mdfa = e["slots"][name]
        vs_src, vs_model, trim = ans2[base], ans2[base + 1], ans2[base + 2]
        if vs_src[0] != 1:
            problems.append((f"{name}: result does not pass validation", False))
        dsrc = enc.dec_res(vs_src[4])
        dmod = enc.dec_res(vs_model[4])
        if dsrc[0] != "ok" or dmod[0] != "ok":
            problems.append((f"{name}: comparator ran out of fuel", False))
            continue
        lang_bad = False
        if dsrc[1] != []:
            w = sy.unword(dsrc[1][0])
            conf = bool(res.accepts_input(w)) != bool(d.accepts_input(w))
            problems.append((f"{name}: language changed - source {'accepts' if d.accepts_input(w) else 'rejects'} {w!r}, "
                             f"result {'accepts' if res.accepts_input(w) else 'rejects'} it", conf))
            lang_bad = True
        elif dmod[1] != []:
            problems.append((f"{name}: result differs from the model's result on {sy.unword(dmod[1][0])!r} although both equal the source", False))
        isz, msz = vs_model[2], vs_model[3]
        if mop != 3:
            if isz != msz and not lang_bad:
                why = py_nonminimal_reason(res)
                problems.append((f"{name}: result has {isz} states, the minimal DFA of its kind has {msz}"
                                 + (f" ({why})" if why else ""), why is not None))
            if name.endswith("_rn") and not lang_bad and isz == msz:
                blocks = mres[1][1]
                if blocks:
                    want = {tuple(b) for b in blocks}
                    try:
                        got = {tuple(sorted(st(q) for q in s)) for s in res.states}
                    except (TypeError, KeyError):
                        got = None
                    if got != want:
                        ctx.structural += 1
                        problems.append((f"{name}: retained names are not the merged classes: {sorted(res.states, key=repr)!r} "
                                         f"vs model partition {[[st.names[i] for i in b] for b in blocks]!r}", False))
            if bool(res.allow_partial) != bool(mdfa[5]) and not lang_bad and isz == msz:
                # same language, same minimal size, but flagged differently: only possible for the one-state
                # automaton of the empty language (a lone dead state with or without its self loops); the
                # property fixes the state count, not the flag - recorded as a structural difference
                ctx.structural += 1
                ctx.tally("structural_partial_flag_differs")
        else:
            if isz != msz and not lang_bad:
                problems.append((f"{name}: result has {isz} states, expected {msz} (reachable and co-accessible + initial)", False))
            if trim[1] != 1 and not lang_bad:
                problems.append((f"{name}: result keeps an unreachable or dead non-initial state", False))
    # ---- the mirror model of the Hopcroft worklist (theorems C05_hopcroft_faithful / _partition /
    #      C05_coded_*): every schedule must give the specification model's partition, and the
    #      implementation's retained names must be that partition as well ----
    for label, which, mop_, mm in e["mirror"]:
        spec = e["model"][which]
        if mm[0] != "ok":
            problems.append((f"mirror model ({label}, {'minify' if which == 1 else 'to_partial'}): error {mm[1]} "
                             f"(fuel/decoding) - the Hopcroft mirror did not terminate within |Q|+1 pops", False))
            continue
        if spec[0] != "ok":
            continue
        want = {tuple(b) for b in spec[1][1]}
        got_m = {tuple(b) for b in (mm[1][0] if mop_ == 5 else mm[1][1])}
        ctx.tally("mirror_schedule_" + label)
        if got_m != want:
            problems.append((f"mirror model ({label}): the Hopcroft partition {sorted(got_m)!r} differs from the "
                             f"specification model's {sorted(want)!r} (contradicts C05_hopcroft_faithful)", False))
        for name, mop, call in OPS:
            if mop != which or not name.endswith("_rn"):
                continue
            r = e["results"][name]
            if r[0] != "ok" or not got_m:
                continue
            try:
                got_i = {tuple(sorted(st(q) for q in s_)) for s_ in r[1].states}
            except (TypeError, KeyError):
                got_i = None
            if got_i != got_m:
                problems.append((f"{name}: retained names {sorted(r[1].states, key=repr)!r} are not the partition the mirror "
                                 f"model of the Hopcroft loop ends with under schedule {label}: "
                                 f"{[[st.names[i] for i in b] for b in sorted(got_m)]!r}", False))
    for name, (slot, cdfa) in e["cslots"].items():
        vs_coded = ans2[slot]
        res = e["results"][name][1]
        dc = enc.dec_res(vs_coded[4])
        if dc[0] != "ok":
            problems.append((f"{name}: comparator ran out of fuel (coded mirror)", False))
            continue
        ctx.tally("coded_mirror_compared")
        if dc[1] != []:
            w = sy.unword(dc[1][0])
            conf = bool(res.accepts_input(w)) != bool(d.accepts_input(w))
            problems.append((f"{name}: result differs from the coded mirror model's result on {w!r}", conf))
        elif vs_coded[2] != vs_coded[3]:
            problems.append((f"{name}: result has {vs_coded[2]} states, _minify as coded (mirror model) gives {vs_coded[3]}",
                             py_nonminimal_reason(res) is not None))
        elif bool(res.allow_partial) != bool(cdfa[5]):
            ctx.structural += 1
            ctx.tally("structural_partial_flag_differs_from_coded_mirror")
    # idempotence on the implementation alone
    t = e["twice"]
    once = e["results"]["minify"]
    if once[0] == "ok":
        if t[0] != "ok":
            problems.append((f"minify().minify() raises {t[2]}", True))
        elif len(t[1].states) != len(once[1].states):
            problems.append((f"minify is not idempotent in size: {len(once[1].states)} then {len(t[1].states)} states", True))
    msize = e["model"][1][1][0][0] if e["model"][1][0] == "ok" else None
    nontrivial = msize is not None and len(msize) < len(d.states)
    ctx.tally("partial_input" if d.allow_partial else "complete_input")
    ctx.tally("states_%d" % len(d.states))
    if msize is not None:
        ctx.tally("merged_or_dropped" if nontrivial else "already_minimal")
        mp = e["model"][1][1][0]
        ctx.tally("result_partial" if mp[5] else "result_complete")
        if not mp[4]:
            ctx.tally("empty_language")
    ctx.tally("gen_" + e["tag"].split(":")[0])
    if any(isinstance(q, int) and not isinstance(q, bool) and q < 0 for q in d.states):
        ctx.tally("negative_int_state_names")
    ctx.case(enc.tree(e["src"]), nontrivial,
             sample={"dfa": repr(e["ddef"]), "tag": e["tag"],
                     "impl_minify_states": len(once[1].states) if once[0] == "ok" else repr(once),
                     "model_minify_states": len(msize) if msize is not None else None})
    if problems:
        confirmed = any(c for _, c in problems)
        ctx.violation("minimisation disagrees with the model: " + "; ".join(p for p, _ in problems),
                      {"kind": "dfa", "def": repr(e["ddef"]), "tag": e["tag"], "problems": [p for p, _ in problems],
                       "calls": [n for n, _, _ in OPS] + ["minify().minify()"]},
                      confirmed=confirmed)


def chunks(it, n):
    buf = []
    for x in it:
        buf.append(x)
        if len(buf) >= n:
            yield buf
            buf = []
    if buf:
        yield buf


def exhaustive_defs(nmax):
    for n in range(1, nmax + 1):
        for tgt in itertools.product([None] + list(range(n)), repeat=2 * n):
            trans = {q: {a: tgt[2 * q + j] for j, a in enumerate("ab") if tgt[2 * q + j] is not None}
                     for q in range(n)}
            for fin in itertools.product([0, 1], repeat=n):
                yield ("exhaustive", dict(states=set(range(n)), input_symbols={"a", "b"}, transitions=trans,
                                          initial_state=0, final_states={q for q in range(n) if fin[q]},
                                          allow_partial=True))


def exhaustive_complete_defs(nmax):
    for n in range(1, nmax + 1):
        for tgt in itertools.product(range(n), repeat=2 * n):
            trans = {q: {a: tgt[2 * q + j] for j, a in enumerate("ab")} for q in range(n)}
            for fin in itertools.product([0, 1], repeat=n):
                yield ("exhaustive_complete", dict(states=set(range(n)), input_symbols={"a", "b"}, transitions=trans,
                                                   initial_state=0, final_states={q for q in range(n) if fin[q]},
                                                   allow_partial=False))


def stress_minify(ctx, n):
    """Refinement-schedule stress: many complete DFAs with 8-14 states over {a,b}; only minify() (and
    to_partial(minify=True)) are called, the result is judged by state count against the model's minimal
    DFA and by language against the SOURCE (proved comparator). A splitter left out of Hopcroft's worklist
    shows on well under 1% of such inputs, hence the volume."""
    rng = ctx.rng
    for lo in range(0, n, 300):
        cases, req = [], []
        for _ in range(min(300, n - lo)):
            k = rng.randint(8, 14)
            names = list(range(k))
            trans = {q: {a: rng.choice(names) for a in "ab"} for q in names}
            finals = {q for q in names if rng.random() < rng.choice([0.25, 0.4, 0.5])} or {0}
            ddef = dict(states=set(names), input_symbols={"a", "b"}, transitions=trans, initial_state=0,
                        final_states=finals, allow_partial=False)
            d = mk_dfa(ddef)
            st, sy = enc.Renum(enc.dfa_names(d)), enc.SymMap(d.input_symbols)
            src = enc.enc_dfa(d, st, sy)
            use_partial = rng.random() < 0.3
            r = outcome(lambda: d.to_partial(minify=True) if use_partial else d.minify())
            if r[0] != "ok":
                ctx.violation(f"minimisation raised {r[2]} on a valid complete DFA", {"kind": "dfa", "def": repr(ddef), "tag": "stress"})
                continue
            rt = enc.enc_dfa(r[1], None, sy)
            cases.append((ddef, d, r[1], sy))
            req.append((5, 2 if use_partial else 1, enc.tree(src)))
            req.append((0, 1, enc.tree([rt, src])))
        ans = ctx.driver.batch(req)
        for i, (ddef, d, res, sy) in enumerate(cases):
            m = enc.dec_res(ans[2 * i])
            cmp_ = ans[2 * i + 1]
            problems = []
            diff = enc.dec_res(cmp_[4])
            if diff[0] == "ok" and diff[1]:
                w = sy.unword(diff[1][0])
                problems.append(f"language changed: word {w!r} (source accepts {d.accepts_input(w)}, result accepts {res.accepts_input(w)})")
            if not cmp_[0]:
                problems.append("result is not valid")
            if m[0] == "ok":
                msize = len(m[1][0][0])
                if len(res.states) != msize:
                    problems.append(f"result has {len(res.states)} states, the minimal DFA of its kind has {msize}")
            ctx.tally("stress_minify")
            ctx.case(("stress", enc.tree(enc.enc_dfa(d, None, sy))), True)
            if problems:
                ctx.violation("minimisation (refinement stress) disagrees: " + "; ".join(problems),
                              {"kind": "dfa", "def": repr(ddef), "tag": "stress", "problems": problems})


def ops_minify_stream(ctx, n):
    """'...directly or through the minify option of another operation': union / intersection / difference /
    symmetric_difference / complement / DFA.from_nfa with minify=True. The un-minified result of the same call is
    the reference: the minified result must have the same language and the minimum number of states for a DFA of its
    own kind (live residual classes, plus the dead class when it is complete and the language has one), computed by
    the model from the un-minified result. Operand pairs include alphabets with a symbol that labels no transition
    and operands that are total on the used symbols only."""
    from automata.fa.nfa import NFA
    rng = ctx.rng
    ops = ["union", "intersection", "difference", "symmetric_difference"]
    for lo in range(0, n, 200):
        cases, req = [], []
        for i in range(min(200, n - lo)):
            sigma = rng.choice(["ab", "abc", "abc", "xyz"])
            used = sigma if rng.random() < 0.5 else sigma[:-1]          # last symbol never labels a transition
            def operand():
                dd = gen.rand_dfa_def(rng, nmax=4, alphabet=used, partial=rng.random() < 0.6)
                if rng.random() < 0.5:
                    dd = gen.rand_dfa_with_dead(rng, alphabet=used, partial=rng.random() < 0.7)
                dd = dict(dd)
                dd["input_symbols"] = set(sigma)
                if used != sigma:
                    dd["allow_partial"] = True
                return dd
            kind = rng.choice(ops + ops + ["complement", "from_nfa"])
            if kind == "from_nfa":
                ndef = gen.rand_nfa_def(rng, nmax=4, alphabet=used)
                ndef["input_symbols"] = set(sigma)
                nf = NFA(**ndef)
                call = lambda mn, nf=nf: DFA.from_nfa(nf, minify=mn, retain_names=rng.random() < 0.3)
                desc = ("from_nfa", repr(ndef))
            elif kind == "complement":
                a = mk_dfa(operand())
                call = lambda mn, a=a: a.complement(minify=mn, retain_names=rng.random() < 0.3)
                desc = ("complement", repr(a.input_parameters))
            else:
                a, b = mk_dfa(operand()), mk_dfa(operand())
                call = lambda mn, a=a, b=b, kind=kind: getattr(a, kind)(b, minify=mn, retain_names=rng.random() < 0.3)
                desc = (kind, repr(a.input_parameters), repr(b.input_parameters))
            plain, mini = outcome(lambda: call(False)), outcome(lambda: call(True))
            if plain[0] != "ok" or mini[0] != "ok":
                ctx.violation(f"{kind} raised on valid operands: minify=False {plain[:2]} minify=True {mini[:2]}",
                              {"kind": "ops_minify", "desc": repr(desc)})
                continue
            sy = enc.SymMap(plain[1].input_symbols)
            tp, tm = enc.enc_dfa(plain[1], None, sy), enc.enc_dfa(mini[1], None, sy)
            cases.append((desc, plain[1], mini[1], sy))
            req.append((5, 2, enc.tree(tp)))                 # minimal PARTIAL DFA of the un-minified result
            req.append((0, 1, enc.tree([tm, tp])))           # language of the minified vs the un-minified result
        ans = ctx.driver.batch(req)
        for j, (desc, plain, mini, sy) in enumerate(cases):
            m, cmp_ = enc.dec_res(ans[2 * j]), ans[2 * j + 1]
            problems = []
            diff = enc.dec_res(cmp_[4])
            if diff[0] == "ok" and diff[1]:
                w = sy.unword(diff[1][0])
                problems.append(f"minify=True changes the language: {w!r} (minify=False accepts {plain.accepts_input(w)}, "
                                f"minify=True accepts {mini.accepts_input(w)})")
            if not cmp_[0]:
                problems.append("the minified result is not valid")
            if m[0] == "ok":
                live, live_partial = len(m[1][0][0]), bool(m[1][0][5])
                want = live if mini.allow_partial else live + (1 if live_partial else 0)
                if len(mini.states) != want:
                    problems.append(f"the minify=True result ({'partial' if mini.allow_partial else 'complete'}) has "
                                    f"{len(mini.states)} states, the minimum for a DFA of that kind is {want}")
            ctx.tally("ops_minify_" + desc[0])
            ctx.case(("ops_minify", repr(desc)), len(plain.states) > 1)
            if problems:
                ctx.violation(f"{desc[0]}(..., minify=True) disagrees: " + "; ".join(problems),
                              {"kind": "ops_minify", "desc": repr(desc), "problems": problems})


def run(ctx):
    ctx.rule = RULE
    rng = ctx.rng
    check_defs(ctx, corner_defs())
    ops_minify_stream(ctx, ctx.n(700, 8000))
    stress_minify(ctx, ctx.n(1800, 20000))
    n = ctx.n(1000, 50000)
    stream = []
    for i in range(n):
        r = i % 5
        if i % 10 == 7:
            stream.append(("trap_name_collision_shape", collision_def(rng)))
        elif i % 10 == 2:
            stream.append(("shaped_mutable_mode", shaped_def(rng)))
        elif i % 10 == 5:
            stream.append(("stray_rows", gen.add_dfa_stray_rows(rng, gen.rand_dfa_def(rng))))
        elif r == 4 or r == 3:
            stream.append(("big", big_def(rng)))
        elif r == 0:
            stream.append(("random", gen.rand_dfa_def(rng)))
        elif r == 1:
            stream.append(("random_negint", gen.rand_dfa_def(rng, names=gen.pick_names(rng, 6, "negint")[0])))
        else:
            stream.append(("shaped", shaped_def(rng)))
    fed_back = []
    for ch in chunks(stream, 250):
        plan = check_defs(ctx, ch)
        # already-minimal inputs: the model's own minify result goes back in (idempotence facet)
        for e in plan[:: 3]:
            m = e["model"][1]
            if m[0] == "ok" and (len(m[1][0][0]) > 1 or rng.random() < 0.1):
                fed_back.append(("minimal_fed_back", def_from_wire(m[1][0], e["sy"])))
    for ch in chunks(fed_back, 250):
        check_defs(ctx, ch)
    if ctx.tier == "thorough":
        for ch in chunks(exhaustive_defs(3), 400):
            check_defs(ctx, ch)
        for ch in chunks(exhaustive_complete_defs(3), 400):
            check_defs(ctx, ch)
        ctx.exhaustive = True
        ctx.exhaustive_scope = ("all partial DFAs with 1-3 states {0..n-1} over {a,b}, initial state 0 (every DFA of that size "
                                "is isomorphic to one of them), every transition table with optional entries and every final set: "
                                "8 + 324 + 32768 automata; plus the same tables without missing entries declared complete (allow_partial=False): "
                                "2 + 64 + 5832 automata; each through the five calls and minify().minify()")


def replay_ops_minify(case):
    from automata.fa.nfa import NFA
    desc = eval(case["desc"])
    kind = desc[0]
    objs = [load_def(x) for x in desc[1:]]
    for mn in (False, True):
        if kind == "from_nfa":
            r = DFA.from_nfa(NFA(**objs[0]), minify=mn)
        elif kind == "complement":
            r = DFA(**objs[0]).complement(minify=mn)
        else:
            r = getattr(DFA(**objs[0]), kind)(DFA(**objs[1]), minify=mn)
        print(f"  {kind}(minify={mn}): {len(r.states)} states, partial={r.allow_partial}, transitions={dict(r.transitions)!r}, "
              f"initial={r.initial_state!r}, finals={set(r.final_states)!r}")
    print("  recorded problems:", case.get("problems"))


def replay(ctx, case):
    if case.get("kind") == "ops_minify":
        replay_ops_minify(case)
        return
    if case.get("kind") == "dfa":
        ddef = load_def(case["def"])
        plan = check_defs(ctx, [(case.get("tag", "replay"), ddef)])
        e = plan[0]
        print("input:", case["def"])
        for name, mop, _ in OPS:
            r = e["results"][name]
            if r[0] == "ok":
                print(f"  impl {name}: states={sorted(r[1].states, key=repr)!r} transitions={dict(r[1].transitions)!r} "
                      f"initial={r[1].initial_state!r} finals={sorted(r[1].final_states, key=repr)!r} partial={r[1].allow_partial}")
            else:
                print(f"  impl {name}: raises {r[2]}")
            print(f"  model {name}: {e['model'][mop]}")
        for label, which, mop_, mm in e["mirror"]:
            print(f"  mirror {'minify' if which == 1 else 'to_partial'} schedule={label} op={mop_}: {mm}")
    print("replay:", "VIOLATION reproduced" if ctx.violations else "no disagreement")
