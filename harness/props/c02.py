"""C02 - pushdown acceptance: NPDA explores all runs; DPDA deterministic and agrees (correspondence half).

Observables compared exactly with the extracted model (property 2 of the driver):
  op 1  NPDA.read_input_stepwise : every yielded set of configurations (as a sorted set) + how the generator ends
  op 2  DPDA.read_input_stepwise : every yielded configuration + how the generator ends
  op 3  DPDA constructor         : which exception (if any) validate() raises
  op 4  fuel sufficiency         : eps_ranked / pda_fuel_bound of the model for a state ranking the harness finds on the
                                   table (every empty-string move pops, or keeps the height and climbs the ranking);
                                   on such tables the implementation's generator must end within bound + 1 yields
                                   (theorems C02_npda_total_for_ranked / C02_dpda_total_for_ranked)
plus accepts_input for both classes and, on the implementation alone, DPDA verdict == NPDA verdict on the same table.
The implementation is always driven under a step budget (number of yields, size of a level, wall clock) so a table
whose empty-string moves run forever cannot hang the check; the model is then run on exactly that many steps of fuel.
"""
from __future__ import annotations

import itertools
import time

import enc
import gen
from props.common import load_def, outcome

from automata.pda.dpda import DPDA
from automata.pda.npda import NPDA

RULE = ("random PDA tables (1-4 states of 7 name-type pools, 1-3 input symbols, 1-3 stack symbols, all three acceptance "
        "modes): NPDA tables with 1-3 alternatives per key, DPDA tables deterministic by construction (per (state, top): "
        "nothing / one empty-string move / symbol moves) run through DPDA and through NPDA; empty-string moves either only "
        "pop ('shrink'), or keep/shrink the stack and climb a state ranking ('rank'), or push freely ('grow', run under a "
        "budget of yields); words: '' plus random words of length <= 6 incl. foreign symbols; DPDA constructor on random "
        "DPDA-shaped tables (about half nondeterministic) with single corruptions (foreign input/stack key, bad initial "
        "state / stack symbol / final state) in random dict order. distinct = distinct (canonical table, class, word); "
        "non-trivial = at least two moves were made (>= 3 yields) or the constructor case has a nondeterministic pair or a corruption")

MODES = ("final_state", "empty_stack", "both")
STACK_ALPHABETS = ["Z", "ZA", "ZAB", "01", "#xy", "$"]
DEFECT_SIG = "dpda_start_accepting_with_lambda"


# ---------------------------------------------------------------- encoding
def push_syms(push):
    """'' / 'AB' / ('A','B') -> list of stack symbols, first = new top."""
    return list(push)


def table_names(ddef, npda):
    names = set(ddef["states"]) | set(ddef["final_states"]) | {ddef["initial_state"]}
    stack = set(ddef["stack_symbols"]) | {ddef["initial_stack_symbol"]}
    keys = set()
    for q, row in ddef["transitions"].items():
        names.add(q)
        for a, tops in row.items():
            if a != "":
                keys.add(a)
            for z, e in tops.items():
                stack.add(z)
                for (t, push) in (e if npda else [e]):
                    names.add(t)
                    stack.update(push_syms(push))
    return names, stack, keys


class Codec:
    """Numbering of states / input symbols / stack symbols of one table (+ the words read on it)."""

    def __init__(self, ddef, npda, words=()):
        names, stack, keys = table_names(ddef, npda)
        self.st = enc.Renum(names)
        self.sk = enc.Renum(stack)
        self.sy = enc.SymMap(ddef["input_symbols"], "".join(sorted(keys)) + "".join(words))
        self.npda = npda

    def table(self, ddef, canonical=False):
        st, sk, sy = self.st, self.sk, self.sy
        rows = []
        for q, row in ddef["transitions"].items():
            r = []
            for a, tops in row.items():
                t = []
                for z, e in tops.items():
                    moves = [[st(tg), [sk(x) for x in push_syms(push)]] for (tg, push) in (e if self.npda else [e])]
                    t.append([sk(z), sorted(moves)])
                r.append([0 if a == "" else sy(a) + 1, sorted(t) if canonical else t])
            rows.append([st(q), sorted(r) if canonical else r])
        if canonical:
            rows.sort()
        return [
            sorted(st(q) for q in ddef["states"]),
            [sy(a) for a in sy.syms],
            sorted(sk(z) for z in ddef["stack_symbols"]),
            rows,
            st(ddef["initial_state"]),
            sk(ddef["initial_stack_symbol"]),
            sorted(st(q) for q in ddef["final_states"]),
            MODES.index(ddef["acceptance_mode"]),
        ]

    def cfg(self, c):
        return [self.st(c.state), self.sy.word(c.remaining_input), [self.sk(x) for x in c.stack.stack]]


def npda_def_of(ddef):
    """The NPDA with the same transition table as a DPDA definition."""
    d = dict(ddef)
    d["transitions"] = {q: {a: {z: {e} for z, e in tops.items()} for a, tops in row.items()}
                        for q, row in ddef["transitions"].items()}
    return d


# ---------------------------------------------------------------- driving the implementation under a budget
def pull(gen_fn, cap, size_cap=None, t_cap=2.0):
    """Pull at most `cap` items. Returns (items, outcome or None, iterator); outcome None = budget exhausted."""
    ys = []
    it = gen_fn()
    t0 = time.time()
    try:
        while len(ys) < cap:
            y = next(it)
            ys.append(y)
            if size_cap is not None and len(y) > size_cap:
                return ys, None, it
            if time.time() - t0 > t_cap:
                return ys, None, it
        return ys, None, it
    except StopIteration:
        return ys, ("ok", None), it
    except BaseException as e:  # noqa: BLE001
        if isinstance(e, (KeyboardInterrupt, SystemExit, MemoryError)):
            raise
        return ys, ("err", enc.exc_code(e), type(e).__name__), it


def finish(it):
    """One more next(): ('yield',) or the terminal outcome."""
    try:
        next(it)
        return ("yield",)
    except StopIteration:
        return ("ok", None)
    except BaseException as e:  # noqa: BLE001
        if isinstance(e, (KeyboardInterrupt, SystemExit, MemoryError)):
            raise
        return ("err", enc.exc_code(e), type(e).__name__)


# ---------------------------------------------------------------- independent brute-force oracle (confirmation only)
def oracle(ddef, npda, word, max_levels, size_cap=3000):
    """Textbook semantics written independently (stacks top FIRST, moves looked up in the kwargs dict):
    levels[k] = configurations reachable in exactly k moves; verdict = True as soon as a level holds an accepting
    configuration, False when a level is empty, None when the budget is exhausted."""
    tr = ddef["transitions"]
    fin, mode = ddef["final_states"], ddef["acceptance_mode"]

    def moves(q, a, z):
        e = tr.get(q, {}).get(a, {}).get(z)
        if e is None:
            return []
        return list(e) if npda else [e]

    def accepting(c):
        q, i, s = c
        if i < len(word):
            return False
        return (mode in ("empty_stack", "both") and not s) or (mode in ("final_state", "both") and q in fin)

    level = {(ddef["initial_state"], 0, (ddef["initial_stack_symbol"],))}
    levels = [level]
    for _ in range(max_levels):
        if not level:
            return levels, False
        if any(accepting(c) for c in level):
            return levels, True
        nxt = set()
        for (q, i, s) in level:
            if not s:
                continue
            if i < len(word):
                for (t, push) in moves(q, word[i], s[0]):
                    nxt.add((t, i + 1, tuple(push_syms(push)) + s[1:]))
            for (t, push) in moves(q, "", s[0]):
                nxt.add((t, i, tuple(push_syms(push)) + s[1:]))
        level = nxt
        levels.append(level)
        if len(level) > size_cap:
            break
    return levels, None


def oracle_levels_enc(cd, word, levels):
    return [sorted([cd.st(q), cd.sy.word(word[i:]), [cd.sk(x) for x in reversed(s)]] for (q, i, s) in lv)
            for lv in levels]


def start_accepting_with_lambda(ddef, word):
    """Signature of the known DPDA defect: '' is read, the start configuration is accepting, an empty-string move exists."""
    if word != "":
        return False
    q0, z0 = ddef["initial_state"], ddef["initial_stack_symbol"]
    mode = ddef["acceptance_mode"]
    acc = mode in ("final_state", "both") and q0 in ddef["final_states"]
    return acc and z0 in ddef["transitions"].get(q0, {}).get("", {})


# ---------------------------------------------------------------- state rankings (fuel sufficiency)
def find_ranking(ddef, npda):
    """A ranking of the states under which the table is `eps_ranked` (Spec/PDARank.v), found on the table alone:
    every empty-string move pushes at most one symbol, and the moves that push exactly one form an acyclic graph;
    rank = longest path to the state. Returns ({state: rank}, N) or None when no ranking exists."""
    names, _, _ = table_names(ddef, npda)
    succ = {q: set() for q in names}
    for q, row in ddef["transitions"].items():
        for z, e in row.get("", {}).items():
            for (t, push) in (e if npda else [e]):
                k = len(push_syms(push))
                if k >= 2:
                    return None
                if k == 1:
                    succ[q].add(t)
    indeg = {q: 0 for q in names}
    for q in names:
        for t in succ[q]:
            indeg[t] += 1
    rank = {q: 0 for q in names}
    todo = [q for q in names if indeg[q] == 0]
    seen = 0
    while todo:
        q = todo.pop()
        seen += 1
        for t in succ[q]:
            rank[t] = max(rank[t], rank[q] + 1)
            indeg[t] -= 1
            if indeg[t] == 0:
                todo.append(t)
    if seen != len(names):
        return None
    return rank, max(rank.values(), default=0)


# ---------------------------------------------------------------- one table, several words
def run_reader(ctx, ddef, npda, words, cap, size_cap, tag):
    """Compare one reader class on one table with the model, word by word. Returns {word: verdict or None}."""
    cls = NPDA if npda else DPDA
    obj = cls(**ddef)
    cd = Codec(ddef, npda, words)
    ttree = cd.table(ddef)
    canon = enc.tree(cd.table(ddef, canonical=True))
    runs, items = [], []
    for w in words:
        ys, out, it = pull(lambda: obj.read_input_stepwise(w), cap, size_cap if npda else None)
        fuel = len(ys) + 1 if out is not None else len(ys) - 1
        runs.append((w, ys, out, it, fuel))
        items.append((2, 1 if npda else 2, enc.tree([ttree, cd.sy.word(w), fuel])))
    ranking = find_ranking(ddef, npda)
    if ranking is None:
        rk_list, rk_n = [0] * len(cd.st), 0
    else:
        rk_list, rk_n = [ranking[0][q] for q in cd.st.names], ranking[1]
    items += [(2, 4, enc.tree([ttree, rk_list, rk_n, cd.sy.word(w)])) for w in words]
    answers = ctx.driver.batch(items)
    answers, bounds = answers[:len(runs)], answers[len(runs):]
    ctx.tally("table_ranked" if ranking is not None else "table_not_ranked")
    verdicts = {}
    for (w, ys, out, it, fuel), ans, bd in zip(runs, answers, bounds):
        problems = []
        if bd == [0, enc.BAD_INPUT]:
            raise RuntimeError("driver rejected the ranking encoding of " + repr(ddef))
        m_ranked, m_bound = bd[0] == 1, bd[1]
        if m_ranked != (ranking is not None):
            problems.append(f"model eps_ranked = {m_ranked} but the harness {'found the ranking ' + repr(ranking) if ranking else 'finds no ranking'}")
        if m_ranked:
            # fuel sufficiency theorem, observed on the implementation: the generator ends within bound + 1 yields
            if len(ys) > m_bound + 1:
                problems.append(f"ranked table (N = {rk_n}): {len(ys)} yields exceed the proved bound {m_bound} + 1")
            elif out is not None:
                ctx.tally("ranked_ended_within_bound")
        if ans == [0, enc.BAD_INPUT]:
            raise RuntimeError("driver rejected the encoding of " + repr(ddef))
        m_ys, m_out, m_acc = ans[0], enc.dec_res(ans[1]), enc.dec_res(ans[2])
        if npda:
            i_ys = [sorted(cd.cfg(c) for c in lv) for lv in ys]
            mm_ys = [sorted(lv) for lv in m_ys]
            if any(len(lv) != len({enc.tree(c) for c in lv}) for lv in m_ys):
                problems.append("model level contains a duplicate configuration")
        else:
            i_ys = [cd.cfg(c) for c in ys]
            mm_ys = m_ys
        if i_ys != mm_ys:
            k = next((j for j, (a, b) in enumerate(zip(i_ys, mm_ys)) if a != b), min(len(i_ys), len(mm_ys)))
            problems.append(f"yield #{k} differs: impl {i_ys[k] if k < len(i_ys) else 'nothing'} "
                            f"model {mm_ys[k] if k < len(mm_ys) else 'nothing'} (impl {len(i_ys)} yields, model {len(mm_ys)})")
        verdict = None
        if out is None:
            # budget exhausted on the implementation's side: the model ran on exactly that fuel
            ctx.tally("budget_exhausted")
            if m_out != ("err", enc.FUEL):
                # the model says the run ends right here: the implementation must end the same way on the next step
                fin = finish(it)
                want = ("ok", None) if m_out[0] == "ok" else ("err", m_out[1])
                if fin[:2] != want:
                    problems.append(f"after {len(ys)} yields the model ends with {m_out}, the implementation with {fin}")
                else:
                    verdict = fin[0] == "ok"
        else:
            if out[0] == "ok":
                if m_out[0] != "ok":
                    problems.append(f"impl generator returned (accept), model ends with {m_out}")
            elif m_out != ("err", out[1]):
                problems.append(f"impl raised {out[2]}, model ends with {m_out}")
            acc = outcome(lambda: obj.accepts_input(w))
            want_acc = ("ok", m_acc[1] == 1) if m_acc[0] == "ok" else ("err", m_acc[1])
            if acc[:2] != want_acc:
                problems.append(f"accepts_input = {acc}, model {want_acc}")
            if acc[0] == "ok":
                verdict = acc[1]
        if hasattr(it, "close"):
            it.close()
        verdicts[w] = verdict
        kind = "npda" if npda else "dpda"
        ctx.tally(f"{kind}_" + ("budget" if verdict is None else "accept" if verdict else "reject"))
        ctx.tally(f"{kind}_mode_{ddef['acceptance_mode']}")
        if w == "":
            ctx.tally(f"{kind}_empty_input")
        if any(c not in ddef["input_symbols"] for c in w):
            ctx.tally("word_with_foreign_symbol")
        ctx.case((canon, kind, w), nontrivial=len(ys) >= 3,
                 sample={"class": kind, "def": repr(ddef), "word": w, "yields": len(ys),
                         "outcome": out[:2] if out else "budget"})
        if problems:
            report(ctx, ddef, npda, w, problems, ans, cd, len(ys), tag)
    return verdicts


def report(ctx, ddef, npda, w, problems, ans, cd, n_yields, tag):
    kind = "npda" if npda else "dpda"
    replay = {"kind": kind, "def": repr(ddef), "word": w, "problems": problems, "model": repr(ans), "tag": tag}
    if not npda and start_accepting_with_lambda(ddef, w):
        replay["signature"] = DEFECT_SIG
        if DEFECT_SIG in ctx.__dict__.setdefault("c02_reported", set()):
            ctx.tally("further_cases_of_" + DEFECT_SIG)
            return
        ctx.c02_reported.add(DEFECT_SIG)
        n_acc = outcome(lambda: NPDA(**npda_def_of(ddef)).accepts_input(w))
        d_acc = outcome(lambda: DPDA(**ddef).accepts_input(w))
        replay.update({"dpda_accepts_input": repr(d_acc), "npda_accepts_input_same_table": repr(n_acc)})
        ctx.violation("DPDA does not stop at an accepting start configuration that has an empty-string move "
                      f"(DPDA.accepts_input('') = {d_acc[1] if d_acc[0] == 'ok' else d_acc}, NPDA on the same table "
                      f"= {n_acc[1] if n_acc[0] == 'ok' else n_acc}): " + "; ".join(problems), replay,
                      confirmed=True)
        return
    # confirm on the implementation alone: textbook oracle written independently of the model
    levels, verdict = oracle(ddef, npda, w, n_yields + 2)
    o_levels = oracle_levels_enc(cd, w, levels)
    m_ys = ans[0]
    m_levels = [sorted(lv) for lv in m_ys] if npda else None
    if npda:
        agrees_model = o_levels[:len(m_levels)] == m_levels[:len(o_levels)]
    else:
        # deterministic table: every level of the oracle has at most one configuration
        flat = [lv[0] for lv in o_levels if lv]
        agrees_model = flat[:len(m_ys)] == m_ys[:len(flat)]
    replay["oracle_verdict"] = verdict
    replay["oracle_agrees_with_model"] = agrees_model
    ctx.violation(f"{kind.upper()} reading disagrees with the textbook run: " + "; ".join(problems), replay,
                  confirmed=bool(agrees_model))


def check_table(ctx, ddef, words, policy, tag, dpda):
    """dpda=True: a deterministic DPDA definition, also run as NPDA; verdicts of the two classes must coincide."""
    cap, size_cap = (140, 600) if policy != "grow" else (ctx.n(16, 24), 150)
    ctx.tally("policy_" + policy)
    if dpda:
        dv = run_reader(ctx, ddef, False, words, cap, None, tag)
        ndef = npda_def_of(ddef)
        nv = run_reader(ctx, ndef, True, words, cap, size_cap, tag)
        for w in words:
            if dv[w] is None or nv[w] is None:
                continue
            ctx.tally("dpda_vs_npda_compared")
            if dv[w] != nv[w]:
                replay = {"kind": "dpda_vs_npda", "def": repr(ddef), "word": w, "dpda": dv[w], "npda": nv[w], "tag": tag}
                if start_accepting_with_lambda(ddef, w):
                    replay["signature"] = DEFECT_SIG
                    if DEFECT_SIG in ctx.__dict__.setdefault("c02_reported", set()):
                        ctx.tally("further_cases_of_" + DEFECT_SIG)
                        continue
                    ctx.c02_reported.add(DEFECT_SIG)
                ctx.violation(f"DPDA.accepts_input({w!r}) = {dv[w]} but the NPDA with the same table gives {nv[w]}", replay)
    else:
        run_reader(ctx, ddef, True, words, cap, size_cap, tag)


# ---------------------------------------------------------------- DPDA constructor
def det_oracle(ddef):
    """Brute force: some (state, symbol, top) has both a symbol move and an empty-string move."""
    for q, row in ddef["transitions"].items():
        eps = row.get("", {})
        for a, tops in row.items():
            if a != "" and any(z in eps for z in tops):
                return False
    return True


def check_ctor(ctx, ddef, corrupted, tag):
    cd = Codec(ddef, False)
    res = outcome(lambda: DPDA(**ddef))
    ans = ctx.driver.batch([(2, 3, enc.tree(cd.table(ddef)))])[0]
    if ans == [0, enc.BAD_INPUT]:
        raise RuntimeError("driver rejected the encoding of " + repr(ddef))
    m_val, m_det, m_shape, m_valid = enc.dec_res(ans[0]), ans[1] == 1, ans[2] == 1, ans[3] == 1
    problems = []
    got = ("ok",) if res[0] == "ok" else ("err", res[1])
    want = ("ok",) if m_val[0] == "ok" else ("err", m_val[1])
    if got != want:
        problems.append(f"constructor outcome {res if res[0] == 'err' else 'accepted'}, model validate {m_val}")
    det = det_oracle(ddef)
    if det != m_det:
        problems.append(f"model det_check = {m_det}, brute-force pair scan = {det}")
    if not corrupted:
        # valid apart from (possibly) nondeterminism: accepted exactly when deterministic
        if (res[0] == "ok") != det:
            problems.append(f"table is {'deterministic' if det else 'nondeterministic'} but the constructor "
                            f"{'accepted it' if res[0] == 'ok' else 'raised ' + res[2]}")
        if res[0] == "err" and res[1] != 120:
            problems.append(f"expected NondeterminismError, got {res[2]}")
        if not m_valid or not m_shape:
            problems.append("model finds the uncorrupted table malformed")
    ctx.tally("ctor_" + ("accepted" if res[0] == "ok" else res[2]))
    ctx.tally("ctor_corrupted" if corrupted else "ctor_wellformed")
    ctx.case((enc.tree(cd.table(ddef)), "ctor"), nontrivial=(not det) or corrupted,
             sample={"class": "dpda-constructor", "def": repr(ddef), "outcome": res[:1] + res[2:] if res[0] == "err" else "accepted"})
    if problems:
        ctx.violation("DPDA constructor disagrees with the determinism rule: " + "; ".join(problems),
                      {"kind": "ctor", "def": repr(ddef), "corrupted": corrupted, "problems": problems,
                       "model": repr(ans), "tag": tag}, confirmed=(res[0] == "ok") != det if not corrupted else False)


# ---------------------------------------------------------------- generators
def rand_push(rng, stack, lo, hi):
    k = rng.randint(lo, hi)
    syms = [rng.choice(stack) for _ in range(k)]
    if rng.random() < 0.5:
        return "".join(syms)      # '' pops
    return tuple(syms)


def eps_push(rng, stack, policy, rank_up):
    if policy == "shrink":
        return rng.choice(["", ()])
    if policy == "rank":
        return rand_push(rng, stack, 0, 1) if rank_up else rng.choice(["", ()])
    return rand_push(rng, stack, 0, 3 if rng.random() < 0.3 else 2)


def base_def(rng, nmax=4):
    sigma = gen.rand_alphabet(rng)
    n = rng.randint(1, nmax)
    names, _ = gen.pick_names(rng, n)
    stack = list(rng.choice(STACK_ALPHABETS))
    mode = rng.choice(MODES)
    p_final = rng.choice([0.0, 0.3, 0.5, 0.5, 1.0])
    finals = {q for q in names if rng.random() < p_final}
    if rng.random() < 0.35:
        finals.add(names[0])      # accepting start configurations are a corner the property names
    return sigma, names, stack, dict(states=set(names), input_symbols=set(sigma), stack_symbols=set(stack),
                                     initial_state=names[0], initial_stack_symbol=stack[0], final_states=finals,
                                     acceptance_mode=mode)


def rand_npda_def(rng, policy):
    sigma, names, stack, d = base_def(rng)
    dens = rng.choice([0.3, 0.5, 0.7])
    p_eps = rng.choice([0.1, 0.25, 0.4])
    trans = {}
    for i, q in enumerate(names):
        if i > 0 and rng.random() < 0.1:
            continue
        row = {}
        for a in list(sigma) + [""]:
            tops = {}
            for z in stack:
                if rng.random() >= (p_eps if a == "" else dens):
                    continue
                alts = set()
                for _ in range(rng.choice([1, 1, 2, 2, 3])):
                    j = rng.randrange(len(names))
                    push = rand_push(rng, stack, 0, 3 if rng.random() < 0.2 else 2) if a != "" \
                        else eps_push(rng, stack, policy, j > i)
                    alts.add((names[j], push))
                tops[z] = alts
            if tops or rng.random() < 0.1:
                row[a] = tops
        trans[q] = row
    d["transitions"] = trans
    return d


def rand_dpda_def(rng, policy):
    """Deterministic by construction: per (state, top) nothing, one empty-string move, or symbol moves."""
    sigma, names, stack, d = base_def(rng)
    p_eps = rng.choice([0.15, 0.3, 0.5])
    trans = {}
    for i, q in enumerate(names):
        row = {}
        for z in stack:
            r = rng.random()
            if r < 0.12:
                continue
            if r < 0.12 + p_eps:
                j = rng.randrange(len(names))
                row.setdefault("", {})[z] = (names[j], eps_push(rng, stack, policy, j > i))
            else:
                for a in sigma:
                    if rng.random() < 0.75:
                        row.setdefault(a, {})[z] = (rng.choice(names), rand_push(rng, stack, 0, 2))
        if row or rng.random() < 0.8:
            keys = list(row)
            rng.shuffle(keys)
            trans[q] = {a: row[a] for a in keys}
    d["transitions"] = trans
    return d


def rand_ctor_def(rng):
    """DPDA-shaped table with independent keys (often nondeterministic) and possibly one corruption."""
    sigma, names, stack, d = base_def(rng, nmax=3)
    trans = {}
    for q in names:
        row = {}
        for a in list(sigma) + [""]:
            tops = {z: (rng.choice(names), rand_push(rng, stack, 0, 2)) for z in stack
                    if rng.random() < (0.3 if a == "" else 0.45)}
            if tops or rng.random() < 0.15:
                row[a] = tops
        keys = list(row)
        rng.shuffle(keys)
        trans[q] = {a: row[a] for a in keys}
    d["transitions"] = trans
    corrupted = None
    r = rng.random()
    if r < 0.35:
        corrupted = rng.choice(["input_key", "stack_key", "initial_state", "initial_stack", "final_state"])
        q = rng.choice(names)
        if corrupted == "input_key":
            row = dict(trans[q])
            row["%"] = {stack[0]: (names[0], "")}
            items = list(row.items())
            rng.shuffle(items)
            trans[q] = dict(items)
        elif corrupted == "stack_key":
            row = dict(trans[q])
            a = rng.choice(list(sigma) + [""])
            tops = dict(row.get(a, {}))
            tops["%"] = (names[0], "")
            items = list(tops.items())
            rng.shuffle(items)
            row[a] = dict(items)
            trans[q] = row
        elif corrupted == "initial_state":
            d["initial_state"] = "nowhere"
        elif corrupted == "initial_stack":
            d["initial_stack_symbol"] = "%"
        else:
            d["final_states"] = set(d["final_states"]) | {"nowhere"}
    return d, corrupted


def rand_words(rng, sigma, k, maxlen=6):
    sigma = sorted(sigma)
    return [""] + [gen.rand_word(rng, sigma, maxlen, p_foreign=0.06 if j % 4 == 0 else 0.0) for j in range(k)]


# ---------------------------------------------------------------- fixed corner cases
def corner_cases(ctx):
    """Row 1 of DESIGN section 8 first, then its neighbours (all three modes; start accepting with and without a move)."""
    common = dict(states={"q0", "q1"}, input_symbols={"a"}, stack_symbols={"Z"}, initial_state="q0",
                  initial_stack_symbol="Z")
    d1 = dict(common, transitions={"q0": {"": {"Z": ("q1", ("Z",))}}}, final_states={"q0"}, acceptance_mode="final_state")
    check_table(ctx, d1, ["", "a"], "rank", "corner:start-accepting-with-lambda", dpda=True)
    d2 = dict(common, transitions={"q0": {"": {"Z": ("q1", ("Z",))}}}, final_states={"q0"}, acceptance_mode="both")
    check_table(ctx, d2, ["", "a"], "rank", "corner:start-accepting-with-lambda-both", dpda=True)
    d3 = dict(common, transitions={"q0": {"": {"Z": ("q1", "")}}}, final_states=set(), acceptance_mode="empty_stack")
    check_table(ctx, d3, ["", "a"], "shrink", "corner:pop-to-empty", dpda=True)
    d4 = dict(common, transitions={"q0": {"a": {"Z": ("q0", ("Z", "Z"))}}}, final_states={"q0"}, acceptance_mode="final_state")
    check_table(ctx, d4, ["", "a", "aa"], "shrink", "corner:start-accepting-no-lambda", dpda=True)
    # an empty-string loop that grows the stack forever (must be cut by the budget, not hang)
    d5 = dict(common, transitions={"q0": {"": {"Z": ("q0", ("Z", "Z"))}}}, final_states={"q1"}, acceptance_mode="final_state")
    check_table(ctx, d5, ["", "a"], "grow", "corner:growing-lambda-loop", dpda=True)
    # the library's own a^n b^n DPDA and the palindrome NPDA
    anbn = dict(states={"q0", "q1", "q2", "q3"}, input_symbols={"a", "b"}, stack_symbols={"0", "1"},
                transitions={"q0": {"a": {"0": ("q1", ("1", "0"))}},
                             "q1": {"a": {"1": ("q1", ("1", "1"))}, "b": {"1": ("q2", "")}},
                             "q2": {"b": {"1": ("q2", "")}, "": {"0": ("q3", ("0",))}}},
                initial_state="q0", initial_stack_symbol="0", final_states={"q3"}, acceptance_mode="final_state")
    check_table(ctx, anbn, ["", "ab", "aabb", "aab", "abb", "ba", "aaabbb"], "rank", "corner:anbn", dpda=True)
    pal = dict(states={"q0", "q1", "q2"}, input_symbols={"a", "b"}, stack_symbols={"A", "B", "#"},
               transitions={"q0": {"": {"#": {("q2", "#")}},
                                   "a": {"#": {("q0", ("A", "#"))}, "A": {("q0", ("A", "A")), ("q1", "")},
                                         "B": {("q0", ("A", "B"))}},
                                   "b": {"#": {("q0", ("B", "#"))}, "A": {("q0", ("B", "A"))},
                                         "B": {("q0", ("B", "B")), ("q1", "")}}},
                            "q1": {"": {"#": {("q2", "#")}}, "a": {"A": {("q1", "")}}, "b": {"B": {("q1", "")}}}},
               initial_state="q0", initial_stack_symbol="#", final_states={"q2"}, acceptance_mode="final_state")
    check_table(ctx, pal, ["", "aa", "abba", "ab", "aba", "baab", "a"], "rank", "corner:palindromes", dpda=False)
    # nondeterministic DPDA-shaped table: the single bad table of the test-suite, and its mirror image
    bad = dict(common, transitions={"q0": {"a": {"Z": ("q1", "Z")}, "": {"Z": ("q1", "Z")}}},
               final_states={"q1"}, acceptance_mode="final_state")
    check_ctor(ctx, bad, None, "corner:nondeterministic")
    bad2 = dict(common, transitions={"q0": {"": {"Z": ("q1", "Z")}, "a": {"Z": ("q1", "Z")}}},
                final_states={"q1"}, acceptance_mode="final_state")
    check_ctor(ctx, bad2, None, "corner:nondeterministic-eps-first")
    ok = dict(common, stack_symbols={"Z", "A"},
              transitions={"q0": {"a": {"Z": ("q1", "Z")}, "": {"A": ("q1", "Z")}}},
              final_states={"q1"}, acceptance_mode="final_state")
    check_ctor(ctx, ok, None, "corner:eps-on-other-top")


# ---------------------------------------------------------------- exhaustive small scope (thorough)
def exhaustive(ctx):
    """Every table with <= 3 rules out of two 24-rule universes, as NPDA (and as DPDA when it is one)."""
    words = ["", "a", "aa"]
    families = []
    # one state, stack {Z, A}
    u1 = [(0, a, z, 0, p) for a in ("a", "") for z in "ZA" for p in ("", "Z", "A", "AZ", "ZA", "AA")]
    families.append((1, "ZA", u1))
    # two states, stack {Z}
    u2 = [(q, a, "Z", t, p) for q in (0, 1) for a in ("a", "") for t in (0, 1) for p in ("", "Z", "ZZ")]
    families.append((2, "Z", u2))
    count = 0
    for n, stack, universe in families:
        for k in range(0, 4):
            for rules in itertools.combinations(universe, k):
                tr = {}
                for (q, a, z, t, p) in rules:
                    tr.setdefault(q, {}).setdefault(a, {}).setdefault(z, set()).add((t, p))
                single = all(len(e) == 1 for row in tr.values() for tops in row.values() for e in tops.values())
                for finals in ({n - 1}, {0} if n == 2 else set()):
                    for mode in MODES:
                        nd = dict(states=set(range(n)), input_symbols={"a"}, stack_symbols=set(stack), transitions=tr,
                                  initial_state=0, initial_stack_symbol="Z", final_states=set(finals), acceptance_mode=mode)
                        dd = None
                        if single:
                            dd = dict(nd, transitions={q: {a: {z: next(iter(e)) for z, e in tops.items()}
                                                           for a, tops in row.items()} for q, row in tr.items()})
                        if dd is not None and det_oracle(dd):
                            check_table(ctx, dd, words, "grow", "exhaustive", dpda=True)
                        else:
                            check_table(ctx, nd, words, "grow", "exhaustive", dpda=False)
                            if dd is not None and mode == "both" and finals == {n - 1}:
                                check_ctor(ctx, dd, None, "exhaustive")
                        count += 1
    ctx.exhaustive = True
    ctx.exhaustive_scope = (f"all {count} tables with <= 3 rules drawn from (a) one state, input {{a}}, stack {{Z,A}}, pushes "
                            "in {'',Z,A,AZ,ZA,AA} and (b) two states, input {a}, stack {Z}, pushes in {'',Z,ZZ}; two final-state "
                            "sets, three acceptance modes; words '', 'a', 'aa'; as NPDA, and also as DPDA (vs NPDA) whenever the table "
                            "is single-valued and deterministic; budget 24 yields")


# ---------------------------------------------------------------- entry points
def run(ctx):
    ctx.rule = RULE
    rng = ctx.rng
    corner_cases(ctx)
    n_tables = ctx.n(260, 2600)
    for i in range(n_tables):
        policy = ("shrink", "rank", "grow")[i % 3]
        nd = rand_npda_def(rng, policy)
        check_table(ctx, nd, rand_words(rng, nd["input_symbols"], 5), policy, "random-npda", dpda=False)
        dd = rand_dpda_def(rng, policy)
        check_table(ctx, dd, rand_words(rng, dd["input_symbols"], 5), policy, "random-dpda", dpda=True)
    for i in range(ctx.n(500, 5000)):
        d, corrupted = rand_ctor_def(rng)
        check_ctor(ctx, d, corrupted, "random-ctor")
    if ctx.tier == "thorough":
        exhaustive(ctx)


def replay(ctx, case):
    kind = case.get("kind")
    if kind in ("npda", "dpda", "dpda_vs_npda"):
        ddef = load_def(case["def"])
        w = case["word"]
        policy = "grow"
        if kind == "npda":
            check_table(ctx, ddef, [w], policy, "replay", dpda=False)
        else:
            d = DPDA(**ddef)
            n = NPDA(**npda_def_of(ddef))
            ys, out, it = pull(lambda: d.read_input_stepwise(w), 40)
            print("DPDA yields:", ys, "outcome:", out if out else "budget")
            ys, out, it = pull(lambda: n.read_input_stepwise(w), 40, 200)
            print("NPDA (same table) yields:", ys, "outcome:", out if out else "budget")
            check_table(ctx, ddef, [w], policy, "replay", dpda=True)
    elif kind == "ctor":
        check_ctor(ctx, load_def(case["def"]), case.get("corrupted"), "replay")
    else:
        print("nothing to replay for kind", kind)
    print("replay:", "VIOLATION reproduced" if ctx.violations else "no disagreement")
