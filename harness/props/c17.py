"""C17 - single-tape simulation of a multitape machine (MNTM.read_input_as_ntm) vs the native run
(correspondence half).

Per case: the native generator and the simulation generator are consumed under a step budget (never
past it).  Compared (a) on the implementation alone: the verdicts of the two runs whenever both halt -
the simulation may signal rejection only with RejectionException; (b) against the extracted model of the
repaired splicing code: every yielded (state, extended tape, position) and how the generator ends."""
from __future__ import annotations

import itertools

import enc
import gen
from props import tmlib as T
from props.c03 import Batch
from props.common import load_def

RULE = ("random valid multitape tables (1-3 tapes, deterministic or 1-2 alternatives, 1-3 working + 1-2 final states, 2-4 tape "
        "symbols without '^' and '_' - in about one table in seven they are control characters and punctuation such as newline, "
        "tab, backslash - five direction profiles incl. left-heavy and zigzag; every third table is run again with another symbol as its blank; tables whose alternatives differ in the target state "
        "only, with small negative integers as state names) on '' and random words, budget 300 "
        "dequeued configurations for each run; a case counts for the verdict comparison only when the native run halts within the "
        "budget; distinct = distinct (canonical table, word); non-trivial = native run halts after >= 2 configurations and some "
        "head moved left from a leftmost cell or ran past the right end")

MALFORMED = 51   # Model/MNTMSim.v: Malformed = OtherErr 1 -> code 50 + 1
HEAD, SEP = "^", "_"


def budget(ctx):
    return 300


def ext_codes(s, sy):
    # a symbol that is not in the machine's tape alphabet at all gets a code the model never produces
    return [0 if c == HEAD else 1 if c == SEP else (sy(c) + 2 if c in sy.idx else 9999) for c in s]


def kind_of(out):
    """('ok',)/('err', code, name)/('limit',) -> accept | reject | error:<Name> | limit"""
    if out[0] == "ok":
        return "accept"
    if out[0] == "limit":
        return "limit"
    return "reject" if out[1] == enc.REJECT else "error:" + out[2]


def decode_ext(s, blank):
    """extended tape -> tuple of canonical tapes, or None when a segment is malformed."""
    if not s.endswith(SEP):
        return None
    out = []
    for seg in s[:-1].split(SEP):
        if seg.count(HEAD) != 1 or seg.startswith(HEAD):
            return None
        p = seg.index(HEAD) - 1
        cells = seg.replace(HEAD, "")
        out.append((tuple(T.strip_end(cells[:p][::-1], blank)), cells[p], tuple(T.strip_end(cells[p + 1:], blank))))
    return tuple(out)


def boundary_moves(md, cfgs):
    """(left, right): does some visited native configuration have an applicable alternative that moves a head
    left from cell 0 / right from the last cell ?"""
    left = right = False
    for c in cfgs:
        row = md["table"].get(c.state, {})
        key = tuple(t.tape[t.current_position] for t in c.tapes)
        for a in row.get(key, []):
            for (w, d), t in zip(a[1], c.tapes):
                if d == "L" and t.current_position == 0:
                    left = True
                if d == "R" and t.current_position == len(t.tape) - 1:
                    right = True
    return left, right


def check(ctx, batch, md, word, B, tag):
    m = T.mk(md, "mntm")
    st, sy = enc.Renum(T.names_of(md)), T.symmap(md, word)
    n_items, n_out = T.consume(m.read_input_stepwise(word), B + 1)
    if n_out[0] == "limit":
        n_items = n_items[:B]
    n_cfgs = [next(iter(s)) for s in n_items]
    s_items, s_out = T.consume(m.read_input_as_ntm(word), B + 1)
    if s_out[0] == "limit":
        s_items = s_items[:B]
    s_cfgs = [next(iter(s)) for s in s_items]
    s_raw = [(c.state, "".join(c.tape.tape), c.tape.current_position) for c in s_cfgs]
    i_ys = [[st(q), ext_codes(e, sy), p] for q, e, p in s_raw]
    nk, sk = kind_of(n_out), kind_of(s_out)
    left, right = boundary_moves(md, n_cfgs)
    det = all(len(alts) == 1 for row in md["table"].values() for alts in row.values())
    item = (17, 1, enc.tree([T.enc_mntm(md, st, sy), B, sy.word(word)]))
    canon = enc.tree(T.enc_mntm(md, st, sy))
    where = ("a head moves left from the leftmost cell of its tape" if left else "no left-boundary move in the native run")

    def cont(ans):
        m_ys, m_out = ans[0], enc.dec_res(ans[1])
        replay = {"kind": "sim", "machine": repr(md), "word": word, "budget": B, "native": nk, "simulation": sk,
                  "left_boundary_move": left, "right_boundary_move": right, "tag": tag}
        # (a) the implementation against itself
        if nk != "limit":
            ctx.tally("native_" + nk)
            if sk == "limit":
                ctx.tally("simulation_over_budget_native_halted")
            elif sk != nk:
                ctx.violation(f"read_input_as_ntm ends with {sk} but the native multitape run ends with {nk} ({where}; "
                              f"{md['k']} tape(s), input {word!r})", dict(replay, facet="verdict"))
        else:
            ctx.tally("native_over_budget")
        # (b) the simulation against the model of the repaired code
        problems = []
        if i_ys != m_ys:
            k = next((j for j, (a, b) in enumerate(zip(i_ys, m_ys)) if a != b), min(len(i_ys), len(m_ys)))
            problems.append(f"yielded (state, extended tape, position) differ from index {k}: impl "
                            f"{s_raw[k] if k < len(s_raw) else None} model {m_ys[k] if k < len(m_ys) else None} "
                            f"(lengths {len(i_ys)}/{len(m_ys)})")
            confirmed = False
            if k < len(s_raw):
                dec = decode_ext(s_raw[k][1], md["blank"])
                if dec is None:
                    confirmed = True
                    problems.append("the implementation's extended tape is malformed there")
                elif det and k < len(n_cfgs) and (s_raw[k][0], dec) != T.canon_mcfg(n_cfgs[k]):
                    confirmed = True
                    problems.append(f"it decodes to {dec}, the native run is at {T.canon_mcfg(n_cfgs[k])}")
        else:
            confirmed = False
            want = ("ok", i_ys[-1]) if s_out[0] == "ok" else ("err", enc.FUEL) if s_out[0] == "limit" else \
                ("err", MALFORMED if s_out[2] == "MalformedExtendedTapeError" else s_out[1])
            if m_out != want:
                problems.append(f"generator ended with {s_out}, model {m_out}")
        if problems and not (nk != "limit" and sk not in ("limit", nk)):   # not already reported under (a)
            ctx.violation(f"read_input_as_ntm deviates from the single-tape encoding ({where}): " + "; ".join(problems)[:900],
                          dict(replay, facet="trace", problems=problems, model=repr(ans)[:1500]), confirmed=confirmed)
        if left:
            ctx.tally("left_boundary_move")
        if right:
            ctx.tally("right_boundary_move")
        ctx.tally("tapes_%d" % md["k"])
        ctx.tally("deterministic" if det else "nondeterministic")
        ctx.case((canon, word), nontrivial=nk != "limit" and len(n_items) >= 2 and (left or right),
                 validated=nk != "limit",
                 sample={"tapes": md["k"], "table": repr(md["table"]), "word": word, "native": nk, "simulation": sk,
                         "native_visited": len(n_items), "simulation_visited": len(s_items)})

    batch.add(item, cont)


HAND = [
    # row 11 of DESIGN section 8: one tape, first move goes left from cell 0
    dict(states=["q", "f"], finals=["f"], input_symbols="a", tape_symbols=".a", blank=".", initial="q", k=1, profile="hand",
         table={"q": {("a",): [("q", (("a", "L"),))], (".",): [("f", ((".", "R"),))]}}),
    # two tapes: second head goes left from its leftmost cell while the first goes right past the end
    dict(states=["q", "r", "f"], finals=["f"], input_symbols="a", tape_symbols=".a", blank=".", initial="q", k=2, profile="hand",
         table={"q": {("a", "."): [("q", (("a", "R"), ("a", "L")))], (".", "."): [("r", ((".", "L"), (".", "R")))]},
                "r": {("a", "a"): [("r", (("a", "L"), ("a", "R")))], (".", "."): [("f", ((".", "N"), (".", "N")))],
                      (".", "a"): [("r", ((".", "N"), ("a", "R")))], ("a", "."): [("r", (("a", "L"), (".", "N")))]}}),
    # three tapes, heads only move right or stay (the shape of the library's own test)
    dict(states=["q", "f"], finals=["f"], input_symbols="ab", tape_symbols=".ab", blank=".", initial="q", k=3, profile="hand",
         table={"q": {("a", ".", "."): [("q", (("a", "R"), ("a", "R"), (".", "N")))],
                      ("b", ".", "."): [("q", (("b", "R"), (".", "N"), ("b", "R")))],
                      (".", ".", "."): [("f", ((".", "N"), (".", "N"), (".", "N")))]}}),
]


def run(ctx):
    ctx.rule = RULE
    rng = ctx.rng
    B = budget(ctx)
    batch = Batch(ctx, size=80)
    for md in HAND:
        for w in (["", "a", "aa", "aaa"] if md["input_symbols"] == "a" else ["", "a", "ab", "abba"]):
            check(ctx, batch, md, w, B, "hand")
    n = ctx.n(170, 2500)
    for i in range(n):
        k = rng.choice([1, 2, 2, 3])
        md = T.rand_table(rng, k=k, nondet=rng.random() < 0.5)
        for w in T.rand_words(rng, md, 4, maxlen=4):
            if any(c not in md["tape_symbols"] for c in w):
                w = "".join(c for c in w if c in md["tape_symbols"])    # '^'/'_' never occur; foreign 'Z' dropped
            check(ctx, batch, md, w, B, "random")
            if i % 3 == 0:
                # the same machine with another symbol as the blank, run right afterwards in the same process
                nb = next(c for c in "~#. :" if c not in md["tape_symbols"])
                md2 = T.translate_symbols(md, {c: (nb if c == md["blank"] else c) for c in md["tape_symbols"]})
                check(ctx, batch, md2, w.replace(md["blank"], nb), B, "blank_renamed")
    # two branches that differ in the state only, state names that are small negative integers (-1, -2, ...)
    for i in range(ctx.n(100, 600)):
        names, _ = gen.pick_names(rng, 6, "negint")
        head, tail = names[:2], names[2:]
        rng.shuffle(head)            # -1 and -2 are both working states (one of them the initial state)
        rng.shuffle(tail)
        names = head + tail
        md = T.rand_table(rng, k=rng.choice([1, 1, 2]), nondet=True, names=names, twin=True, nasty=False)
        for w in T.rand_words(rng, md, 3, maxlen=4):
            w = "".join(c for c in w if c in md["tape_symbols"])
            check(ctx, batch, md, w, B, "twin_branches")
    batch.flush()
    if ctx.tier == "thorough":
        opts = [None] + [(q2, w, d) for q2 in "qf" for w in "ab." for d in "LRN"]
        for e in itertools.product(opts, repeat=3):
            row = {(s,): [(o[0], ((o[1], o[2]),))] for s, o in zip("ab.", e) if o is not None}
            md = dict(states=["q", "f"], finals=["f"], input_symbols="ab", tape_symbols=".ab", blank=".", initial="q", k=1,
                      profile="exhaustive", table={"q": row})
            for w in ("", "a", "b", "ab"):
                check(ctx, batch, md, w, 40, "exhaustive")
        batch.flush()
        ctx.exhaustive = True
        ctx.exhaustive_scope = ("all 19^3 = 6859 one-tape tables with one working and one final state over tape symbols {a,b,blank} "
                                "x inputs '', 'a', 'b', 'ab', budget 40: simulation vs native verdict and simulation trace vs model")


def replay(ctx, case):
    batch = Batch(ctx, size=1)
    md = load_def(case["machine"])
    w, B = case["word"], case["budget"]
    check(ctx, batch, md, w, B, "replay")
    batch.flush()
    m = T.mk(md, "mntm")
    for name, fn in (("native read_input_stepwise", m.read_input_stepwise), ("read_input_as_ntm", m.read_input_as_ntm)):
        items, out = T.consume(fn(w), 12)
        print(f"  impl {name}: {[next(iter(s)) for s in items][:6]} ... outcome within 12 items: {out}")
    print("replay:", "VIOLATION reproduced" if ctx.violations else "no disagreement")
