"""C17 - single-tape simulation of a multitape machine (MNTM.read_input_as_ntm) vs the native run
(correspondence half).

Per case: the native generator and the simulation generator are consumed under a step budget (never
past it).  Compared (a) on the implementation alone: the verdicts of the two runs whenever both halt -
the simulation may signal rejection only with RejectionException; (b) against the extracted model of the
repaired splicing code: every yielded (state, extended tape, position) and how the generator ends."""
from __future__ import annotations

import itertools

import enc
import gen
from props import tmlib as T
from props.c03 import Batch
from props.c13 import time_limit
from props.common import load_def

RULE = ("random valid multitape tables (1-3 tapes, deterministic or 1-2 alternatives - in one table out of ten one entry has an empty list of alternatives -, 1-3 working + 1-2 final states, 2-4 tape "
        "symbols - in about one table in seven they are control characters and punctuation such as newline, tab, backslash, "
        "and the characters '^' and '_' that the extended tape uses as markers by default - five direction profiles incl. left-heavy and zigzag; every third table is run again with another symbol as its blank; tables whose alternatives differ in the target state "
        "only, with small negative integers as state names) on '' and random words, budget 300 "
        "dequeued configurations for each run; a case counts for the verdict comparison only when the native run halts within the "
        "budget; distinct = distinct (canonical table, word); non-trivial = native run halts after >= 2 configurations and some "
        "head moved left from a leftmost cell or ran past the right end")

MALFORMED = 51   # Model/MNTMSim.v: Malformed = OtherErr 1 -> code 50 + 1
HEAD, SEP = "^", "_"


def budget(ctx):
    return 300


def markers(md, word):
    """The head and separator characters read_input_as_ntm uses for this machine and input: '^' and '_' unless one of
    them can occur on a tape (a tape symbol or a character of the input), then the first spare characters from '!' on
    (the rule of the repaired code; in the model the two markers are constructors of their own, distinct from every symbol)."""
    used = set(md["tape_symbols"]) | set(word)
    spare = (chr(c) for c in itertools.count(33) if chr(c) not in used and chr(c) not in "^_")
    head = HEAD if HEAD not in used else next(spare)
    sep = SEP if SEP not in used else next(spare)
    return head, sep


def ext_codes(s, sy, mk=(HEAD, SEP)):
    # a symbol that is not in the machine's tape alphabet at all gets a code the model never produces
    return [0 if c == mk[0] else 1 if c == mk[1] else (sy(c) + 2 if c in sy.idx else 9999) for c in s]


def kind_of(out):
    """('ok',)/('err', code, name)/('limit',) -> accept | reject | error:<Name> | limit"""
    if out[0] == "ok":
        return "accept"
    if out[0] == "limit":
        return "limit"
    return "reject" if out[1] == enc.REJECT else "error:" + out[2]


def decode_ext(s, blank, mk=(HEAD, SEP)):
    """extended tape -> tuple of canonical tapes, or None when a segment is malformed."""
    HEAD, SEP = mk
    if not s.endswith(SEP):
        return None
    out = []
    for seg in s[:-1].split(SEP):
        if seg.count(HEAD) != 1 or seg.startswith(HEAD):
            return None
        p = seg.index(HEAD) - 1
        cells = seg.replace(HEAD, "")
        out.append((tuple(T.strip_end(cells[:p][::-1], blank)), cells[p], tuple(T.strip_end(cells[p + 1:], blank))))
    return tuple(out)


def boundary_moves(md, cfgs):
    """(left, right): does some visited native configuration have an applicable alternative that moves a head
    left from cell 0 / right from the last cell ?"""
    left = right = False
    for c in cfgs:
        row = md["table"].get(c.state, {})
        key = tuple(t.tape[t.current_position] for t in c.tapes)
        for a in row.get(key, []):
            for (w, d), t in zip(a[1], c.tapes):
                if d == "L" and t.current_position == 0:
                    left = True
                if d == "R" and t.current_position == len(t.tape) - 1:
                    right = True
    return left, right


def check(ctx, batch, md, word, B, tag):
    m = T.mk(md, "mntm")
    st, sy = enc.Renum(T.names_of(md)), T.symmap(md, word)
    # (a single next() that never comes back - a loop inside the library - ends as error:TimeoutError, never as a hang)
    with time_limit(30):
        n_items, n_out = T.consume(m.read_input_stepwise(word), B + 1)
    if n_out[0] == "limit":
        n_items = n_items[:B]
    n_cfgs = [next(iter(s)) for s in n_items]
    with time_limit(30):
        s_items, s_out = T.consume(m.read_input_as_ntm(word), B + 1)
    if s_out[0] == "limit":
        s_items = s_items[:B]
    s_cfgs = [next(iter(s)) for s in s_items]
    s_raw = [(c.state, "".join(c.tape.tape), c.tape.current_position) for c in s_cfgs]
    mk = markers(md, word)
    i_ys = [[st(q), ext_codes(e, sy, mk), p] for q, e, p in s_raw]
    nk, sk = kind_of(n_out), kind_of(s_out)
    left, right = boundary_moves(md, n_cfgs)
    det = all(len(alts) <= 1 for row in md["table"].values() for alts in row.values())
    item = (17, 1, enc.tree([T.enc_mntm(md, st, sy), B, sy.word(word)]))
    canon = enc.tree(T.enc_mntm(md, st, sy))
    where = ("a head moves left from the leftmost cell of its tape" if left else "no left-boundary move in the native run")

    def cont(ans):
        m_ys, m_out = ans[0], enc.dec_res(ans[1])
        replay = {"kind": "sim", "machine": repr(md), "word": word, "budget": B, "native": nk, "simulation": sk,
                  "left_boundary_move": left, "right_boundary_move": right, "tag": tag}
        # (a) the implementation against itself
        if nk != "limit":
            ctx.tally("native_" + nk)
            if sk == "limit":
                ctx.tally("simulation_over_budget_native_halted")
            elif sk != nk:
                ctx.violation(f"read_input_as_ntm ends with {sk} but the native multitape run ends with {nk} ({where}; "
                              f"{md['k']} tape(s), input {word!r})", dict(replay, facet="verdict"))
        else:
            ctx.tally("native_over_budget")
        # (b) the simulation against the model of the repaired code
        problems = []
        if i_ys != m_ys:
            k = next((j for j, (a, b) in enumerate(zip(i_ys, m_ys)) if a != b), min(len(i_ys), len(m_ys)))
            problems.append(f"yielded (state, extended tape, position) differ from index {k}: impl "
                            f"{s_raw[k] if k < len(s_raw) else None} model {m_ys[k] if k < len(m_ys) else None} "
                            f"(lengths {len(i_ys)}/{len(m_ys)})")
            confirmed = False
            if k < len(s_raw):
                dec = decode_ext(s_raw[k][1], md["blank"], mk)
                if dec is None:
                    confirmed = True
                    problems.append("the implementation's extended tape is malformed there")
                elif det and k < len(n_cfgs) and (s_raw[k][0], dec) != T.canon_mcfg(n_cfgs[k]):
                    confirmed = True
                    problems.append(f"it decodes to {dec}, the native run is at {T.canon_mcfg(n_cfgs[k])}")
        else:
            confirmed = False
            want = ("ok", i_ys[-1]) if s_out[0] == "ok" else ("err", enc.FUEL) if s_out[0] == "limit" else \
                ("err", MALFORMED if s_out[2] == "MalformedExtendedTapeError" else s_out[1])
            if m_out != want:
                problems.append(f"generator ended with {s_out}, model {m_out}")
        if problems and not (nk != "limit" and sk not in ("limit", nk)):   # not already reported under (a)
            ctx.violation(f"read_input_as_ntm deviates from the single-tape encoding ({where}): " + "; ".join(problems)[:900],
                          dict(replay, facet="trace", problems=problems, model=repr(ans)[:1500]), confirmed=confirmed)
        if left:
            ctx.tally("left_boundary_move")
        if right:
            ctx.tally("right_boundary_move")
        ctx.tally("tapes_%d" % md["k"])
        ctx.tally("deterministic" if det else "nondeterministic")
        if any(md["table"].get(cc[0], {}).get(tuple(t[1] for t in cc[1])) == [] for cc in map(T.canon_mcfg, n_cfgs)):
            ctx.tally("native_visited_entry_without_alternative")
        ctx.case((canon, word), nontrivial=nk != "limit" and len(n_items) >= 2 and (left or right),
                 validated=nk != "limit",
                 sample={"tapes": md["k"], "table": repr(md["table"]), "word": word, "native": nk, "simulation": sk,
                         "native_visited": len(n_items), "simulation_visited": len(s_items)})

    batch.add(item, cont)


def check_marker_characters(ctx, md, word, B):
    """An input that contains '^' or '_' although they are not tape symbols (the native run then rejects at once or
    never reads them): only the two verdicts of the implementation are compared (the word is outside the model's alphabet)."""
    m = T.mk(md, "mntm")
    with time_limit(30):
        n_items, n_out = T.consume(m.read_input_stepwise(word), B + 1)
    with time_limit(30):
        s_items, s_out = T.consume(m.read_input_as_ntm(word), B + 1)
    nk, sk = kind_of(n_out), kind_of(s_out)
    ctx.tally("marker_characters_in_input")
    ctx.case(("markers", repr(md["table"]), word), nontrivial=len(word) >= 2, validated=nk != "limit")
    if nk != "limit" and sk != "limit" and nk != sk:
        ctx.violation(f"read_input_as_ntm ends with {sk} but the native multitape run ends with {nk} on the input {word!r}, "
                      "which contains a character the extended tape uses as a marker by default",
                      {"kind": "markers", "machine": repr(md), "word": word, "budget": B, "native": nk, "simulation": sk})


def fixed_marker_finding(ctx):
    """Finding repaired in /repo ("fix: read_input_as_ntm picks extended-tape markers that are not tape symbols"): a valid
    machine with '^' among its tape symbols; the reproducer runs on every pass and must agree."""
    for sym in "^_":
        md = dict(states=["q", "f"], finals=["f"], input_symbols="a" + sym, tape_symbols=".a" + sym, blank=".", initial="q",
                  k=1, profile="hand",
                  table={"q": {("a",): [("q", (("a", "R"),))], (sym,): [("q", ((sym, "R"),))], (".",): [("f", ((".", "N"),))]}})
        m = T.mk(md, "mntm")
        w = "a" + sym
        native = m.accepts_input(w)
        with time_limit(30):
            s_items, s_out = T.consume(m.read_input_as_ntm(w), 50)
        if kind_of(s_out) != ("accept" if native else "reject"):
            k = next((k for k in ctx.known if k["id"] == "mntm_marker_symbols_as_tape_symbols"), None)
            what = (f"one-tape MNTM with {sym!r} as a tape symbol on input {w!r}: native run accepts={native}, "
                    f"read_input_as_ntm ends with {kind_of(s_out)}")
            if k is not None and k["status"] == "open":
                ctx.report_known(k)
            else:
                ctx.violation("fixed finding mntm_marker_symbols_as_tape_symbols reproduces again: " + what,
                              {"kind": "markers", "machine": repr(md), "word": w, "budget": 50,
                               "native": "accept" if native else "reject", "simulation": kind_of(s_out)})
            return


HAND = [
    # row 11 of DESIGN section 8: one tape, first move goes left from cell 0
    dict(states=["q", "f"], finals=["f"], input_symbols="a", tape_symbols=".a", blank=".", initial="q", k=1, profile="hand",
         table={"q": {("a",): [("q", (("a", "L"),))], (".",): [("f", ((".", "R"),))]}}),
    # two tapes: second head goes left from its leftmost cell while the first goes right past the end
    dict(states=["q", "r", "f"], finals=["f"], input_symbols="a", tape_symbols=".a", blank=".", initial="q", k=2, profile="hand",
         table={"q": {("a", "."): [("q", (("a", "R"), ("a", "L")))], (".", "."): [("r", ((".", "L"), (".", "R")))]},
                "r": {("a", "a"): [("r", (("a", "L"), ("a", "R")))], (".", "."): [("f", ((".", "N"), (".", "N")))],
                      (".", "a"): [("r", ((".", "N"), ("a", "R")))], ("a", "."): [("r", (("a", "L"), (".", "N")))]}}),
    # three tapes, heads only move right or stay (the shape of the library's own test)
    dict(states=["q", "f"], finals=["f"], input_symbols="ab", tape_symbols=".ab", blank=".", initial="q", k=3, profile="hand",
         table={"q": {("a", ".", "."): [("q", (("a", "R"), ("a", "R"), (".", "N")))],
                      ("b", ".", "."): [("q", (("b", "R"), (".", "N"), ("b", "R")))],
                      (".", ".", "."): [("f", ((".", "N"), (".", "N"), (".", "N")))]}}),
    # entries with an EMPTY list of alternatives (the constructor accepts them): no transition, in both runs.  One tape: stuck
    # on the blank after the input; two tapes: one branch of a guess runs into such an entry, the other one accepts
    dict(states=["q", "f"], finals=["f"], input_symbols="a", tape_symbols=".a", blank=".", initial="q", k=1, profile="hand",
         table={"q": {("a",): [("q", (("a", "R"),))], (".",): []}}),
    dict(states=["q", "r", "s", "f"], finals=["f"], input_symbols="a", tape_symbols=".a", blank=".", initial="q", k=2, profile="hand",
         table={"q": {("a", "."): [("r", (("a", "R"), ("a", "R"))), ("s", (("a", "R"), ("a", "L")))], (".", "."): []},
                "r": {("a", "."): [], (".", "."): [("f", ((".", "N"), (".", "N")))]},
                "s": {("a", "."): [("f", (("a", "N"), (".", "N")))], (".", "."): []}}),
]


def run(ctx):
    ctx.rule = RULE
    rng = ctx.rng
    B = budget(ctx)
    batch = Batch(ctx, size=80)
    fixed_marker_finding(ctx)
    for md in HAND:
        for w in (["", "a", "aa", "aaa"] if md["input_symbols"] == "a" else ["", "a", "ab", "abba"]):
            check(ctx, batch, md, w, B, "hand")
    n = ctx.n(170, 2500)
    for i in range(n):
        k = rng.choice([1, 2, 2, 3])
        md = T.rand_table(rng, k=k, nondet=rng.random() < 0.5, empty=None)
        for w in T.rand_words(rng, md, 4, maxlen=4):
            if any(c not in md["tape_symbols"] for c in w):
                # a character outside the tape alphabet is outside the model's symbol type: the two verdicts of the
                # implementation are compared on the word as it is, the model sees it without that character
                check_marker_characters(ctx, md, w, B)
                w = "".join(c for c in w if c in md["tape_symbols"])
            check(ctx, batch, md, w, B, "random")
            if i % 4 == 0 and w:
                j = rng.randrange(len(w) + 1)
                check_marker_characters(ctx, md, w[:j] + rng.choice("^_") + w[j:], B)
            if i % 3 == 0:
                # the same machine with another symbol as the blank, run right afterwards in the same process
                nb = next(c for c in "~#. :" if c not in md["tape_symbols"])
                md2 = T.translate_symbols(md, {c: (nb if c == md["blank"] else c) for c in md["tape_symbols"]})
                check(ctx, batch, md2, w.replace(md["blank"], nb), B, "blank_renamed")
    # two branches that differ in the state only, state names that are small negative integers (-1, -2, ...)
    for i in range(ctx.n(100, 600)):
        names, _ = gen.pick_names(rng, 6, "negint")
        head, tail = names[:2], names[2:]
        rng.shuffle(head)            # -1 and -2 are both working states (one of them the initial state)
        rng.shuffle(tail)
        names = head + tail
        md = T.rand_table(rng, k=rng.choice([1, 1, 2]), nondet=True, names=names, twin=True, nasty=False, empty=None)
        for w in T.rand_words(rng, md, 3, maxlen=4):
            w = "".join(c for c in w if c in md["tape_symbols"])
            check(ctx, batch, md, w, B, "twin_branches")
    batch.flush()
    if ctx.tier == "thorough":
        opts = [None] + [(q2, w, d) for q2 in "qf" for w in "ab." for d in "LRN"]
        for e in itertools.product(opts, repeat=3):
            row = {(s,): [(o[0], ((o[1], o[2]),))] for s, o in zip("ab.", e) if o is not None}
            md = dict(states=["q", "f"], finals=["f"], input_symbols="ab", tape_symbols=".ab", blank=".", initial="q", k=1,
                      profile="exhaustive", table={"q": row})
            for w in ("", "a", "b", "ab"):
                check(ctx, batch, md, w, 40, "exhaustive")
        batch.flush()
        ctx.exhaustive = True
        ctx.exhaustive_scope = ("all 19^3 = 6859 one-tape tables with one working and one final state over tape symbols {a,b,blank} "
                                "x inputs '', 'a', 'b', 'ab', budget 40: simulation vs native verdict and simulation trace vs model")


def replay(ctx, case):
    if case.get("kind") == "markers":
        check_marker_characters(ctx, load_def(case["machine"]), case["word"], case["budget"])
        print("replay:", "VIOLATION reproduced" if ctx.violations else "no disagreement")
        return
    batch = Batch(ctx, size=1)
    md = load_def(case["machine"])
    w, B = case["word"], case["budget"]
    check(ctx, batch, md, w, B, "replay")
    batch.flush()
    m = T.mk(md, "mntm")
    for name, fn in (("native read_input_stepwise", m.read_input_stepwise), ("read_input_as_ntm", m.read_input_as_ntm)):
        items, out = T.consume(fn(w), 12)
        print(f"  impl {name}: {[next(iter(s)) for s in items][:6]} ... outcome within 12 items: {out}")
    print("replay:", "VIOLATION reproduced" if ctx.violations else "no disagreement")
