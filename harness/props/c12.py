"""C12 - state elimination yields a regular expression for the same language (correspondence half).

For a source automaton X (DFA or NFA, non-empty language):
  s = GNFA.from_dfa(X).to_regex()  /  GNFA.from_nfa(X).to_regex()
  (1) the library's own parser must accept s:  NFA.from_regex(s, input_symbols=X.input_symbols)
  (2) that NFA and X must have the same language - decided for all words by the proved comparators
      (property 0, op 2 nfa_diff / op 3 nfa_dfa_diff); a disagreement is confirmed by feeding the
      distinguishing word to accepts_input of both;
  (3) informational: the Coq model (Model/GNFA.v: gnfa_of_dfa/gnfa_of_nfa + elim, with the rip order the
      implementation chose) is evaluated on the same source; its expression AST is matched (proved
      derivative matcher) against the source on all words up to length K - this must agree, it is what
      the theorems say - and against the NFA compiled from s (differences only counted as structural).
  (4) the string-level mirror model (Model/GNFAStr.v, wire ops 3/4): the source is sent with its rows in the
      iteration order of the implementation's own dicts, together with the iteration order of the candidate
      dict of every _find_min_connected_node call (recorded by re-evaluating the helper's own set expression on
      the same objects). Compared: the sequence of ripped states (the model's degree rule must pick the same
      state; otherwise counted as structural and the model is re-run along the implementation's order) and the
      returned STRING, literally. The model's own string is also run through the model of the library's parser
      and compiler and compared with the source by the proved comparator (what C12_dfa_to_regex /
      C12_nfa_to_regex state; a failure there is a defect of the model). A literal difference of the strings is
      a correspondence failure: the implementation's string is then judged by the model parser + comparator;
      a violation only when it is rejected or denotes another language, otherwise counted in
      structural_differences.
"""
from __future__ import annotations

import itertools

import enc
import gen
from props.common import load_def, mk_dfa, mk_nfa, outcome
from props import regex_common as rc
from automata.fa.dfa import DFA
from automata.fa.gnfa import GNFA
from automata.fa.nfa import NFA

RULE = ("valid DFAs and NFAs with non-empty language, 1-5 states, alphabets of 1-3 symbols, 7 state-name pools; NFAs "
        "with parallel and cyclic empty-string edges, empty-string paths that bypass a state next to a parallel symbol "
        "edge, states without a row, final initial state; a hand-written corpus runs first. Per case: to_regex() must "
        "return a string, the library's parser must accept it, and the compiled NFA must have exactly the source's "
        "language (proved comparator, all words); the string is also compared literally with the string-level mirror "
        "model run under the recorded candidate orders (and the sequence of ripped states with the model's). "
        "distinct = canonical source automaton; non-trivial = at least 2 "
        "states and (for NFAs) an empty-string edge or a nondeterministic choice, (for DFAs) a cycle or >= 3 states")

K = 5  # word length bound of the AST-level cross checks
MAX_EDGES = 14  # generated NFAs have at most this many (state, symbol, target) triples
IMPL_CAP = 60  # informational model-vs-compiled-expression check only for compiled NFAs up to this many states

# ---------------------------------------------------------------------------------------------
# observing the rip order (the only thing to_regex leaves open): wrap the selection helper
_ORDER = []
_SCHED = []  # per call: the iteration order of the candidates (the dict _find_min_connected_node builds), or None


def _install_recorder():
    raw = GNFA.__dict__.get("_find_min_connected_node")
    if raw is None or getattr(raw, "_c12_wrapped", False):
        return
    fn = raw.__func__ if isinstance(raw, staticmethod) else raw

    def rec(*a, **kw):
        try:
            # the same set expression the helper evaluates on the same objects: same iteration order
            states = kw["states"] if "states" in kw else a[0]
            ini = kw["initial_state"] if "initial_state" in kw else a[2]
            fin = kw["final_state"] if "final_state" in kw else a[3]
            _SCHED.append(list(states - {ini, fin}))
        except Exception:
            _SCHED.append(None)
        q = fn(*a, **kw)
        _ORDER.append(q)
        return q

    wrapped = staticmethod(rec)
    GNFA._find_min_connected_node = wrapped
    rec._c12_wrapped = True


_install_recorder()


# ---------------------------------------------------------------------------------------------
# the string-level mirror model (coq/Model/GNFAStr.v, wire ops 3/4)
STR_FULL_CAP = 160  # the model's own parser + compiler + comparator run on the model's string up to this length


def enc_ordered(src, kind, st):
    """The source with its rows in the iteration order of the implementation's own dicts (from_dfa / from_nfa
    merge parallel edges in that order) and the character codes of the regex model as symbols.
    None when a symbol is not a single character the regex model has a code for."""
    try:
        if any(len(a) != 1 for a in src.input_symbols):
            return None
        syms = sorted(rc.code(a) for a in src.input_symbols)
        rows = []
        for q, row in src.transitions.items():
            if kind == "dfa":
                rows.append([st(q), [[rc.code(a), st(t)] for a, t in row.items()]])
            else:
                rows.append([st(q), [[0 if a == "" else rc.code(a) + 1, [st(t) for t in ts]] for a, ts in row.items()]])
    except (ValueError, KeyError):
        return None
    out = [sorted(st(q) for q in src.states), syms, rows, st(src.initial_state), sorted(st(q) for q in src.final_states)]
    if kind == "dfa":
        out.append(bool(src.allow_partial))
    return out


def unchars(cs):
    inv = {v: k for k, v in rc.FIXED.items() if k not in "\r\x0b\x0c"}
    return "".join(inv[c] if c in inv else (str(c - 16) if 16 <= c <= 25 else rc.POOL[c - 26]) for c in cs)


def str_check_problems(chk, what):
    """chk = [model parser verdict, res (distinguishing word?)] as answered by ops 3/4."""
    out = []
    if not chk:
        return out
    pv, dv = enc.dec_res(chk[0]), enc.dec_res(chk[1])
    if pv[0] != "ok":
        out.append(f"the model of the library's parser rejects {what} (error code {pv[1]})")
    elif dv[0] != "ok":
        out.append(f"the model compiler / comparator did not return on {what}: {dv}")
    elif dv[1]:
        out.append(f"{what} does not denote the source's language: word codes {dv[1][0]}")
    return out


def nonempty_def(kind, d):
    """Is some final state reachable? (plain graph search on the definition)"""
    seen, todo = {d["initial_state"]}, [d["initial_state"]]
    while todo:
        q = todo.pop()
        for tgt in d["transitions"].get(q, {}).values():
            for t in ([tgt] if kind == "dfa" else tgt):
                if t not in seen:
                    seen.add(t)
                    todo.append(t)
    return bool(seen & set(d["final_states"]))


def diff_word(d, sy):
    d = enc.dec_res(d)
    if d[0] != "ok":
        return ("error", d)
    return ("word", sy.unword(d[1][0])) if d[1] else None


def check(ctx, kind, sdef, tag):
    """kind: 'dfa' | 'nfa'; sdef: constructor kwargs."""
    src = mk_dfa(sdef) if kind == "dfa" else mk_nfa(sdef)
    names = enc.dfa_names(src) if kind == "dfa" else enc.nfa_names(src)
    st = enc.Renum(names)
    sy = enc.SymMap(src.input_symbols)
    tsrc = enc.enc_dfa(src, st, sy) if kind == "dfa" else enc.enc_nfa(src, st, sy)
    replay = {"kind": kind, "def": repr(sdef), "tag": tag}

    if kind == "dfa":
        nontrivial = len(src.states) >= 2 and (len(src.states) >= 3 or any(
            t == q for q, row in src.transitions.items() for t in row.values()))
    else:
        has_eps = any(row.get("") for row in src.transitions.values())
        nondet = any(len(ts) > 1 for row in src.transitions.values() for ts in row.values())
        nontrivial = len(src.states) >= 2 and (has_eps or nondet)
        ctx.tally("nfa_eps" if has_eps else "nfa_no_eps")
    ctx.tally(kind)
    ctx.tally(f"{kind}_states_{len(src.states)}")
    if src.initial_state in src.final_states:
        ctx.tally("final_initial_state")

    # --- implementation
    del _ORDER[:]
    del _SCHED[:]
    r = outcome(lambda: (GNFA.from_dfa(src) if kind == "dfa" else GNFA.from_nfa(src)).to_regex())
    order = list(_ORDER)
    sched_seen = list(_SCHED)
    order_observed = True
    if set(order) != set(src.states) or len(order) != len(src.states):
        order = sorted(src.states, key=enc.sort_key)
        ctx.tally("rip_order_not_observed")
        order_observed = False
    worder = [st(q) for q in order]
    problems, s, rx, conf = [], None, None, None
    if r[0] != "ok":
        problems.append(f"GNFA.from_{kind}(...).to_regex() raised {r[2]}")
    elif not isinstance(r[1], str):
        problems.append(f"to_regex() returned {r[1]!r}, not a string, for a source with a non-empty language")
    else:
        s = r[1]
        replay["regex"] = s
        p = outcome(lambda: NFA.from_regex(s, input_symbols=src.input_symbols))
        if p[0] != "ok":
            problems.append(f"the library's own parser rejects the expression {s!r}: {p[2]}")
        else:
            rx = p[1]
    ctx.tally("regex_len_" + ("none" if s is None else "0-9" if len(s) < 10 else "10-99" if len(s) < 100 else "100+"))

    # --- comparator (all words) and model
    items = []
    trx = None
    if rx is not None:
        trx = enc.enc_nfa(rx, None, sy)
        items.append((0, 3 if kind == "dfa" else 2, enc.tree([trx, tsrc])))
    with_impl = trx is not None and len(rx.states) <= IMPL_CAP
    if trx is not None and not with_impl:
        ctx.tally("model_vs_compiled_expression_skipped_large")
    items.append((12, 1 if kind == "dfa" else 2, enc.tree([tsrc, worder, K, [trx] if with_impl else []])))
    answers = ctx.driver.batch(items)
    model = answers[-1]
    if rx is not None:
        valid_rx, valid_src, d = answers[0]
        if not valid_src:
            ctx.violation("harness: generated source is not valid for the model", replay, confirmed=False)
            return
        if not valid_rx:
            problems.append("the NFA compiled from the expression is not a valid NFA")
        dw = diff_word(d, sy)
        if dw and dw[0] == "word":
            w = dw[1]
            a_src, a_rx = src.accepts_input(w), rx.accepts_input(w)
            conf = {"word": w, "source_accepts": a_src, "expression_accepts": a_rx}
            problems.append(f"the expression {s!r} does not denote the source's language: word {w!r} "
                            f"(source accepts: {a_src}, NFA.from_regex(expression) accepts: {a_rx})")
            if a_src == a_rx:
                ctx.violation("comparator reports a distinguishing word the implementation does not confirm: " + repr(conf),
                              dict(replay, correspondence="C12/comparator"), confirmed=False)
                return
        elif dw:
            ctx.violation(f"comparator did not return: {dw}", dict(replay, correspondence="C12/comparator"), confirmed=False)
            return

    # --- the model itself (must agree with the source; this is what the theorems state)
    if model == [0, 99] or len(model) != 5:
        ctx.violation(f"model rejected the input: {model}", dict(replay, correspondence="C12/model"), confirmed=False)
        return
    g_valid, ast, size, d_src, d_impl = model
    if not g_valid or d_src:
        ctx.violation(f"model: gnfa valid={g_valid}, expression differs from the source on {d_src}",
                      dict(replay, correspondence="C12/model-elim"), confirmed=False)
    if d_impl:
        ctx.structural += 1
    ctx.tally("model_ast_size_" + ("<50" if size < 50 else "<500" if size < 500 else ">=500"))

    # --- the string-level mirror model: the implementation's string literally, with the candidate orders it used
    tord = enc_ordered(src, kind, st)
    if tord is None:
        ctx.tally("string_model_skipped_symbol_without_code")
    elif r[0] != "ok" or not (s is None or isinstance(s, str)):
        ctx.tally("string_model_skipped_no_string")
    else:
        op = 3 if kind == "dfa" else 4
        full = 1 if (s is not None and len(s) <= STR_FULL_CAP) else 0
        if order_observed and len(sched_seen) == len(order) and all(c is not None for c in sched_seen):
            sched, forced = [[st(q) for q in cand] for cand in sched_seen], 0
        else:
            # fall back: rip along the order used for the AST model, without the degree rule (mode 2/3)
            sched, forced = [[q] for q in worder], 2
            ctx.tally("string_model_schedule_from_rip_order")
        (ans,) = ctx.driver.batch([(12, op, enc.tree([tord, sched, full + forced, []]))])
        mres = enc.dec_res(ans[0]) if ans != [0, 99] and len(ans) == 3 else ("bad", ans)
        if mres[0] != "ok":
            ctx.violation(f"string model did not return a result: {mres}", dict(replay, correspondence="C12/string-model"),
                          confirmed=False)
        else:
            mstr_codes, morder = mres[1]
            mstr = unchars(mstr_codes[0]) if mstr_codes else None
            if order_observed and morder != worder:
                # the degree rule of the model picked another state: the model is wrong or the code changed
                ctx.tally("string_model_rip_order_differs")
                ctx.structural += 1
                (ans2,) = ctx.driver.batch([(12, op, enc.tree([tord, [[q] for q in worder], full + 2, []]))])
                m2 = enc.dec_res(ans2[0])
                if m2[0] == "ok":
                    ans = ans2
                    mstr_codes, morder = m2[1]
                    mstr = unchars(mstr_codes[0]) if mstr_codes else None
            else:
                ctx.tally("string_model_rip_order_equal")
            for pr in str_check_problems(ans[1], f"the model's string {mstr!r}"):
                # what the theorems exclude: a failure here is a defect of the model or of a proof
                ctx.violation("string model: " + pr, dict(replay, correspondence="C12/string-model-self"), confirmed=False)
            if ans[1]:
                ctx.tally("string_model_string_parsed_compiled_compared_by_model")
            if mstr == s:
                ctx.tally("string_literally_equal")
            else:
                ctx.tally("string_differs_from_model")
                # correspondence failure: judge the implementation's string with the model's parser and comparator
                sem = []
                if s is not None:
                    try:
                        (ans3,) = ctx.driver.batch([(12, op, enc.tree([tord, sched, 0, [rc.chars(s)]]))])
                        sem = str_check_problems(ans3[2], f"the implementation's string {s!r}")
                    except (ValueError, KeyError):
                        sem = []
                if (s is None) != (mstr is None):
                    sem.append(f"to_regex() returned {s!r}, the string model {mstr!r}")
                if sem:
                    problems.extend(f"(string model {mstr!r}) " + x for x in sem)
                else:
                    ctx.structural += 1   # same language, accepted by the parser: a literal difference only

    ctx.case((kind, enc.tree(tsrc)), nontrivial,
             sample={"kind": kind, "source": repr(sdef), "regex": s, "rip_order": [repr(q) for q in order],
                     "model_ast_size": size})
    if problems:
        ctx.violation("; ".join(problems), dict(replay, problems=problems, distinguishing_word=conf))


# ---------------------------------------------------------------------------------------------
# corpus: hand-written corner cases (run first)
def _nfa(n, sigma, edges, finals, init=0):
    trans = {}
    for p, a, q in edges:
        trans.setdefault(p, {}).setdefault(a, set()).add(q)
    trans.setdefault(init, {})
    return dict(states=set(range(n)), input_symbols=set(sigma), transitions=trans, initial_state=init,
                final_states=set(finals))


CORPUS = [
    # DESIGN section 8 row 6: empty-string path bypassing a state, next to a parallel symbol edge
    ("nfa", _nfa(3, "a", [(0, "", 1), (1, "", 2), (0, "a", 2)], {2}), "eps-bypass-1"),
    ("nfa", _nfa(3, "a", [(0, "", 1), (1, "", 2), (0, "", 2), (2, "a", 2)], {2}), "eps-bypass-2-lone-option-mark"),
    ("nfa", _nfa(4, "a", [(0, "a", 1), (1, "", 2), (2, "", 3)], {1, 3}), "eps-bypass-wrong-language"),
    ("nfa", _nfa(3, "a", [(0, "", 1), (1, "", 2), (2, "a", 2)], {2}), "eps-chain"),
    ("nfa", _nfa(4, "a", [(0, "", 1), (1, "", 2), (2, "", 3), (0, "a", 3), (3, "a", 3)], {3}), "eps-bypass-3"),
    ("nfa", _nfa(3, "ab", [(0, "", 1), (1, "", 2), (0, "a", 2), (2, "b", 0)], {2}), "eps-bypass-cycle"),
    # parallel and cyclic empty-string edges, final initial state, state without a row
    ("nfa", _nfa(2, "a", [(0, "", 1), (1, "", 0), (0, "a", 1)], {0}), "eps-cycle-final-initial"),
    ("nfa", _nfa(2, "a", [(0, "", 0), (0, "a", 1), (0, "", 1)], {1}), "eps-self-loop"),
    ("nfa", _nfa(3, "ab", [(0, "a", 1), (0, "", 1), (0, "b", 1), (1, "a", 2), (1, "b", 2)], {2}), "parallel-merge"),
    ("nfa", _nfa(1, "a", [], {0}), "only-empty-word"),
    ("nfa", _nfa(1, "a", [(0, "a", 0)], {0}), "a-star"),
    ("dfa", dict(states={0}, input_symbols={"a"}, transitions={0: {"a": 0}}, initial_state=0, final_states={0}),
     "dfa-a-star"),
    ("dfa", dict(states={0, 1}, input_symbols={"a", "b"}, transitions={0: {"a": 1, "b": 1}, 1: {"a": 0, "b": 1}},
                 initial_state=0, final_states={0, 1}), "dfa-parallel"),
    ("dfa", dict(states={0, 1, 2}, input_symbols={"a", "b"}, transitions={0: {"a": 1}, 1: {"b": 2}, 2: {}},
                 initial_state=0, final_states={2}, allow_partial=True), "dfa-partial-chain"),
]


def rand_bypass_nfa(rng):
    """NFAs whose empty-string paths bypass states: a chain of empty-string edges plus random symbol edges."""
    n = rng.randint(3, 5)
    sigma = rng.choice(["a", "ab", "abc"])
    names, _ = gen.pick_names(rng, n)
    edges = set()
    k = rng.randint(2, n - 1)
    chain = rng.sample(range(n), k + 1) if rng.random() < 0.5 else list(range(k + 1))
    for i in range(k):
        edges.add((chain[i], "", chain[i + 1]))
    for _ in range(rng.randint(1, n + 2)):
        edges.add((rng.randrange(n), rng.choice(sigma + ("" if rng.random() < 0.3 else sigma[0])), rng.randrange(n)))
    trans = {}
    for p, a, q in edges:
        trans.setdefault(names[p], {}).setdefault(a, set()).add(names[q])
    trans.setdefault(names[0], {})
    finals = {names[chain[-1]]} | {names[i] for i in range(n) if rng.random() < 0.2}
    return dict(states=set(names), input_symbols=set(sigma), transitions=trans, initial_state=names[0],
                final_states=finals)


def rand_two_route_nfa(rng):
    """Two routes between the same pair of states: one reading symbols through a state s (with an optional last
    step: parallel symbol and empty-string edges), one consisting of empty-string edges through a state t. The
    label produced when the first state is ripped ends in an option mark that covers only its last atom, and the
    second rip must then make the WHOLE label optional - the composition rule for an empty concatenation."""
    sigma = rng.choice(["ab", "abc", "abcd"])
    order = [0, 1, 2, 3]
    if rng.random() < 0.4:
        rng.shuffle(order)
    qi, s_, t_, qj = order
    x, y = rng.choice(sigma), rng.choice(sigma)
    edges = {(qi, x, s_), (s_, y, qj), (qi, "", t_), (t_, "", qj)}
    if rng.random() < 0.8:
        edges.add((s_, "", qj))                      # y? on the second leg
    if rng.random() < 0.4:
        edges.add((qi, rng.choice(sigma), s_))       # (x|z) on the first leg
    if rng.random() < 0.3:
        edges.add((qj, rng.choice(sigma), qi))       # a cycle back
    if rng.random() < 0.2:
        edges.add((qj, rng.choice(sigma), qj))
    return _nfa(4, sigma, sorted(edges), {qj} | ({qi} if rng.random() < 0.15 else set()), init=qi)


def known_reserved_symbols(ctx):
    """Open finding: the regex dialect has no way to write a literal operator character (or a symbol of several
    characters), so a valid automaton whose alphabet contains one cannot be converted: GNFA.from_dfa refuses its own
    labels, or to_regex returns a string that means something else ('.' is the wildcard) or that from_regex refuses.
    The theorems carry the hypothesis sym_ok (ordinary single characters) for this reason, and the generators keep to
    such alphabets; this reproducer runs on every pass."""
    k = next((k for k in ctx.known if k["id"] == "to_regex_alphabet_with_reserved_characters"), None)
    failing = []
    for sym in ("*", "|", "(", ".", " ", "ab"):
        d = DFA(states={0, 1}, input_symbols={sym}, transitions={0: {sym: 1}, 1: {}}, initial_state=0, final_states={1},
                allow_partial=True)
        out = outcome(lambda: GNFA.from_dfa(d).to_regex())
        good = False
        if out[0] == "ok":
            back = outcome(lambda: NFA.from_regex(out[1], input_symbols=set(d.input_symbols)))
            good = back[0] == "ok" and back[1].accepts_input(sym) and not back[1].accepts_input("") \
                and not back[1].accepts_input(sym + sym)
        if not good:
            failing.append(sym)
    ctx.tally("reserved_symbol_reproducer_failing_%d_of_6" % len(failing))
    if failing:
        if k is not None and k["status"] == "open":
            ctx.report_known(k)
        else:
            ctx.violation(f"a two-state DFA whose only symbol is one of {failing!r} cannot be converted to a regular expression "
                          "with its language", {"kind": "reserved_symbols", "symbols": failing})
    elif k is not None and k["status"] == "open":
        ctx.notes.append("known finding to_regex_alphabet_with_reserved_characters no longer reproduces")


def run(ctx):
    ctx.rule = RULE
    rng = ctx.rng
    known_reserved_symbols(ctx)
    for kind, sdef, tag in CORPUS:
        check(ctx, kind, sdef, "corpus:" + tag)
    n_cases = ctx.n(800, 9000)
    done = tries = 0
    while done < n_cases and tries < 20 * n_cases:
        tries += 1
        r = rng.random()
        if r < 0.35:
            kind, sdef = "dfa", gen.rand_dfa_def(rng, nmax=5)
        elif r < 0.65:
            kind, sdef = "nfa", gen.rand_nfa_def(rng, nmax=5, p_eps=rng.choice([0.0, 0.3, 0.5, 0.8]))
        elif r < 0.78:
            kind, sdef = "nfa", rand_two_route_nfa(rng)
        else:
            kind, sdef = "nfa", rand_bypass_nfa(rng)
        if not nonempty_def(kind, sdef):
            ctx.tally("skipped_empty_language")
            continue
        if kind == "nfa" and sum(len(ts) for row in sdef["transitions"].values() for ts in row.values()) > MAX_EDGES:
            ctx.tally("skipped_too_dense")   # expression length grows like 4^states on dense graphs
            continue
        check(ctx, kind, sdef, "random")
        done += 1
    if ctx.tier == "thorough":
        exhaustive(ctx)


def exhaustive(ctx):
    subsets2 = [set(), {0}, {1}, {0, 1}]
    # every NFA with states {0,1} over {a,b}: targets on 'a', 'b', '' any subset; finals any subset; initial 0
    for t in itertools.product(subsets2, repeat=6):
        for fin in subsets2[1:]:
            trans = {0: {}, 1: {}}
            for q in (0, 1):
                for key, ts in zip(("a", "b", ""), t[3 * q: 3 * q + 3]):
                    if ts:
                        trans[q][key] = set(ts)
            sdef = dict(states={0, 1}, input_symbols={"a", "b"}, transitions=trans, initial_state=0, final_states=set(fin))
            if nonempty_def("nfa", sdef):
                check(ctx, "nfa", sdef, "exhaustive")
    # every partial DFA with states {0,1,2} over {a} and with states {0,1} over {a,b}; initial 0
    for tg in itertools.product([None, 0, 1, 2], repeat=3):
        for fin in itertools.product([False, True], repeat=3):
            sdef = dict(states={0, 1, 2}, input_symbols={"a"},
                        transitions={q: ({"a": tg[q]} if tg[q] is not None else {}) for q in range(3)},
                        initial_state=0, final_states={q for q in range(3) if fin[q]}, allow_partial=True)
            if nonempty_def("dfa", sdef):
                check(ctx, "dfa", sdef, "exhaustive")
    for tg in itertools.product([None, 0, 1], repeat=4):
        for fin in subsets2[1:]:
            trans = {q: {a: tg[2 * q + i] for i, a in enumerate("ab") if tg[2 * q + i] is not None} for q in (0, 1)}
            sdef = dict(states={0, 1}, input_symbols={"a", "b"}, transitions=trans, initial_state=0,
                        final_states=set(fin), allow_partial=True)
            if nonempty_def("dfa", sdef):
                check(ctx, "dfa", sdef, "exhaustive")
    ctx.exhaustive = True
    ctx.exhaustive_scope = ("all NFAs with states {0,1} over {a,b} (any 'a'/'b'/empty-string target subsets, any finals, "
                            "initial 0) and all partial DFAs with states {0,1,2} over {a} / states {0,1} over {a,b} "
                            "(initial 0), each with a non-empty language")


def replay(ctx, case):
    if case.get("kind") not in ("dfa", "nfa"):
        print("replay: nothing to re-run for", case.get("kind"))
        return
    sdef = load_def(case["def"])
    src = mk_dfa(sdef) if case["kind"] == "dfa" else mk_nfa(sdef)
    r = outcome(lambda: (GNFA.from_dfa(src) if case["kind"] == "dfa" else GNFA.from_nfa(src)).to_regex())
    print("source:", case["def"])
    print("to_regex():", r[1] if r[0] == "ok" else r)
    if r[0] == "ok" and isinstance(r[1], str):
        p = outcome(lambda: NFA.from_regex(r[1], input_symbols=src.input_symbols))
        print("NFA.from_regex:", "accepted" if p[0] == "ok" else p)
    check(ctx, case["kind"], sdef, "replay")
    print("replay:", "VIOLATION reproduced" if ctx.violations else "no disagreement")
