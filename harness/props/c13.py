"""C13 - word counting, enumeration, lengths, random sampling (correspondence half).

Every observable of the implementation (counts, word lists, min/max length, cardinality, len,
first words of iteration, isempty/isfinite, random_word with its randint draws reproduced) is
compared literally with the extracted model (coq/Model/Count.v)."""
from __future__ import annotations

import itertools
import random
import signal
from contextlib import contextmanager
from fractions import Fraction

import enc
import gen
from props.common import load_def, mk_dfa, outcome

RULE = ("valid DFA definitions from four generators (random cyclic tables; acyclic 'finite language' tables with "
        "optional dead or unreachable cycles and an optional trap making them complete; empty languages; hand-written "
        "corner shapes), 1-6 states (thorough: up to 8), 1-3 symbols, 7 state-name pools; per DFA all lengths "
        "k = 0..K (K <= 8, smaller when the word lists get long), min/max length, cardinality, len, the first n words "
        "of iteration, and random_word for several (k, seed); distinct = distinct canonical DFA; non-trivial = at "
        "least 2 states and at least 2 accepted words of length <= K")

KMAX = 8


@contextmanager
def time_limit(sec):
    def h(signum, frame):
        raise TimeoutError("call exceeded %ss" % sec)
    old = signal.signal(signal.SIGALRM, h)
    signal.setitimer(signal.ITIMER_REAL, sec)
    try:
        yield
    finally:
        signal.setitimer(signal.ITIMER_REAL, 0)
        signal.signal(signal.SIGALRM, old)


# ---------------------------------------------------------------- generators
def dag_dfa_def(rng, nmax=6):
    """Finite language: edges only go forward; optionally a dead cycle, an unreachable cycle
    with final states, and a trap that makes the table complete."""
    sigma = gen.rand_alphabet(rng)
    n = rng.randint(1, nmax)
    extra_dead = rng.random() < 0.3
    extra_unreach = rng.random() < 0.25
    trap = rng.random() < 0.3
    total = n + (1 if extra_dead else 0) + (1 if extra_unreach else 0) + (1 if trap else 0)
    names, _ = gen.pick_names(rng, total)
    core = names[:n]
    rest = names[n:]
    dead = rest.pop(0) if extra_dead else None
    unreach = rest.pop(0) if extra_unreach else None
    trapq = rest.pop(0) if trap else None
    dens = rng.choice([0.9, 0.7, 0.5])
    trans = {}
    for i, q in enumerate(core):
        row = {}
        for a in sigma:
            r = rng.random()
            if i + 1 < n and r < dens:
                row[a] = core[rng.randint(i + 1, n - 1)]
            elif dead is not None and r < dens + 0.15:
                row[a] = dead
        trans[q] = row
    if dead is not None:
        trans[dead] = {a: dead for a in sigma if rng.random() < 0.8}
    if unreach is not None:
        trans[unreach] = {a: rng.choice([unreach, core[-1]]) for a in sigma if rng.random() < 0.8}
    finals = {q for q in core if rng.random() < 0.45}
    if rng.random() < 0.85:
        finals.add(core[-1] if rng.random() < 0.6 else rng.choice(core))
    if unreach is not None and rng.random() < 0.7:
        finals.add(unreach)
    if trapq is not None:
        trans[trapq] = {}
        for q in list(trans):
            for a in sigma:
                trans[q].setdefault(a, trapq)
    return dict(states=set(names), input_symbols=set(sigma), transitions=trans,
                initial_state=core[0], final_states=finals, allow_partial=trapq is None)


def empty_dfa_def(rng):
    d = gen.rand_dfa_def(rng, nmax=5)
    if rng.random() < 0.5:
        d["final_states"] = set()
    else:
        # final states exist but are unreachable: cut every edge into them
        fin = set(d["final_states"]) - {d["initial_state"]}
        d["final_states"] = fin
        d["allow_partial"] = True
        d["transitions"] = {q: {a: t for a, t in row.items() if t not in fin} for q, row in d["transitions"].items()}
    return d


def plain(params):
    """input_parameters (frozen containers) -> plain dict/set constructor arguments."""
    p = dict(params)
    return dict(states=set(p["states"]), input_symbols=set(p["input_symbols"]),
                transitions={q: dict(row) for q, row in p["transitions"].items()},
                initial_state=p["initial_state"], final_states=set(p["final_states"]),
                allow_partial=bool(p.get("allow_partial", False)))


def corner_defs():
    from automata.fa.dfa import DFA
    out = [
        ("empty_language", plain(DFA.empty_language({"a"}).input_parameters)),
        ("empty_language_ab", plain(DFA.empty_language({"a", "b"}).input_parameters)),
        ("universal", plain(DFA.universal_language({"a", "b"}).input_parameters)),
        ("only_empty_word", dict(states={0}, input_symbols={"a"}, transitions={0: {}}, initial_state=0,
                                 final_states={0}, allow_partial=True)),
        ("no_rows_no_final", dict(states={0}, input_symbols={"a"}, transitions={0: {}}, initial_state=0,
                                  final_states=set(), allow_partial=True)),
        ("self_loop_final", dict(states={0}, input_symbols={"a", "b"}, transitions={0: {"b": 0}}, initial_state=0,
                                 final_states={0}, allow_partial=True)),
        ("period3", dict(states={0, 1, 2}, input_symbols={"a"}, transitions={0: {"a": 1}, 1: {"a": 2}, 2: {"a": 0}},
                         initial_state=0, final_states={2}, allow_partial=False)),
        ("dead_cycle_finite", dict(states={0, 1, 2}, input_symbols={"a", "b"},
                                   transitions={0: {"a": 1, "b": 2}, 1: {}, 2: {"a": 2, "b": 2}},
                                   initial_state=0, final_states={1}, allow_partial=True)),
        ("unreachable_cycle_finite", dict(states={0, 1, 2}, input_symbols={"a"},
                                          transitions={0: {"a": 1}, 1: {}, 2: {"a": 2}},
                                          initial_state=0, final_states={0, 1, 2}, allow_partial=True)),
        ("reversed_row_order", dict(states={0, 1}, input_symbols={"a", "b", "c"},
                                    transitions={0: {"c": 1, "a": 0, "b": 1}, 1: {"b": 1, "a": 0, "c": 1}},
                                    initial_state=0, final_states={1}, allow_partial=False)),
        ("finite_language_trie", plain(DFA.from_finite_language({"a", "b"}, {"", "ab", "ba", "abb", "b"}).input_parameters)),
    ]
    return out


# ---------------------------------------------------------------- brute-force oracle (confirmation only)
def oracle(d, sy, K, n):
    """Observables from a direct table walk (bounded enumeration; used only to decide whether a
    disagreement is the implementation's or the model's)."""
    nq = len(d.states)
    top = max(K, 2 * nq + 1)

    def step(q, a):
        row = d.transitions.get(q, {})
        return row.get(a)

    # per length: the set of (word, state) is too big; walk level by level keeping (word, state)
    levels = []
    cur = [((), d.initial_state)]
    for k in range(top + 1):
        levels.append([w for w, q in cur if q in d.final_states])
        if k == top:
            break
        nxt = []
        for w, q in cur:
            for a in sy.syms:
                t = step(q, a)
                if t is not None:
                    nxt.append((w + (a,), t))
        if len(nxt) > 60000:
            return None
        cur = nxt
    lens = [k for k, ws in enumerate(levels) if ws]
    o = {}
    o["counts"] = [len(levels[k]) for k in range(K + 1)]
    o["words"] = [[sy.word(w) for w in levels[k]] for k in range(K + 1)]
    o["empty"] = not lens
    infinite = any(nq <= k for k in lens)
    o["finite"] = not infinite
    o["min"] = ("ok", lens[0]) if lens else ("err", enc.EMPTY)
    o["max"] = ("err", enc.EMPTY) if not lens else (("ok", None) if infinite else ("ok", lens[-1]))
    o["card"] = ("err", enc.INFINITE) if infinite else ("ok", sum(len(ws) for ws in levels))
    stream = [sy.word(w) for ws in levels for w in ws]
    o["iter"] = ("ok", stream[:n]) if (not infinite or len(stream) >= n) else None
    return o


# ---------------------------------------------------------------- implementation side
def pick_K(d):
    """Largest K <= KMAX keeping the word lists small."""
    s = len(d.input_symbols)
    return {1: 8, 2: 8, 3: 6}.get(s, 5)


def pick_n(rng, ddef, K):
    """How many words of the iteration to take: everything (+ a few, to see the end) for a finite
    language; for an infinite one a number that is reached within a bounded depth."""
    d = mk_dfa(ddef)
    if d.isfinite():
        return 400
    depth = {1: 30, 2: 10, 3: 7}.get(len(d.input_symbols), 6)
    want = rng.choice([1, 2, 3, 5, 8, 13, 40])
    cum = 0
    for k in range(depth + 1):
        cum += d.count_words_of_length(k)
        if cum >= want:
            return want
    return cum


def impl_obs(ddef, sy, K, n):
    f = lambda: mk_dfa(ddef)   # noqa: E731 - a fresh object per query kind (histories are C20's subject)
    o = {}
    d1 = f()
    o["counts"] = [outcome(lambda k=k: d1.count_words_of_length(k)) for k in range(K + 1)]
    d2 = f()
    o["words"] = [outcome(lambda k=k: [sy.word(w) for w in d2.words_of_length(k)]) for k in range(K + 1)]
    # (the object is bound to a name first: cached_method raises RuntimeError on a temporary)
    d3, d4, d5, d6, d7, d8, d9 = f(), f(), f(), f(), f(), f(), f()
    o["min"] = outcome(lambda: d3.minimum_word_length())[:2]
    o["max"] = outcome(lambda: d4.maximum_word_length())[:2]
    o["card"] = outcome(lambda: d5.cardinality())[:2]
    o["len"] = outcome(lambda: len(d6))[:2]
    with time_limit(20):
        o["iter"] = outcome(lambda: [sy.word(w) for w in itertools.islice(iter(d7), n)])[:2]
        # a second pass over the same object, and the words of the middle length asked afterwards
        o["iter_again"] = outcome(lambda: [sy.word(w) for w in itertools.islice(iter(d7), n)])[:2]
        o["words_after_iter"] = outcome(lambda: [sy.word(w) for w in d7.words_of_length(K // 2)])
    o["empty"] = outcome(lambda: d8.isempty())[:2]
    o["finite"] = outcome(lambda: d9.isfinite())[:2]
    return o


def model_res(r, conv=lambda v: v):
    k, v = enc.dec_res(r)
    return (k, conv(v)) if k == "ok" else (k, v)


def opt(v):
    return None if v == [] else v[0]


def check_dfa(ctx, ddef, tag, K=None, n=None):
    d = mk_dfa(ddef)
    st = enc.Renum(enc.dfa_names(d))
    sy = enc.SymMap(d.input_symbols)
    K = pick_K(d) if K is None else K
    n = pick_n(ctx.rng, ddef, K) if n is None else n
    wire = enc.enc_dfa(d, st, sy)
    ans = ctx.driver.batch([(13, 1, enc.tree([wire, K, n]))])[0]
    imp = impl_obs(ddef, sy, K, n)
    m = {
        "valid": ans[0] == 1,
        "counts": ans[1], "words": ans[2],
        "min": model_res(ans[3]), "max": model_res(ans[4], opt), "card": model_res(ans[5]),
        "iter": model_res(ans[6]), "empty": model_res(ans[7], bool), "finite": model_res(ans[8], bool),
    }
    problems = []   # (observable, text)
    if not m["valid"]:
        problems.append(("valid", "the model's validity predicate rejects a definition the constructor accepted"))
    for k in range(K + 1):
        if imp["counts"][k][:2] != ("ok", m["counts"][k]):
            problems.append(("counts", f"count_words_of_length({k}) = {imp['counts'][k]}, model {m['counts'][k]}"))
        if imp["words"][k][:2] != ("ok", m["words"][k]):
            problems.append(("words", f"words_of_length({k}) = {imp['words'][k]!r:.300}, model {m['words'][k]!r:.300}"))
    for key, call in (("min", "minimum_word_length()"), ("max", "maximum_word_length()"), ("card", "cardinality()"),
                      ("empty", "isempty()"), ("finite", "isfinite()")):
        if imp[key] != m[key]:
            problems.append((key, f"{call} = {imp[key]}, model {m[key]}"))
    if imp["len"] != m["card"]:
        problems.append(("len", f"len() = {imp['len']}, model {m['card']}"))
    if imp["iter_again"] != imp["iter"]:
        problems.append(("iter_again", f"a second iteration of the same object gives {imp['iter_again']!r:.200}, the first gave {imp['iter']!r:.200}"))
    if imp["words_after_iter"][:2] != imp["words"][K // 2][:2]:
        problems.append(("words_after_iter", f"words_of_length({K // 2}) after an iteration = {imp['words_after_iter']!r:.200}, on a fresh object {imp['words'][K // 2]!r:.200}"))
    if imp["iter"] != m["iter"]:
        problems.append(("iter", f"first {n} words of iteration = {imp['iter']!r:.300}, model {m['iter']!r:.300}"))

    total = sum(m["counts"])
    ctx.tally("partial" if d.allow_partial else "complete")
    ctx.tally("lang_empty" if m["empty"] == ("ok", True) else
              ("lang_finite" if m["finite"] == ("ok", True) else "lang_infinite"))
    ctx.tally("gen_" + tag)
    ctx.case(enc.tree(wire), nontrivial=len(d.states) >= 2 and total >= 2,
             sample={"dfa": repr(ddef), "K": K, "n": n, "counts": m["counts"], "min": imp["min"], "max": imp["max"],
                     "cardinality": imp["card"], "iter_head": repr(imp["iter"])[:120]})
    if not problems:
        return True
    # the one open row of DESIGN section 8 for C13: iterating an empty language raises
    if (all(p[0] == "iter" for p in problems) and imp["iter"] == ("err", enc.EMPTY) and m["iter"] == ("ok", [])
            and imp["empty"] == ("ok", True)):
        ctx.tally("iteration_of_empty_language_raises")
        if getattr(ctx, "_iter_empty_reported", False):
            return False
        ctx._iter_empty_reported = True
        orc = oracle(d, sy, K, n)
        ctx.violation("iterating a DFA whose language is empty raises EmptyLanguageException instead of producing no "
                      f"word: list({'DFA.empty_language(' + repr(set(d.input_symbols)) + ')' if tag == 'empty_language' else 'DFA(**def)'})",
                      {"kind": "dfa", "def": repr(ddef), "K": K, "n": n, "tag": tag, "call": "list(iter(dfa))",
                       "observed": "EmptyLanguageException", "expected": "[] (no word)",
                       "problems": [p[1] for p in problems]},
                      confirmed=orc is not None and orc["empty"])
        return False
    orc = oracle(d, sy, K, n)
    confirmed = False
    if orc is not None:
        okey = {"len": "card"}
        for key, _ in problems:
            ok = okey.get(key, key)
            want = orc.get(ok)
            if want is None:
                continue
            if key == "counts":
                got = [c[1] if c[0] == "ok" else c for c in imp["counts"]]
            elif key == "words":
                got = [c[1] if c[0] == "ok" else c for c in imp["words"]]
            elif key in ("empty", "finite"):
                got, want = imp[key], ("ok", want)
            else:
                got = imp[key]
            if got != want:
                confirmed = True
    ctx.violation("counting/enumeration observables disagree: " + "; ".join(p[1] for p in problems)[:1500],
                  {"kind": "dfa", "def": repr(ddef), "K": K, "n": n, "tag": tag,
                   "problems": [p[1] for p in problems], "oracle": repr(orc)[:2000]}, confirmed=confirmed)
    return False


# ---------------------------------------------------------------- random_word
def enc_dfa_roworder(d, st, sy):
    """Rows in the dict's own iteration order (random_word walks transition.items())."""
    w = enc.enc_dfa(d, st, sy)
    w[2] = [[st(q), [[sy(a), st(t)] for a, t in row.items()]] for q, row in d.transitions.items()]
    return w


def model_draws(ctx, wire, jobs):
    """jobs: list of (k, seed).  Reproduce Random(seed).randint(0, total-1) step by step, the totals
    coming from the model; returns per job (draws, model result, totals)."""
    rngs = [random.Random(s) for _, s in jobs]
    draws = [[] for _ in jobs]
    final = [None] * len(jobs)
    active = list(range(len(jobs)))
    while active:
        answers = ctx.driver.batch([(13, 2, enc.tree([wire, jobs[i][0], draws[i]])) for i in active])
        nxt = []
        for i, a in zip(active, answers):
            totals = a[1]
            if len(totals) > len(draws[i]) and totals[len(draws[i])] > 0:
                draws[i].append(rngs[i].randint(0, totals[len(draws[i])] - 1))
                nxt.append(i)
            else:
                final[i] = (draws[i], enc.dec_res(a[0]), totals)
        active = nxt
    return final


class Scripted:
    """Stand-in for random.Random inside automata.fa.dfa: hands out a prepared list of draws and
    records the ranges it was asked for."""
    script: list = []
    log: list = []

    def __init__(self, seed=None):
        pass

    def randint(self, a, b):
        Scripted.log.append((a, b))
        if not Scripted.script:
            raise RuntimeError("more randint calls than the model made")
        return Scripted.script.pop(0)


class NeedMore(Exception):
    def __init__(self, n):
        self.n = n


class Unsupported(Exception):
    pass


class Exploring:
    """Stand-in for random.Random that replays a prefix of integer outcomes and, at the first call beyond the
    prefix, reports the size of the range asked for (NeedMore). Supports the integer-valued calls (randint, randrange,
    choice, getrandbits); anything else (random(), uniform(), shuffle ...) makes the exploration inconclusive."""
    script: list = []
    sizes: list = []

    def __init__(self, seed=None):
        pass

    def _draw(self, n):
        if n <= 0:
            raise ValueError("empty range for randrange()")
        if not Exploring.script:
            raise NeedMore(n)
        Exploring.sizes.append(n)
        return Exploring.script.pop(0)

    def randint(self, a, b):
        return a + self._draw(b - a + 1)

    def randrange(self, start, stop=None, step=1):
        if stop is None:
            start, stop = 0, start
        n = len(range(start, stop, step))
        return start + step * self._draw(n)

    def choice(self, seq):
        return seq[self._draw(len(seq))]

    def getrandbits(self, k):
        return self._draw(1 << k)

    def __getattr__(self, name):
        raise Unsupported(name)


def explore_outcomes(ddef, k, cap=4000):
    """All outcomes of DFA.random_word(k) over every resolution of its integer random draws:
    list of (outcome, probability) or None when the exploration is inconclusive / too large."""
    import automata.fa.dfa as dfamod
    old = dfamod.Random
    dfamod.Random = Exploring
    out, pending = [], [[]]
    try:
        while pending:
            p = pending.pop()
            Exploring.script, Exploring.sizes = list(p), []
            try:
                r = outcome(lambda: fresh(ddef).call('random_word', k))
            except NeedMore as e:          # raised through outcome()? outcome catches BaseException subclasses only of Exception
                r = ("more", e.n)
            if r[0] == "err" and r[2] == "NeedMore":
                # outcome() swallowed it: rerun without the wrapper to get the range size
                Exploring.script, Exploring.sizes = list(p), []
                try:
                    fresh(ddef).call('random_word', k)
                    return None
                except NeedMore as e:
                    r = ("more", e.n)
            if r[0] == "err" and r[2] == "Unsupported":
                return None
            if r[0] == "more":
                pending.extend(p + [c] for c in range(r[1]))
                if len(pending) + len(out) > cap:
                    return None
                continue
            pr = Fraction(1)
            for n in Exploring.sizes:
                pr /= n
            out.append((r, pr))
        return out
    finally:
        dfamod.Random = old


def impl_scripted(d, k, draws):
    import automata.fa.dfa as dfamod
    old = dfamod.Random
    dfamod.Random = Scripted
    Scripted.script, Scripted.log = list(draws), []
    try:
        r = outcome(lambda: d.random_word(k))
        return r, list(Scripted.log), list(Scripted.script)
    finally:
        dfamod.Random = old


def check_random(ctx, ddef, jobs, tag):
    d = mk_dfa(ddef)
    st = enc.Renum(enc.dfa_names(d))
    sy = enc.SymMap(d.input_symbols)
    wire = enc_dfa_roworder(d, st, sy)
    res = model_draws(ctx, wire, jobs)
    for (k, seed), (draws, mres, totals) in zip(jobs, res):
        got = outcome(lambda: fresh(ddef).call('random_word', k, seed=seed))
        problems = []
        if got[0] == "ok":
            w = sy.word(got[1])
            mirror_same = mres == ("ok", w)
            if not mirror_same:
                # the seed -> word mapping is not fixed by the property (only membership and uniformity are):
                # a different but correct sampling scheme is a structural difference from the mirror model
                ctx.structural += 1
                ctx.tally("random_word_mapping_differs_from_mirror_model")
            if len(got[1]) != k or not d.accepts_input(got[1]):
                problems.append(f"random_word({k}, seed={seed}) = {got[1]!r} is not an accepted word of length {k}")
            if mres[0] == "err":
                problems.append(f"random_word({k}, seed={seed}) = {got[1]!r} but there is no accepted word of length {k} (model {mres})")
        else:
            mirror_same = True
            if mres != ("err", got[1]):
                problems.append(f"random_word({k}, seed={seed}) raised {got[2]}, model {mres}")
        # the ranges the draws were taken from: totals[i] must be the number of words of the
        # remaining length from the state reached by the result's prefix (implementation's own count)
        if got[0] == "ok" and not problems and mirror_same:
            q = d.initial_state
            for i, c in enumerate(got[1]):
                sub = dict(ddef)
                sub["initial_state"] = q
                t = fresh(sub).call('count_words_of_length', k - i)
                if i >= len(totals) or t != totals[i]:
                    problems.append(f"step {i}: implementation counts {t} words of length {k - i} from {q!r}, model total {totals[i:i + 1]}")
                    break
                q = d.transitions[q][c]
        ctx.tally("random_word_ok" if got[0] == "ok" else "random_word_valueerror")
        ctx.case(("rw", enc.tree(wire), k, seed), nontrivial=got[0] == "ok" and k >= 2 and totals[:1] and totals[0] >= 2,
                 sample={"dfa": repr(ddef), "k": k, "seed": seed, "draws": draws, "word": got[1] if got[0] == "ok" else got[2]})
        if problems:
            nowords = fresh(ddef).call('count_words_of_length', k) == 0
            conf = any("not an accepted word" in p for p in problems) or (got[0] == "err") != nowords
            ctx.violation("random_word disagrees: " + "; ".join(problems)[:1200],
                          {"kind": "random", "def": repr(ddef), "k": k, "seed": seed, "draws": draws, "tag": tag,
                           "problems": problems}, confirmed=conf)


def check_uniform(ctx, ddef, k, tag, cap=4000):
    """All draw vectors for length k (each draw over the range the code asks for at that step):
    the implementation, run with a scripted generator, must return the model's word for every
    vector and ask for exactly the model's ranges; every accepted word of length k must collect
    total probability 1/count."""
    d = mk_dfa(ddef)
    st = enc.Renum(enc.dfa_names(d))
    sy = enc.SymMap(d.input_symbols)
    wire = enc_dfa_roworder(d, st, sy)
    prefixes = [[]]
    done = []
    while prefixes:
        answers = ctx.driver.batch([(13, 2, enc.tree([wire, k, p])) for p in prefixes])
        nxt = []
        for p, a in zip(prefixes, answers):
            totals = a[1]
            if len(totals) > len(p) and totals[len(p)] > 0:
                nxt.extend(p + [c] for c in range(totals[len(p)]))
            else:
                done.append((p, enc.dec_res(a[0]), totals))
        if len(nxt) + len(done) > cap:
            return False
        prefixes = nxt
    words = [sy.word(w) for w in fresh(ddef).listed('words_of_length', k)]
    problems = []
    # (a) what the property states, decided on the implementation alone: over EVERY resolution of its integer
    #     random draws the result is an accepted word of length k and every such word has probability 1/count
    outs = explore_outcomes(ddef, k, cap)
    if outs is None:
        ctx.tally("uniform_exploration_inconclusive")
    else:
        mass = {}
        for r, pr in outs:
            if r[0] == "ok":
                if len(r[1]) != k or not d.accepts_input(r[1]):
                    problems.append(f"some random outcome returns {r[1]!r}, not an accepted word of length {k}")
                mass[tuple(sy.word(r[1]))] = mass.get(tuple(sy.word(r[1])), 0) + pr
            elif not (r[1] == enc.VALUEERR and not words):
                problems.append(f"some random outcome raises {r[2]}" + ("" if words else " instead of ValueError"))
        if words:
            want = {tuple(w): Fraction(1, len(words)) for w in words}
            if mass != want and not problems:
                problems.append(f"probability mass per word {sorted(mass.items())[:6]} is not uniform over the {len(words)} accepted words")
        elif any(r[0] == "ok" for r, _ in outs):
            problems.append(f"no word of length {k} is accepted but random_word returns one")
    # (b) the mirror model (code's unranking scheme): same word and same ranges for every draw vector - a difference
    #     here alone is structural (another correct sampling scheme), not a violation
    mirror_diff = 0
    mmass = {}
    for p, mres, totals in done:
        got, log, left = impl_scripted(mk_dfa(ddef), k, p)
        if got[0] == "ok":
            if mres != ("ok", sy.word(got[1])) or log != [(0, t - 1) for t in totals] or left:
                mirror_diff += 1
        elif mres != ("err", got[1]):
            mirror_diff += 1
        if mres[0] == "ok":
            pr = Fraction(1)
            for t in totals:
                pr /= t
            mmass[tuple(mres[1])] = mmass.get(tuple(mres[1]), 0) + pr
    if mirror_diff:
        ctx.structural += 1
        ctx.tally("uniform_mirror_model_differs")
    # the model itself must be uniform (ties the harness to the proved statement)
    if words:
        if mmass != {tuple(w): Fraction(1, len(words)) for w in words}:
            problems.append("the MODEL's probability mass is not uniform (model/harness problem)")
    elif not (len(done) == 1 and done[0][1] == ("err", enc.VALUEERR)):
        problems.append(f"no word of length {k} but the model does not answer ValueError: {done[:2]}")
    ctx.tally("uniform_enumerations")
    ctx.tally("uniform_vectors", len(done))
    ctx.case(("uni", enc.tree(wire), k), nontrivial=len(words) >= 2 and k >= 2,
             sample={"dfa": repr(ddef), "k": k, "vectors": len(done), "words": len(words)})
    if problems:
        ctx.violation("random_word over all draw vectors: " + "; ".join(problems[:4])[:1200],
                      {"kind": "uniform", "def": repr(ddef), "k": k, "tag": tag, "problems": problems[:10]},
                      confirmed=any("random outcome" in p or "not uniform over" in p or "returns one" in p for p in problems))
    return True


# ---------------------------------------------------------------- driver
def one_machine(ctx, ddef, tag):
    rng = ctx.rng
    check_dfa(ctx, ddef, tag)
    d = mk_dfa(ddef)
    K = pick_K(d)
    nonzero = [k for k in range(K + 1) if d.count_words_of_length(k) > 0]
    jobs = [(rng.choice(nonzero) if nonzero else rng.randint(0, K), rng.randint(0, 10 ** 6)) for _ in range(3)]
    jobs.append((rng.randint(0, K), rng.choice([0, 1, 42])))
    check_random(ctx, ddef, jobs, tag)


def exhaustive_defs(nstates, sigma):
    """Every partial DFA with exactly nstates states 0..n-1 over sigma, initial state 0."""
    cells = nstates * len(sigma)
    for tgt in itertools.product([None] + list(range(nstates)), repeat=cells):
        for fin in itertools.product([0, 1], repeat=nstates):
            trans = {q: {a: tgt[len(sigma) * q + j] for j, a in enumerate(sigma) if tgt[len(sigma) * q + j] is not None}
                     for q in range(nstates)}
            yield dict(states=set(range(nstates)), input_symbols=set(sigma), transitions=trans,
                       initial_state=0, final_states={q for q in range(nstates) if fin[q]}, allow_partial=True)


def fresh(ddef):
    """A fresh instance bound to a name by the caller's frame is needed for cached methods (the cached_method
    package fails on temporaries); this helper keeps the object alive for the duration of one call."""
    class Keep:
        def __init__(self, d):
            self.d = d

        def call(self, name, *a, **kw):
            return getattr(self.d, name)(*a, **kw)

        def listed(self, name, *a, **kw):
            return list(getattr(self.d, name)(*a, **kw))
    return Keep(mk_dfa(ddef))


def huge_count_probe(ctx):
    """Lengths whose word counts exceed any machine number (2**1100 words): random_word must still return an
    accepted word of that length, and count_words_of_length must be the exact integer."""
    from automata.fa.dfa import DFA
    probes = [
        ("universal{a,b}", DFA.universal_language({"a", "b"}), 1100, 2 ** 1100),
        ("even_number_of_a", DFA(states={0, 1}, input_symbols={"a", "b"},
                                 transitions={0: {"a": 1, "b": 0}, 1: {"a": 0, "b": 1}}, initial_state=0,
                                 final_states={0}), 1080, 2 ** 1079),
    ]
    for name, d, k, want in probes:
        c = outcome(lambda: d.count_words_of_length(k))
        if c[:2] != ("ok", want):
            ctx.violation(f"count_words_of_length({k}) on {name} is not the exact count 2**{want.bit_length() - 1}: {str(c)[:80]}",
                          {"kind": "huge", "probe": name, "k": k})
        for seed in (1, 2):
            r = outcome(lambda: d.random_word(k, seed=seed))
            ok = r[0] == "ok" and len(r[1]) == k and d.accepts_input(r[1])
            ctx.tally("huge_count_probe")
            ctx.case(("huge", name, seed), True, sample={"probe": name, "k": k, "seed": seed, "ok": ok})
            if not ok:
                ctx.violation(f"random_word({k}, seed={seed}) on {name} (2**{want.bit_length() - 1} words) "
                              f"does not return an accepted word of length {k}: {str(r)[:120]}",
                              {"kind": "huge", "probe": name, "k": k, "seed": seed})


def known_len_overflow(ctx):
    """Open finding: len() of a language with 2**63 or more words raises OverflowError (Python's __len__ protocol
    cannot return it), cardinality() gives the number."""
    from automata.fa.dfa import DFA
    d = DFA.of_length({"a", "b"}, min_length=63, max_length=63)
    card, ln = outcome(lambda: d.cardinality()), outcome(lambda: len(d))
    ctx.open_finding("len_overflow_from_2_63_words", card[:2] == ("ok", 2 ** 63) and ln[:2] != ("ok", 2 ** 63),
                     f"DFA.of_length({{a,b}}, 63, 63): cardinality() = {card[1]}, len() gives {ln}")


def run(ctx):
    ctx.rule = RULE
    known_len_overflow(ctx)
    rng = ctx.rng
    huge_count_probe(ctx)
    for name, ddef in corner_defs():
        check_dfa(ctx, ddef, name)
        check_random(ctx, ddef, [(k, 7) for k in range(0, 4)], name)
        check_uniform(ctx, ddef, 2, name)
    nmax = ctx.n(6, 8)
    for i in range(ctx.n(220, 3000)):
        one_machine(ctx, gen.rand_dfa_def(rng, nmax=nmax), "random")
        one_machine(ctx, dag_dfa_def(rng, nmax=nmax), "dag")
        if i % 5 == 0:
            one_machine(ctx, empty_dfa_def(rng), "empty")
    # all draw vectors on small machines
    done = 0
    for i in range(ctx.n(40, 600)):
        ddef = gen.rand_dfa_def(rng, nmax=4, alphabet=rng.choice(["a", "ab", "ab", "abc"])) if i % 2 else dag_dfa_def(rng, nmax=5)
        k = rng.randint(1, 4)
        if check_uniform(ctx, ddef, k, "uniform"):
            done += 1
    ctx.notes.append(f"{done} complete enumerations of all draw vectors")
    if ctx.tier == "thorough":
        cnt = 0
        for ns in (1, 2):
            for ddef in exhaustive_defs(ns, "ab"):
                check_dfa(ctx, ddef, "exhaustive", K=5)
                for k in (0, 1, 2, 3):
                    check_uniform(ctx, ddef, k, "exhaustive")
                cnt += 1
        ctx.exhaustive = True
        ctx.exhaustive_scope = (f"all {cnt} partial DFAs with <= 2 states over {{a,b}} (initial state 0): every observable for "
                                "k <= 5, and random_word over every draw vector for k <= 3")
    if ctx.dist.get("iteration_of_empty_language_raises", 0) > 1:
        ctx.notes.append(f"iteration of an empty language raised on {ctx.dist['iteration_of_empty_language_raises']} "
                         "generated DFAs; reported once")


def replay(ctx, case):
    if case.get("kind") == "huge":
        huge_count_probe(ctx)
        print("replay:", "VIOLATION reproduced" if ctx.violations else "no disagreement")
        return
    kind = case.get("kind")
    ddef = load_def(case["def"])
    if kind == "dfa":
        d = mk_dfa(ddef)
        sy = enc.SymMap(d.input_symbols)
        print("implementation:", impl_obs(ddef, sy, case["K"], case["n"]))
        print("oracle:", oracle(d, sy, case["K"], case["n"]))
        check_dfa(ctx, ddef, "replay", K=case["K"], n=case["n"])
    elif kind == "random":
        check_random(ctx, ddef, [(case["k"], case["seed"])], "replay")
    else:
        check_uniform(ctx, ddef, case["k"], "replay", cap=10 ** 6)
    print("replay:", "VIOLATION reproduced" if ctx.violations else "no disagreement")
