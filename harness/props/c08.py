"""C08 - NFA regular operations return a valid NFA with exactly the textbook language.

Three parties per case: the implementation (/repo), the Coq model (driver property 8, compared
to the implementation's result by the verified language comparator) and a word-level oracle
written here (own NFA simulator over the operands only)."""
from __future__ import annotations

import itertools

import enc
import gen
from automata.fa.nfa import NFA
from props.common import load_def, mk_nfa, outcome

CAP = 3000          # fuel of the model-side language comparison
FLUSH = 400         # driver requests per process start

OPCODE = {"union": 1, "concatenate": 2, "kleene_star": 3, "option": 4, "reverse": 5, "intersection": 6,
          "shuffle_product": 7, "right_quotient": 8, "left_quotient": 9, "eliminate_lambda": 10}
BINARY = ["union", "concatenate", "intersection", "shuffle_product", "right_quotient", "left_quotient"]
UNARY = ["kleene_star", "option", "reverse", "eliminate_lambda"]
OPERATORS = {"operator_+": "concatenate", "operator_|": "union", "operator_&": "intersection"}

RULE = ("fixed corpus (reproducers of the fixed findings left_quotient MissingStateError and nfa_stray_transition_row; "
        "12 hand-written corner operands incl. 3 with stray rows, every operation on every "
        "ordered pair) then random operand pairs from gen.rand_nfa_def (1-4 states, 1-5 for a quarter of the thorough tier, alphabets whose union has <= 3 "
        "symbols: equal / nested / permuted / disjoint; 7 state-name pools with both-int-from-0 forced often; forced "
        "shapes: no final state, single non-final state without rows, single final state without rows, universal "
        "one-state loop, epsilon edges and cycles, states without rows; about a third of the pairs have an operand with "
        "one or two transition rows keyed by a name that is not a state - half of them named like the fresh state of "
        "kleene_star/option/reverse) x {union, concatenate, intersection, "
        "shuffle_product, right_quotient, left_quotient, +, |, &} and {kleene_star, option, reverse, eliminate_lambda} "
        "on each operand, then random expression trees of depth 2 (an operand is the implementation's result of an "
        "earlier operation, itself checked as a case). Every case: implementation result vs Coq model (valid + exact "
        "language equality by the verified comparator, fuel cap 3000) and vs an independent word-level oracle on all "
        "words up to length 5 (<= 2 symbols) / 4 (3 symbols) over the union alphabet. distinct = distinct (operation, "
        "canonical operand trees); non-trivial = every operand has >= 2 states, accepts at least one tested word and "
        "rejects at least one tested word over its own alphabet")


# ---------------------------------------------------------------- encoding
def enc_nfa2(n, st, sy):
    """enc.enc_nfa, but the symbol list holds only the automaton's own symbols (numbered by a common SymMap)."""
    trans = [
        [st(q), sorted([0 if a == "" else sy(a) + 1, sorted(st(t) for t in ts)] for a, ts in row.items())]
        for q, row in sorted(n.transitions.items(), key=lambda kv: st(kv[0]))
    ]
    return [sorted(st(q) for q in n.states), sorted(sy(a) for a in n.input_symbols), trans,
            st(n.initial_state), sorted(st(q) for q in n.final_states)]


def kwargs_of(n):
    """Constructor kwargs (plain set/dict) of an NFA object."""
    return dict(states=set(n.states), input_symbols=set(n.input_symbols),
                transitions={q: {a: set(ts) for a, ts in row.items()} for q, row in n.transitions.items()},
                initial_state=n.initial_state, final_states=set(n.final_states))


# ---------------------------------------------------------------- own NFA simulator (oracle side)
class Sim:
    """Textbook NFA run: epsilon closure + step. Built from states/rows/initial/finals only."""

    def __init__(self, states, rows, init, finals):
        self.states = set(states)
        self.rows = {q: {a: set(ts) for a, ts in row.items()} for q, row in rows.items()}
        self.init = init
        self.fin = set(finals)
        self.cl = {}
        for q in self.states:
            seen, todo = {q}, [q]
            while todo:
                p = todo.pop()
                for t in self.rows.get(p, {}).get("", ()):
                    if t not in seen:
                        seen.add(t)
                        todo.append(t)
            self.cl[q] = frozenset(seen)
        self.start = self.cl[init]
        self.memo = {"": self.start}
        self.s1 = {}

    def step1(self, q, c):
        """closure of the c-successors of the single state q."""
        k = (q, c)
        r = self.s1.get(k)
        if r is None:
            out = set()
            for t in self.rows.get(q, {}).get(c, ()):
                out |= self.cl[t]
            r = self.s1[k] = frozenset(out)
        return r

    def step(self, S, c):
        out = set()
        for q in S:
            out |= self.step1(q, c)
        return frozenset(out)

    def run(self, w):
        r = self.memo.get(w)
        if r is None:
            r = self.memo[w] = self.step(self.run(w[:-1]), w[-1])
        return r

    def run_from(self, S, w):
        for c in w:
            S = self.step(S, c)
        return S

    def acc(self, w):
        return not self.fin.isdisjoint(self.run(w))


def sim_of_nfa(n):
    return Sim(n.states, n.transitions, n.initial_state, n.final_states)


def sim_of_tree(t, sy):
    """Simulator of an NFA wire value (the model's result), symbols named through sy."""
    states, _syms, trans, init, fin = t
    rows = {q: {("" if a == 0 else sy.all[a - 1]): set(ts) for a, ts in row} for q, row in trans}
    return Sim(states, rows, init, fin)


def pair_reach(A, B, start, sigma):
    """Pairs reachable from `start` when both automata read the same symbol (closures on both sides)."""
    seen = set(start)
    todo = list(seen)
    while todo:
        qa, qb = todo.pop()
        for c in sigma:
            ta = A.step1(qa, c)
            if not ta:
                continue
            tb = B.step1(qb, c)
            for x in ta:
                for y in tb:
                    if (x, y) not in seen:
                        seen.add((x, y))
                        todo.append((x, y))
    return seen


def expected(base, sims, w, sigma, memo):
    """Textbook membership of w in op(L(A)[, L(B)]), from the operands only."""
    A = sims[0]
    B = sims[1] if len(sims) > 1 else None
    if base == "union":
        return A.acc(w) or B.acc(w)
    if base == "concatenate":
        return any(A.acc(w[:i]) and B.acc(w[i:]) for i in range(len(w) + 1))
    if base == "kleene_star":
        ok = [True] + [False] * len(w)
        for j in range(1, len(w) + 1):
            ok[j] = any(ok[i] and A.acc(w[i:j]) for i in range(j))
        return ok[len(w)]
    if base == "option":
        return w == "" or A.acc(w)
    if base == "reverse":
        return A.acc(w[::-1])
    if base == "intersection":
        return A.acc(w) and B.acc(w)
    if base == "shuffle_product":
        n = len(w)
        if n <= 10:
            for mask in range(1 << n):
                u = "".join(w[i] for i in range(n) if mask >> i & 1)
                if A.acc(u) and B.acc("".join(w[i] for i in range(n) if not mask >> i & 1)):
                    return True
            return False
        cur = {(x, y) for x in A.start for y in B.start}   # long distinguishing words only
        for c in w:
            cur = {(x2, y) for x, y in cur for x2 in A.step1(x, c)} | {(x, y2) for x, y in cur for y2 in B.step1(y, c)}
        return any(x in A.fin and y in B.fin for x, y in cur)
    if base == "right_quotient":
        S = A.run(w)
        r = memo.get(("rq", S))
        if r is None:
            reach = pair_reach(A, B, {(x, y) for x in S for y in B.start}, sigma)
            r = memo[("rq", S)] = any(x in A.fin and y in B.fin for x, y in reach)
        return r
    if base == "left_quotient":
        T = memo.get("lq")
        if T is None:
            reach = pair_reach(A, B, {(x, y) for x in A.start for y in B.start}, sigma)
            T = memo["lq"] = frozenset(x for x, y in reach if y in B.fin)
        return not A.fin.isdisjoint(A.run_from(T, w))
    if base == "eliminate_lambda":
        return A.acc(w)
    raise ValueError(base)


_WORDS = {}


def words_over(sigma):
    sigma = tuple(sigma)
    if sigma not in _WORDS:
        bound = 5 if len(sigma) <= 2 else 4 if len(sigma) == 3 else 3
        _WORDS[sigma] = list(gen.all_words(sigma, bound))
    return _WORDS[sigma]


# ---------------------------------------------------------------- one case
def impl_fn(op, ops):
    if op == "operator_+":
        return lambda: ops[0] + ops[1]
    if op == "operator_|":
        return lambda: ops[0] | ops[1]
    if op == "operator_&":
        return lambda: ops[0] & ops[1]
    return lambda: getattr(ops[0], op)(*ops[1:])


class Runner:
    """Collects cases (implementation already run), sends them to the model in large batches, judges them."""

    def __init__(self, ctx):
        self.ctx = ctx
        self.pend = []
        self.sims = {}
        self.reported = set()

    def sim(self, n):
        e = self.sims.get(id(n))
        if e is None:
            e = self.sims[id(n)] = (n, sim_of_nfa(n))
        return e[1]

    def submit(self, op, operands, tags=()):
        """Run the implementation now, queue the model request; returns the implementation's outcome."""
        base = OPERATORS.get(op, op)
        out = outcome(impl_fn(op, operands))
        sigma = set()
        for x in operands:
            sigma |= set(x.input_symbols)
        sy = enc.SymMap(sigma)
        trees = [enc_nfa2(x, enc.Renum(enc.nfa_names(x)), sy) for x in operands]
        if out[0] == "ok" and isinstance(out[1], NFA):
            r = out[1]
            extra = sorted(set(r.input_symbols) - sigma)
            if extra:   # cannot happen for a correct result; keep the request well formed
                sy = enc.SymMap(sigma | set(extra))
                trees = [enc_nfa2(x, enc.Renum(enc.nfa_names(x)), sy) for x in operands]
            impl = [1, enc_nfa2(r, enc.Renum(enc.nfa_names(r)), sy)]
        elif out[0] == "ok":
            impl = [0, 98]
        else:
            impl = [0, out[1]]
        item = (8, OPCODE[base], enc.tree(trees + [impl, CAP]))
        self.pend.append((op, base, list(operands), out, sy, trees, tuple(tags), item))
        if len(self.pend) >= FLUSH:
            self.flush()
        return out

    def flush(self):
        pend, self.pend = self.pend, []
        if not pend:
            return
        answers = self.ctx.driver.batch([p[-1] for p in pend])
        for p, ans in zip(pend, answers):
            self.judge(p, ans)
        if len(self.sims) > 4000:
            self.sims = {}

    # ---- verdict of one case
    def judge(self, p, ans):
        ctx = self.ctx
        op, base, operands, out, sy, trees, tags, _item = p
        sims = [self.sim(x) for x in operands]
        sigma = list(sy.all)
        words = words_over(sigma)
        memo = {}
        exp = [expected(base, sims, w, sigma, memo) for w in words]
        problems = []      # (confirmed, text)
        word = None
        observed = None
        lq_defect = False

        if ans == [0, 99] or not (isinstance(ans, list) and len(ans) == 2 and isinstance(ans[0], list)):
            problems.append((False, f"the model driver rejected the request: {ans!r}"))
            m_res, cmp_ = ("err", 99), []
        else:
            m_res, cmp_ = enc.dec_res(ans[0]), ans[1]

        def oracle_vs_model(why):
            msim = sim_of_tree(m_res[1], sy)
            bad = [w for w, e in zip(words, exp) if msim.acc(w) != e]
            if bad:
                problems.append((False, f"{why}: the model's result disagrees with the word-level oracle on "
                                        f"{bad[0]!r} (model {msim.acc(bad[0])}, oracle {not msim.acc(bad[0])}; "
                                        f"{len(bad)} of {len(words)} words)"))
                return bad[0]
            return None

        if out[0] == "ok" and not isinstance(out[1], NFA):
            problems.append((True, f"{op} returned {type(out[1]).__name__}, not an NFA"))
            outcome_key = "not_an_nfa"
        elif out[0] == "ok":
            r = out[1]
            got = [r.accepts_input(w) for w in words]
            bad = [w for w, g, e in zip(words, got, exp) if g != e]
            if bad:
                word = bad[0]
                e = exp[words.index(word)]
                observed = {"accepts_input": not e, "textbook": e}
                problems.append((True, f"result of {op} {'accepts' if not e else 'rejects'} {word!r}, textbook "
                                       f"{base} of the operand languages {'contains' if e else 'does not contain'} it "
                                       f"({len(bad)} of {len(words)} tested words differ)"))
            if base == "eliminate_lambda":
                if any("" in row for q, row in r.transitions.items() if q in r.states):
                    problems.append((True, "eliminate_lambda result still has an empty-string transition"))
                reach, todo = {r.initial_state}, [r.initial_state]
                while todo:
                    q = todo.pop()
                    for ts in r.transitions.get(q, {}).values():
                        for t in ts:
                            if t not in reach:
                                reach.add(t)
                                todo.append(t)
                if reach != set(r.states):
                    problems.append((True, "eliminate_lambda result has unreachable states"))
            if set(r.input_symbols) != set(sigma):
                problems.append((True, f"result alphabet {sorted(r.input_symbols)} is not the union {sigma}"))
            # the model's verdict
            if m_res[0] == "err":
                outcome_key = "model_error"
                if m_res[1] != 99:
                    problems.append((False, f"implementation returned an NFA, the model ends with error {m_res[1]}"))
            else:
                valid, d = cmp_[0], enc.dec_res(cmp_[1])
                if d == ("err", enc.FUEL):
                    ctx.tally("diff_fuel_cap")
                    outcome_key = "agree_wordlevel"
                    if oracle_vs_model("comparison fuel ran out") is not None:
                        outcome_key = "model_differs"
                elif d[0] == "err":
                    outcome_key = "comparator_error"
                    problems.append((False, f"model comparator ended with error {d[1]}"))
                elif d[1]:
                    outcome_key = "model_differs"
                    dw = sy.unword(d[1][0])
                    e, g = expected(base, sims, dw, sigma, memo), r.accepts_input(dw)
                    if e != g:
                        if word is None:
                            word, observed = dw, {"accepts_input": g, "textbook": e}
                        problems.append((True, f"model and implementation results differ on {dw!r}: implementation "
                                               f"{g}, model {not g}, word-level oracle {e}"))
                    else:
                        if word is None:
                            word = dw
                        problems.append((False, f"model result and implementation result differ on {dw!r} "
                                                f"(implementation {g}, model {not g}) but the word-level oracle says "
                                                f"{e}: model or harness suspect"))
                else:
                    outcome_key = "agree"
                if valid != 1:
                    outcome_key = "impl_invalid_for_model"
                    problems.append((False, "the model's valid_nfa rejects the automaton the implementation returned"))
        else:
            exc = out[2]
            outcome_key = "impl_raised_" + exc
            accepted = [w for w, e in zip(words, exp) if e]
            observed = {"raised": exc, "textbook_language_on_tested_words": accepted}
            if base == "left_quotient" and exc == "MissingStateError":
                lq_defect = True
                ctx.tally("left_quotient_missing_state")
                problems.append((True, "left_quotient raised MissingStateError on valid NFA operands (the product's "
                                       "initial state is left without a transition row); expected an NFA for "
                                       "{ w | exists u in L(B): uw in L(A) }"))
            else:
                problems.append((True, f"{op} raised {exc} on valid NFA operands (the property promises an NFA, "
                                       f"never an error); model: {m_res}"))
            if m_res[0] == "ok":
                oracle_vs_model("implementation raised")
            elif m_res[1] != out[1]:
                problems.append((False, f"model ends with error {m_res[1]}, implementation with {out[1]}"))

        # ---- counting
        ctx.tally(op)
        ctx.tally("outcome_" + outcome_key)
        for t in tags:
            ctx.tally(t)
        flags = []
        for x, s in zip(operands, sims):
            own = [w for w in words if all(c in x.input_symbols for c in w)]
            empty = not any(s.acc(w) for w in words)
            universal = all(s.acc(w) for w in own)
            flags.append((len(x.states) >= 2, empty, universal))
        if any("" in row for x in operands for row in x.transitions.values()):
            ctx.tally("operand_with_epsilon")
        strays = [(x, stray_names(x)) for x in operands]
        if any(sn for _, sn in strays):
            ctx.tally("operand_with_stray_row")
        if any(least_unused_nat(x.states) in sn for x, sn in strays):
            ctx.tally("stray_row_named_like_fresh_state")
        if out[0] == "ok" and isinstance(out[1], NFA) and stray_names(out[1]):
            ctx.tally("result_keeps_stray_row")
        if any(f[1] for f in flags):
            ctx.tally("empty_language_operand")
        if any(f[2] for f in flags):
            ctx.tally("universal_operand")
        if len(operands) == 2:
            sa, sb = set(operands[0].input_symbols), set(operands[1].input_symbols)
            if sa != sb:
                ctx.tally("different_alphabets")
            if not (sa & sb):
                ctx.tally("no_common_symbol")
            if set(operands[0].states) & set(operands[1].states):
                ctx.tally("overlapping_names")
        nontrivial = all(big and not e and not u for big, e, u in flags)
        sample = None
        if len(ctx.samples) < 6:
            sample = {"op": op, "operands": [repr(kwargs_of(x)) for x in operands], "outcome": outcome_key,
                      "accepted_tested_words": sum(exp), "tested_words": len(words)}
        ctx.case((op, tuple(enc.tree(t) for t in trees)), nontrivial=nontrivial, sample=sample)
        key = (op, tuple(enc.tree(t) for t in trees))
        if problems and key in self.reported:
            ctx.tally("duplicate_of_reported_case")
            problems = []
        if problems:
            self.reported.add(key)
            confirmed = any(c for c, _ in problems)
            if lq_defect and len(problems) == 1:
                what = problems[0][1]
            else:
                what = "; ".join(t for _, t in problems)
            ctx.violation(what, {"kind": "op", "op": op, "operands": [repr(kwargs_of(x)) for x in operands],
                                 "word": word, "observed": observed,
                                 "expected": f"an NFA whose language is the textbook {base} of the operand languages",
                                 "impl_outcome": out[2] if out[0] == "err" else "ok",
                                 "stray_row_operand": any(stray_names(x) for x in operands),
                                 "model": repr(ans)[:600], "problems": [t for _, t in problems], "tags": list(tags)},
                          confirmed=confirmed)


# ---------------------------------------------------------------- operand generators
def corner_operands():
    return [
        dict(states={0, 1}, input_symbols={"a"}, transitions={0: {"a": {1}}}, initial_state=0, final_states={1}),
        dict(states={0}, input_symbols={"a"}, transitions={}, initial_state=0, final_states=set()),
        dict(states={0}, input_symbols={"a"}, transitions={}, initial_state=0, final_states={0}),
        dict(states={0}, input_symbols={"a", "b"}, transitions={0: {"a": {0}, "b": {0}}}, initial_state=0,
             final_states={0}),
        dict(states={0, 1, 2}, input_symbols={"a", "b"},
             transitions={0: {"": {1}}, 1: {"": {0}, "a": {2}}, 2: {"b": {0}, "": {2}}}, initial_state=0,
             final_states={2}),
        dict(states={"q0", "q1"}, input_symbols={"b"}, transitions={"q0": {"b": {"q1"}}, "q1": {"b": {"q0"}}},
             initial_state="q0", final_states={"q0"}),
        dict(states={(0, "y"), (0, "x"), (1, "y")}, input_symbols={"a", "b"},
             transitions={(0, "y"): {"a": {(0, "x"), (1, "y")}, "b": set()}}, initial_state=(0, "y"),
             final_states={(0, "x")}),
        dict(states={0, 1}, input_symbols={"a"}, transitions={0: {"a": {0}}, 1: {"a": {1}}}, initial_state=0,
             final_states={1}),
        dict(states={0, 1}, input_symbols={"a", "b"}, transitions={0: {"": {1}, "a": {0}}, 1: {"b": {1}}},
             initial_state=0, final_states={1}),
    ] + stray_corpus()


def stray_corpus():
    """Reproducers of the fixed finding nfa_stray_transition_row (repaired by bd7ae94): a transition row keyed by
    a name that is not a state; in the second one the name is the fresh state reverse/kleene_star/option allocate."""
    return [
        dict(states={0}, input_symbols={"a"}, transitions={0: {}, 5: {"a": {0}}}, initial_state=0, final_states={0}),
        dict(states={0}, input_symbols={"a"}, transitions={0: {}, 1: {"a": {0}}}, initial_state=0, final_states={0}),
        dict(states={0, 1}, input_symbols={"a", "b"},
             transitions={0: {"a": {1}}, 1: {"": {0}}, 2: {"": {1}, "b": {0, 1}}, "x": {}}, initial_state=0,
             final_states={1}),
    ]


def least_unused_nat(states):
    k = 0
    while k in states:
        k += 1
    return k


STRAY_NAMES = [97, "stray", (9, "z"), frozenset([41]), -7]


def add_stray_rows(rng, d):
    """Add one or two transition rows keyed by names outside `states` (valid for NFA.validate(): symbols from the
    alphabet or the empty string, end states among the states).  Half of the time one name is the least natural
    number not in `states`, i.e. the name of the fresh state of kleene_star / option / reverse."""
    states = sorted(d["states"], key=enc.sort_key)
    sigma = sorted(d["input_symbols"])
    names = []
    if rng.random() < 0.5:
        names.append(least_unused_nat(d["states"]))
    if not names or rng.random() < 0.4:
        names.append(rng.choice([x for x in STRAY_NAMES if x not in d["states"]]))
    trans = {q: {a: set(ts) for a, ts in row.items()} for q, row in d["transitions"].items()}
    for nm in names:
        row = {}
        r = rng.random()
        if r >= 0.15:       # 15 %: an empty stray row
            for a in sigma + [""]:
                if rng.random() < 0.55:
                    row[a] = {rng.choice(states) for _ in range(rng.choice([1, 1, 2]))} if rng.random() < 0.9 else set()
        trans[nm] = row
    out = dict(d)
    out["transitions"] = trans
    return out


def stray_names(n):
    return [q for q in n.transitions if q not in n.states]


ALPHA_PAIRS = [("a", "a"), ("ab", "ab"), ("ab", "ab"), ("abc", "abc"), ("01", "01"), ("é1", "é1"),
               ("a", "ab"), ("ab", "a"), ("ab", "ba"), ("a", "b"), ("b", "a"), ("ab", "bc"), ("a", "bc"),
               ("ab", "c"), ("01", "1"), ("abc", "b")]


def second_alphabet(rng, sigma):
    """Alphabet for a further operand such that the union keeps <= 3 symbols."""
    sigma = "".join(sorted(sigma))
    room = 3 - len(sigma)
    cands = [sigma, sigma, sigma[::-1], sigma[0], sigma[-1]]
    fresh = [c for c in "abc01" if c not in sigma]
    if room >= 1:
        cands += [fresh[0], sigma[0] + fresh[0], sigma + fresh[0]]
    if room >= 2:
        cands += [fresh[0] + fresh[1]]
    return rng.choice(cands)


def shaped_def(rng, alphabet, names, nmax):
    """rand_nfa_def with the corner shapes forced often."""
    r = rng.random()
    if r < 0.05:
        return dict(states={names[0]}, input_symbols=set(alphabet), transitions={}, initial_state=names[0],
                    final_states=set())
    if r < 0.10:
        return dict(states={names[0]}, input_symbols=set(alphabet), transitions={}, initial_state=names[0],
                    final_states={names[0]})
    if r < 0.15:
        return dict(states={names[0]}, input_symbols=set(alphabet),
                    transitions={names[0]: {a: {names[0]} for a in alphabet}}, initial_state=names[0],
                    final_states={names[0]})
    p_eps = 0.5 if rng.random() < 0.35 else None
    d = gen.rand_nfa_def(rng, nmax=nmax, alphabet=alphabet, names=list(names), p_eps=p_eps)
    if r < 0.21:
        d["final_states"] = set()
    elif not d["final_states"] and rng.random() < 0.7:
        d["final_states"] = {rng.choice(sorted(d["states"], key=enc.sort_key))}
    if len(d["states"]) >= 2 and rng.random() < 0.15:
        # the initial state is re-entered through empty-string moves only (no symbol edge leads back into it)
        q0 = d["initial_state"]
        for q, row in d["transitions"].items():
            for a in [a for a in row if a != ""]:
                row[a] = set(row[a]) - {q0}
                if not row[a]:
                    del row[a]
        others = sorted(set(d["states"]) - {q0}, key=enc.sort_key)
        src = next((t for a, ts in sorted(d["transitions"].get(q0, {}).items()) for t in sorted(ts, key=enc.sort_key) if t != q0),
                   rng.choice(others))
        d["transitions"].setdefault(src, {}).setdefault("", set())
        d["transitions"][src][""] = set(d["transitions"][src][""]) | {q0}
    return d


def rand_pair(rng, nmax):
    s1, s2 = rng.choice(ALPHA_PAIRS)
    if rng.random() < 0.4:
        n1, _ = gen.pick_names(rng, nmax, "int")
        n2, _ = gen.pick_names(rng, nmax, "int")
    else:
        n1, _ = gen.pick_names(rng, nmax)
        n2, _ = gen.pick_names(rng, nmax)
    da, db = shaped_def(rng, s1, n1, nmax), shaped_def(rng, s2, n2, nmax)
    r = rng.random()
    if r < 0.22:
        da = add_stray_rows(rng, da)
    if 0.12 < r < 0.34:
        db = add_stray_rows(rng, db)
    return da, db


def all_ops_on_pair(run, A, B, tags=(), operators=True, unary=True):
    for op in BINARY:
        run.submit(op, [A, B], tags)
    if operators:
        for op in OPERATORS:
            run.submit(op, [A, B], tags)
    if unary:
        for x in (A, B):
            for op in UNARY:
                run.submit(op, [x], tags)


def rand_tree(run, rng, nmax):
    """Expression tree of depth 2: operands of the outer operation are random NFAs or results of one inner
    operation (the inner operation is a case of its own)."""
    op = rng.choice(BINARY + UNARY + ["concatenate", "union", "left_quotient", "right_quotient"])
    arity = 2 if op in BINARY else 1
    total = set()

    def alphabet():
        s = second_alphabet(rng, total) if total else rng.choice(["a", "ab", "ab", "01", "abc"])
        total.update(s)
        return s

    def leaf(n):
        names = gen.pick_names(rng, n, "int" if rng.random() < 0.4 else None)[0]
        return mk_nfa(shaped_def(rng, alphabet(), names, n))

    operands, composed = [], False
    for i in range(arity):
        if rng.random() < 0.65 or (i == arity - 1 and not composed):
            iop = rng.choice(BINARY + UNARY)
            iops = [leaf(3)] + ([leaf(3)] if iop in BINARY else [])
            out = run.submit(iop, iops, ("inner_of_depth2",))
            if out[0] != "ok" or not isinstance(out[1], NFA):
                run.ctx.tally("depth2_skipped_inner_raised")
                return
            operands.append(out[1])
            composed = True
        else:
            operands.append(leaf(nmax))
    if arity == 2 and len(operands[0].states) * len(operands[1].states) > 150:
        run.ctx.tally("depth2_skipped_too_large")
        return
    run.submit(op, operands, ("composed_depth2",))


# ---------------------------------------------------------------- fixed finding (regression)
def stray_regression(run):
    """nfa_stray_transition_row (fixed by bd7ae94): the old reproducers run as ordinary cases - every operation
    must return a valid NFA with the textbook language (the stray rows are unreachable, so they do not change the
    operand's language)."""
    plain = NFA(states={0, 1}, input_symbols={"a"}, transitions={0: {"a": {1}}}, initial_state=0, final_states={1})
    for d in stray_corpus():
        made = outcome(lambda: NFA(**d))
        if made[0] != "ok":
            continue        # the constructor refuses the stray row: nothing to run
        s_ = made[1]
        for op in UNARY:
            run.submit(op, [s_], ("corpus", "fixed_finding_stray_row"))
        for op in BINARY:
            run.submit(op, [s_, plain], ("corpus", "fixed_finding_stray_row"))
            run.submit(op, [plain, s_], ("corpus", "fixed_finding_stray_row"))
    run.flush()


# ---------------------------------------------------------------- open finding
ELIM_STRAY = "eliminate_lambda_stray_row_dangling_target"


def arm_known(ctx):
    """Cases that are this open finding (and nothing else) are reported as KNOWN-FINDING, not as violations:
    eliminate_lambda raising InvalidStateError on an operand that has a transition row of a non-state."""
    for k in ctx.known:
        if k["id"] == ELIM_STRAY:
            k["_match"] = lambda rep: (rep.get("op") == "eliminate_lambda" and rep.get("stray_row_operand")
                                       and rep.get("impl_outcome") == "InvalidStateError"
                                       and len(rep.get("problems", ())) == 1)


def known_elim_stray(run):
    """The finding's own reproducer (a violation again once the entry is no longer open and it still fails)."""
    x = NFA(states={0, 1}, input_symbols={"a"}, transitions={0: {}, 5: {"a": {1}}}, initial_state=0,
            final_states={0})
    run.submit("eliminate_lambda", [x], ("corpus", "known_finding_elim_stray"))
    run.flush()


# ---------------------------------------------------------------- exhaustive scope (thorough)
def small_nfas(n, eps):
    """All NFAs with states 0..n-1 over {a}, initial 0, every state has a row; row[q]['a'] = any subset of the
    states (key absent when empty), row[q][''] = any subset of the other states (key absent when empty; only when
    eps), any set of final states."""
    states = list(range(n))
    subsets = [set(c) for k in range(n + 1) for c in itertools.combinations(states, k)]
    per_row = []
    for q in states:
        others = [s for s in subsets if q not in s] if eps else [set()]
        per_row.append([(a, e) for a in subsets for e in others])
    out = []
    for rows in itertools.product(*per_row):
        trans = {}
        for q, (a, e) in zip(states, rows):
            row = {}
            if a:
                row["a"] = set(a)
            if e:
                row[""] = set(e)
            trans[q] = row
        for fin in subsets:
            out.append(mk_nfa(dict(states=set(states), input_symbols={"a"}, transitions=trans, initial_state=0,
                                   final_states=set(fin))))
    return out


def exhaustive(run):
    n1 = small_nfas(1, True)        # 4
    n2 = small_nfas(2, True)        # 256
    n2f = small_nfas(2, False)      # 64
    tags = ("exhaustive",)
    for x in n1 + n2:
        for op in UNARY:
            run.submit(op, [x], tags)
    for As, Bs in ((n1, n1), (n1, n2), (n2, n1), (n2f, n2f)):
        for A in As:
            for B in Bs:
                for op in BINARY:
                    run.submit(op, [A, B], tags)
    # stray rows: every member of N1 and N2f x stray name in {least unused natural number, 7} x stray row in
    # {{'a': {0}}, {'': {0}}}
    strays = []
    for x in n1 + n2f:
        for nm in (least_unused_nat(x.states), 7):
            for row in ({"a": {0}}, {"": {0}}):
                d = kwargs_of(x)
                d["transitions"][nm] = row
                strays.append(mk_nfa(d))
    for x in strays:
        for op in UNARY:
            run.submit(op, [x], tags)
        for y in n1:
            for op in BINARY:
                run.submit(op, [x, y], tags)
                run.submit(op, [y, x], tags)
    run.flush()
    return len(n1), len(n2), len(n2f), len(strays)


# ---------------------------------------------------------------- entry points
def run(ctx):
    ctx.rule = RULE
    rng = ctx.rng
    runner = Runner(ctx)
    arm_known(ctx)
    refused = []

    def stage(name, fn):
        """A fixed stage builds its operands from valid definitions; a constructor that refuses one is reported (with
        the stage as the replay) and the other stages still run."""
        try:
            return fn()
        except Exception as e:  # noqa: BLE001
            refused.append(name)
            ctx.violation(f"{name}: a valid NFA definition needed as an operand is refused or the stage breaks: "
                          f"{type(e).__name__}: {e}", {"kind": "stage", "stage": name}, confirmed=True)
            return None

    def mk_or_none(d):
        try:
            return mk_nfa(d)
        except Exception as e:  # noqa: BLE001
            if len(refused) < 5:
                refused.append("operand")
                ctx.violation(f"the constructor refuses a valid NFA definition {d!r:.300}: {type(e).__name__}: {e}",
                              {"kind": "operand_refused", "def": repr(d)}, confirmed=True)
            return None

    stage("stray_regression", lambda: stray_regression(runner))
    stage("known_elim_stray", lambda: known_elim_stray(runner))
    # (i) minimal left_quotient reproducer (fixed finding, must pass)

    def lq():
        A = NFA(states={0, 1}, input_symbols={"a"}, transitions={0: {"a": {1}}}, initial_state=0, final_states={1})
        B = NFA(states={0}, input_symbols={"a"}, transitions={}, initial_state=0, final_states=set())
        runner.submit("left_quotient", [A, B], ("corpus",))
    stage("left_quotient_reproducer", lq)
    # (ii) every operation on every ordered pair of corner operands
    corners = [x for x in (mk_or_none(d) for d in corner_operands()) if x is not None]
    for x in corners:
        for op in UNARY:
            runner.submit(op, [x], ("corpus",))
    for x in corners:
        for y in corners:
            all_ops_on_pair(runner, x, y, ("corpus",), unary=False)
    runner.flush()
    # random pairs
    nmax = 4
    for _ in range(ctx.n(260, 6000)):
        da, db = rand_pair(rng, 5 if ctx.tier == "thorough" and rng.random() < 0.25 else nmax)
        xa, xb = mk_or_none(da), mk_or_none(db)
        if xa is not None and xb is not None:
            all_ops_on_pair(runner, xa, xb, ("random_pair",))
    # random expression trees of depth 2
    for _ in range(ctx.n(400, 10000)):
        rand_tree(runner, rng, nmax)
    runner.flush()
    if ctx.tier == "thorough":
        c1, c2, c2f, cs = exhaustive(runner)
        ctx.exhaustive = True
        ctx.exhaustive_scope = (
            "NFAs over {a} with states 0..n-1, initial state 0, a row for every state, row[q]['a'] any subset of the "
            "states and row[q][''] any subset of the other states (a key is absent when its set is empty), any set of "
            f"final states: N1 = all {c1} with n=1, N2 = all {c2} with n=2, N2f = the {c2f} members of N2 without "
            "empty-string edges. Enumerated completely: kleene_star/option/reverse/eliminate_lambda on every member of "
            "N1 and N2; union/concatenate/intersection/shuffle_product/right_quotient/left_quotient on every ordered "
            "pair in N1xN1, N1xN2, N2xN1 and N2fxN2f (pairs of two 2-state automata that have empty-string edges are "
            f"not enumerated); S = the {cs} automata obtained from a member of N1 or N2f by adding one transition row "
            "keyed by a non-state (name = least unused natural number or 7; row = {'a': {0}} or {'': {0}}): the four "
            "unary operations on every member of S and the six binary operations on SxN1 and N1xS; "
            "words of length <= 5 for the oracle, exact language comparison by the model")


def replay(ctx, case):
    arm_known(ctx)
    if case.get("kind") == "stray_row":
        stray_regression(Runner(ctx))
    elif case.get("kind") == "op":
        runner = Runner(ctx)
        operands = [mk_nfa(load_def(s)) for s in case["operands"]]
        out = runner.submit(case["op"], operands, ("replay",))
        runner.flush()
        print("replay:", case["op"], "->", "NFA" if out[0] == "ok" else f"raised {out[2]}", "| word:", repr(case.get("word")))
    elif case.get("kind") == "operand_refused":
        try:
            mk_nfa(load_def(case["def"]))
        except Exception as e:  # noqa: BLE001
            ctx.violation(f"the constructor refuses a valid NFA definition: {type(e).__name__}: {e}", dict(case), confirmed=True)
    elif case.get("kind") == "stage":
        runner = Runner(ctx)
        try:
            {"stray_regression": stray_regression, "known_elim_stray": known_elim_stray}.get(case["stage"], stray_regression)(runner)
            runner.flush()
        except Exception as e:  # noqa: BLE001
            ctx.violation(f"{case['stage']}: {type(e).__name__}: {e}", dict(case), confirmed=True)
    else:
        print("replay: nothing to re-run for kind", case.get("kind"))
    print("replay:", "VIOLATION reproduced" if ctx.violations else "no disagreement")
