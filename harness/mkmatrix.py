#!/usr/bin/env python3
"""Emit notes/detection_matrix.md from seeded/*/meta.json + seeded/RESULTS.json."""
import json
import os
import re

V = os.path.dirname(os.path.dirname(os.path.abspath(__file__)))
res = json.load(open(os.path.join(V, "seeded", "RESULTS.json")))
rows = []
for sid in sorted(os.listdir(os.path.join(V, "seeded"))):
    mp = os.path.join(V, "seeded", sid, "meta.json")
    if not os.path.exists(mp):
        continue
    meta = json.load(open(mp))
    notes = meta.get("needs", "")
    first = next((l.strip("# ").strip() for l in notes.splitlines() if l.strip()), "")
    r = res.get(sid, {})
    det = r.get("detected_by", [])
    detail = ""
    for p in det:
        detail = r["checks"][p].get("detail", "")
        break
    rows.append((sid, ", ".join(meta["files"]), first[:110], ", ".join(det) or "MISSED", detail[:120].replace("|", "/")))
out = ["| seeded change | file(s) | what it is (from the author's notes) | caught by | first report line |", "|---|---|---|---|---|"]
for r in rows:
    out.append("| " + " | ".join(r) + " |")
open(os.path.join(V, "notes", "detection_matrix.md"), "w").write("\n".join(out) + "\n")
print(len(rows), "rows")
