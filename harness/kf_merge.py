#!/usr/bin/env python3
"""Resolve a merge conflict in known_findings.json: union of both sides' entries by (property, id); ours wins on equal ids."""
import json
import subprocess

ours = json.loads(subprocess.run("git show :2:known_findings.json", shell=True, capture_output=True, text=True).stdout)
theirs = json.loads(subprocess.run("git show :3:known_findings.json", shell=True, capture_output=True, text=True).stdout)
seen = {(f["property"], f["id"]) for f in ours["findings"]}
for f in theirs["findings"]:
    if (f["property"], f["id"]) not in seen:
        ours["findings"].append(f)
json.dump(ours, open("known_findings.json", "w"), indent=1)
print(len(ours["findings"]), "findings")
