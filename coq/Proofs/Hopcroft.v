(* Lemmas for C05, the mirror model of the Hopcroft refinement (Model/Hopcroft.v):
   for EVERY pop schedule and every order of the symbols the worklist loop ends within its
   fuel, and the partition it ends with is Nerode equivalence on the item list - the very
   partition the specification model (Moore refinement, Model/Minimize.v) computes. *)
From Coq Require Import List Arith Bool Lia.
From AV Require Import Base.Util Spec.Lang Spec.FA Model.Decide Model.Minimize Model.Hopcroft
                       Proofs.Moore.
Import ListNotations.

(* ---------- small list facts ---------- *)
Lemma idx_lt {A} (e : A -> A -> bool) (e_ok : eqb_ok e) x l : In x l -> idx e x l < length l.
Proof.
  induction l as [|y l IH]; simpl; [tauto|]. intro H. destruct (e x y) eqn:E; [lia|].
  destruct H as [H|H]; [subst; rewrite (eqb_ok_refl _ e_ok) in E; discriminate|]. apply IH in H. lia.
Qed.

Lemma filter_length_le {A} (f : A -> bool) l : length (filter f l) <= length l.
Proof. induction l as [|y l IH]; simpl; [lia|]. destruct (f y); simpl; lia. Qed.

Lemma filter_length_lt {A} (f : A -> bool) l x : In x l -> f x = false -> length (filter f l) < length l.
Proof.
  induction l as [|y l IH]; simpl; [tauto|]. intros [H|H] Hf.
  - subst. rewrite Hf. pose proof (filter_length_le f l). lia.
  - specialize (IH H Hf). destruct (f y); simpl; lia.
Qed.

Lemma filter_lt_ex {A} (f : A -> bool) l : length (filter f l) < length l -> exists x, In x l /\ f x = false.
Proof.
  induction l as [|y l IH]; simpl; [lia|]. destruct (f y) eqn:E; simpl; intro H.
  - destruct IH as [x [Hx Hf]]; [lia|]. exists x. split; [right; exact Hx|exact Hf].
  - exists y. split; [left; reflexivity|exact E].
Qed.

Lemma NoDup_map_inj_on' (l : list nat) (h : nat -> nat) :
  NoDup l -> (forall a b, In a l -> In b l -> h a = h b -> a = b) -> NoDup (map h l).
Proof.
  induction l as [|a l IH]; intros Hn Hinj; simpl; [constructor|].
  inversion Hn; subst. constructor.
  - intro H. apply in_map_iff in H. destruct H as [b [Hb Hin]].
    assert (b = a) by (apply Hinj; [right; exact Hin|left; reflexivity|exact Hb]). subst. contradiction.
  - apply IH; [assumption|]. intros a' b' Ha' Hb'. apply Hinj; right; assumption.
Qed.

Lemma NoDup_app_intro {A} (l1 l2 : list A) :
  NoDup l1 -> NoDup l2 -> (forall x, In x l1 -> In x l2 -> False) -> NoDup (l1 ++ l2).
Proof.
  induction l1 as [|a l1 IH]; simpl; intros H1 H2 Hd; [exact H2|].
  inversion H1; subst. constructor.
  - intro H. apply in_app_iff in H. destruct H as [H|H]; [contradiction|]. apply (Hd a); [left; reflexivity|exact H].
  - apply IH; [assumption|exact H2|]. intros x Hx. apply Hd. right. exact Hx.
Qed.

(* ---------- the worklist as a set ---------- *)
Lemma wl_add_In i j W : In j (wl_add i W) <-> j = i \/ In j W.
Proof.
  unfold wl_add. destruct (memb i W) eqn:E.
  - apply memb_In in E. split; [auto|]. intros [H|H]; [subst; exact E|exact H].
  - rewrite in_app_iff. simpl. split; [intros [H|[H|[]]]; auto|intros [H|H]; auto].
Qed.

Lemma wl_add_length i W : length (wl_add i W) <= S (length W).
Proof. unfold wl_add. destruct (memb i W); [lia|]. rewrite app_length. simpl. lia. Qed.

Lemma pop_spec k W : W <> [] ->
  In (fst (pop k W)) W /\ (forall j, In j (snd (pop k W)) <-> In j W /\ j <> fst (pop k W)) /\
  length (snd (pop k W)) < length W.
Proof.
  intro HW. unfold pop. simpl.
  set (c := if memb k W then k else hd 0 W).
  assert (Hc : In c W).
  { unfold c. destruct (memb k W) eqn:E; [apply memb_In; exact E|]. destruct W; [contradiction HW; reflexivity|left; reflexivity]. }
  split; [exact Hc|]. split.
  - intro j. rewrite filter_In. rewrite negb_true_iff, Nat.eqb_neq. tauto.
  - eapply filter_length_lt; [exact Hc|]. rewrite Nat.eqb_refl. reflexivity.
Qed.

Section HopProofs.
  Variable X : Type.
  Variable eqbX : X -> X -> bool.
  Hypothesis eqbX_ok : eqb_ok eqbX.
  Variable Q : list X.
  Hypothesis Q_nonempty : Q <> [].

  Notation prs := (prs X).
  Notation cls P := (look eqbX (p_tab P)).
  Notation members := (members eqbX Q).
  Notation refine := (refine eqbX Q).
  Notation inS := (inS eqbX).
  Notation hitb := (hitb eqbX Q).

  Lemma look_tab' g x : In x Q -> look eqbX (tab Q g) x = g x.
  Proof.
    unfold tab. generalize Q as l. induction l as [|y l IH]; simpl; [tauto|]. intro H.
    destruct (eqbX x y) eqn:E.
    - apply eqbX_ok in E. subst. reflexivity.
    - destruct H as [H|H]; [subst; rewrite (eqb_ok_refl _ eqbX_ok) in E; discriminate|]. apply IH. exact H.
  Qed.

  Lemma inS_In S x : inS S x = true <-> In x S.
  Proof. apply gmem_In. exact eqbX_ok. Qed.

  Lemma members_In P i x : In x (members P i) <-> In x Q /\ cls P x = i.
  Proof. unfold Hopcroft.members. rewrite filter_In, Nat.eqb_eq. tauto. Qed.

  (* a set is changed iff S cuts it into two non-empty parts *)
  Lemma hitb_true S P i : hitb S P i = true <->
    (exists x, In x (members P i) /\ inS S x = true) /\ (exists y, In y (members P i) /\ inS S y = false).
  Proof.
    unfold Hopcroft.hitb. split.
    - destruct (filter (inS S) (members P i)) as [|z r] eqn:E; [discriminate|]. intro H. split.
      + assert (Hz : In z (filter (inS S) (members P i))) by (rewrite E; left; reflexivity).
        apply filter_In in Hz. exists z. exact Hz.
      + apply Nat.ltb_lt in H. rewrite <- E in H. apply filter_lt_ex in H. exact H.
    - intros [[x [Hx Sx]] [y [Hy Sy]]].
      assert (Hin : In x (filter (inS S) (members P i))) by (apply filter_In; split; assumption).
      destruct (filter (inS S) (members P i)) as [|z r] eqn:E; [destruct Hin|].
      apply Nat.ltb_lt. rewrite <- E. eapply filter_length_lt; eassumption.
  Qed.

  Lemma hitb_false_same S P i x y : hitb S P i = false -> In x (members P i) -> In y (members P i) ->
    inS S x = inS S y.
  Proof.
    intros H Hx Hy. destruct (inS S x) eqn:Ex; destruct (inS S y) eqn:Ey; try reflexivity; exfalso.
    - assert (T : hitb S P i = true) by (apply hitb_true; split; [exists x|exists y]; split; assumption). congruence.
    - assert (T : hitb S P i = true) by (apply hitb_true; split; [exists y|exists x]; split; assumption). congruence.
  Qed.

  (* ---- well-formed partition objects ---- *)
  Record wf (P : prs) : Prop := {
    wf_lt : forall x, In x Q -> cls P x < p_next P;
    wf_ids_lt : forall i, In i (p_ids P) -> i < p_next P;
    wf_in : forall x, In x Q -> In (cls P x) (p_ids P);
    wf_nodup : NoDup (p_ids P);
    wf_inh : forall i, In i (p_ids P) -> exists x, In x Q /\ cls P x = i
  }.

  Lemma wf_count P : wf P -> length (p_ids P) <= length Q.
  Proof.
    intro H. rewrite <- (map_length (cls P) Q). apply NoDup_incl_length; [apply (wf_nodup P H)|].
    intros i Hi. destruct (wf_inh P H i Hi) as [x [Hx E]]. subst i. apply in_map. exact Hx.
  Qed.

  Lemma wf_init : wf (pr_init Q).
  Proof.
    assert (L : forall x, In x Q -> cls (pr_init Q) x = 0).
    { intros x Hx. simpl. apply (look_tab' (fun _ => 0) x Hx). }
    constructor; simpl.
    - intros x Hx. change (cls (pr_init Q) x < 1). rewrite (L x Hx). lia.
    - intros i [<-|[]]. lia.
    - intros x Hx. left. symmetry. apply (L x Hx).
    - constructor; [intros []|constructor].
    - intros i [<-|[]]. destruct Q as [|x r]; [contradiction Q_nonempty; reflexivity|].
      exists x. split; [left; reflexivity|]. apply (L x). left. reflexivity.
  Qed.

  (* ---- refine ---- *)
  Section Refine.
    Variable S : list X.
    Variable P : prs.
    Hypothesis HP : wf P.

    Let hit := filter (hitb S P) (p_ids P).
    Let newid := fun i => p_next P + idx Nat.eqb i hit.
    Let P2 := fst (refine S P).
    Let out := snd (refine S P).

    Lemma cls2 x : In x Q ->
      cls P2 x = if memb (cls P x) hit && inS S x then newid (cls P x) else cls P x.
    Proof.
      intro Hx. unfold P2, Hopcroft.refine. simpl.
      apply (look_tab' (fun x => if memb (cls P x) hit && inS S x then newid (cls P x) else cls P x) x Hx).
    Qed.

    Lemma out_eq : out = map (fun i => (newid i, i)) hit.
    Proof. reflexivity. Qed.

    Lemma ids2_eq : p_ids P2 = p_ids P ++ map newid hit.
    Proof. reflexivity. Qed.

    Lemma next2_eq : p_next P2 = p_next P + length hit.
    Proof. reflexivity. Qed.

    Lemma hit_In i : In i hit <-> In i (p_ids P) /\ hitb S P i = true.
    Proof. unfold hit. apply filter_In. Qed.

    Lemma memb_hit x : In x Q -> memb (cls P x) hit = hitb S P (cls P x).
    Proof.
      intro Hx. destruct (hitb S P (cls P x)) eqn:E.
      - apply memb_In. apply hit_In. split; [apply (wf_in P HP x Hx)|exact E].
      - apply memb_false. intro H. apply hit_In in H. destruct H as [_ H]. congruence.
    Qed.

    Lemma newid_ge i : p_next P <= newid i.
    Proof. unfold newid. lia. Qed.

    Lemma newid_lt i : In i hit -> newid i < p_next P + length hit.
    Proof. intro H. unfold newid. pose proof (idx_lt Nat.eqb eqb_nat_ok i hit H). lia. Qed.

    Lemma newid_inj i j : In i hit -> newid i = newid j -> i = j.
    Proof.
      intros Hi E. unfold newid in E. apply (idx_inj Nat.eqb eqb_nat_ok i j hit Hi). lia.
    Qed.

    (* RS1: an item keeps its id or moves to the fresh id paired with it *)
    Lemma refine_moves x : In x Q -> cls P2 x = cls P x \/ In (cls P2 x, cls P x) out.
    Proof.
      intro Hx. rewrite (cls2 x Hx). destruct (memb (cls P x) hit) eqn:E; simpl; [|left; reflexivity].
      destruct (inS S x); [|left; reflexivity]. right. rewrite out_eq.
      apply in_map_iff. exists (cls P x). split; [reflexivity|apply memb_In; exact E].
    Qed.

    (* RS2: two items share a set afterwards iff they did before and S does not separate them *)
    Lemma refine_same x y : In x Q -> In y Q ->
      (cls P2 x = cls P2 y <-> cls P x = cls P y /\ inS S x = inS S y).
    Proof.
      intros Hx Hy. rewrite (cls2 x Hx), (cls2 y Hy). rewrite (memb_hit x Hx), (memb_hit y Hy). split.
      - destruct (hitb S P (cls P x)) eqn:Ex; destruct (hitb S P (cls P y)) eqn:Ey; simpl.
        + destruct (inS S x) eqn:Sx; destruct (inS S y) eqn:Sy; intro E.
          * split; [|reflexivity]. apply newid_inj in E; [exact E|]. apply hit_In. split; [apply (wf_in P HP x Hx)|exact Ex].
          * exfalso. pose proof (newid_ge (cls P x)). pose proof (wf_lt P HP y Hy). lia.
          * exfalso. pose proof (newid_ge (cls P y)). pose proof (wf_lt P HP x Hx). lia.
          * split; [exact E|reflexivity].
        + destruct (inS S x) eqn:Sx; intro E.
          * exfalso. pose proof (newid_ge (cls P x)). pose proof (wf_lt P HP y Hy). lia.
          * exfalso. rewrite E in Ex. congruence.
        + destruct (inS S y) eqn:Sy; intro E.
          * exfalso. pose proof (newid_ge (cls P y)). pose proof (wf_lt P HP x Hx). lia.
          * exfalso. rewrite E in Ex. congruence.
        + intro E. split; [exact E|].
          apply (hitb_false_same S P (cls P x)); [exact Ex| |]; apply members_In; split; auto.
      - intros [E ES]. rewrite E, ES. reflexivity.
    Qed.

    (* RS4 / RS7 *)
    Lemma out_fun n n' i : In (n, i) out -> In (n', i) out -> n = n'.
    Proof.
      rewrite out_eq. intros H1 H2. apply in_map_iff in H1. apply in_map_iff in H2.
      destruct H1 as [j [E1 _]]. destruct H2 as [j' [E2 _]]. inversion E1; inversion E2; subst. reflexivity.
    Qed.

    Lemma out_old n i : In (n, i) out -> In i (p_ids P) /\ p_next P <= n.
    Proof.
      rewrite out_eq. intro H. apply in_map_iff in H. destruct H as [j [E Hj]]. inversion E; subst.
      split; [apply hit_In in Hj; tauto|apply newid_ge].
    Qed.

    Lemma out_length : length (p_ids P2) = length (p_ids P) + length out.
    Proof. rewrite ids2_eq, out_eq, app_length, !map_length. reflexivity. Qed.

    (* RS5 *)
    Lemma refine_wf : wf P2.
    Proof.
      constructor.
      - intros x Hx. rewrite next2_eq, (cls2 x Hx).
        destruct (memb (cls P x) hit) eqn:E; simpl.
        + destruct (inS S x).
          * apply newid_lt. apply memb_In. exact E.
          * pose proof (wf_lt P HP x Hx). lia.
        + pose proof (wf_lt P HP x Hx). lia.
      - intros i Hi. rewrite next2_eq. rewrite ids2_eq in Hi. apply in_app_iff in Hi. destruct Hi as [Hi|Hi].
        + pose proof (wf_ids_lt P HP i Hi). lia.
        + apply in_map_iff in Hi. destruct Hi as [j [<- Hj]]. apply newid_lt. exact Hj.
      - intros x Hx. rewrite ids2_eq, (cls2 x Hx). apply in_app_iff.
        destruct (memb (cls P x) hit) eqn:E; simpl.
        + destruct (inS S x).
          * right. apply in_map. apply memb_In. exact E.
          * left. apply (wf_in P HP x Hx).
        + left. apply (wf_in P HP x Hx).
      - rewrite ids2_eq. apply NoDup_app_intro.
        + apply (wf_nodup P HP).
        + apply NoDup_map_inj_on'; [apply NoDup_filter; apply (wf_nodup P HP)|].
          intros a b Ha _ E. apply newid_inj; assumption.
        + intros i Hi Hn. apply in_map_iff in Hn. destruct Hn as [j [E _]].
          pose proof (wf_ids_lt P HP i Hi). pose proof (newid_ge j). lia.
      - intros i Hi. rewrite ids2_eq in Hi. apply in_app_iff in Hi. destruct Hi as [Hi|Hi].
        + destruct (hitb S P i) eqn:Eh.
          * pose proof Eh as Eh'. apply hitb_true in Eh'. destruct Eh' as [_ [y [Hy Sy]]].
            apply members_In in Hy. destruct Hy as [Hy Ey]. exists y. split; [exact Hy|].
            rewrite (cls2 y Hy), Sy, andb_false_r. exact Ey.
          * destruct (wf_inh P HP i Hi) as [x [Hx Ex]]. exists x. split; [exact Hx|].
            rewrite (cls2 x Hx), (memb_hit x Hx), Ex, Eh. reflexivity.
        + apply in_map_iff in Hi. destruct Hi as [j [<- Hj]]. pose proof Hj as Hj'. apply hit_In in Hj'.
          destruct Hj' as [_ Eh]. apply hitb_true in Eh. destruct Eh as [[x [Hx Sx]] _].
          apply members_In in Hx. destruct Hx as [Hx Ex]. exists x. split; [exact Hx|].
          rewrite (cls2 x Hx), Sx, Ex. replace (memb j hit) with true; [reflexivity|].
          symmetry. apply memb_In. exact Hj.
    Qed.
  End Refine.

  Notation upd_processing := (upd_processing eqbX Q).
  Notation upd_pair := (upd_pair eqbX Q).

  (* ---- the update of `processing` (dfa.py 664-674) ---- *)
  Lemma upd_pair_incl P W pr j : In j W -> In j (upd_pair P W pr).
  Proof.
    destruct pr as [n i]. unfold Hopcroft.upd_pair. intro H.
    destruct (memb i W); [|destruct (Nat.leb _ _)]; apply wl_add_In; right; exact H.
  Qed.

  Lemma upd_pair_length P W pr : length (upd_pair P W pr) <= S (length W).
  Proof.
    destruct pr as [n i]. unfold Hopcroft.upd_pair.
    destruct (memb i W); [|destruct (Nat.leb _ _)]; apply wl_add_length.
  Qed.

  Lemma upd_incl P pairs : forall W j, In j W -> In j (upd_processing P W pairs).
  Proof.
    unfold Hopcroft.upd_processing. induction pairs as [|pr r IH]; intros W j H; simpl; [exact H|].
    apply IH. apply upd_pair_incl. exact H.
  Qed.

  (* the shrunken set is pending: the new id becomes pending too *)
  Lemma upd_pending P pairs : forall W n i, In (n, i) pairs -> In i W -> In n (upd_processing P W pairs).
  Proof.
    induction pairs as [|pr r IH]; intros W n i H Hi; [destruct H|].
    unfold Hopcroft.upd_processing. simpl. destruct H as [->|H].
    - apply upd_incl. unfold Hopcroft.upd_pair. apply memb_In in Hi. rewrite Hi. apply wl_add_In. left. reflexivity.
    - apply (IH _ n i H). apply upd_pair_incl. exact Hi.
  Qed.

  (* in any case one of the two halves becomes (or is) pending *)
  Lemma upd_one P pairs : forall W n i, In (n, i) pairs ->
    In n (upd_processing P W pairs) \/ In i (upd_processing P W pairs).
  Proof.
    induction pairs as [|pr r IH]; intros W n i H; [destruct H|].
    unfold Hopcroft.upd_processing. simpl. destruct H as [->|H].
    - unfold Hopcroft.upd_pair at 2 4. destruct (memb i W).
      + left. apply upd_incl. apply wl_add_In. left. reflexivity.
      + destruct (Nat.leb _ _).
        * left. apply upd_incl. apply wl_add_In. left. reflexivity.
        * right. apply upd_incl. apply wl_add_In. left. reflexivity.
    - apply (IH _ n i H).
  Qed.

  Lemma upd_length P pairs : forall W, length (upd_processing P W pairs) <= length W + length pairs.
  Proof.
    unfold Hopcroft.upd_processing. induction pairs as [|pr r IH]; intro W; simpl; [lia|].
    pose proof (IH (upd_pair P W pr)). pose proof (upd_pair_length P W pr). lia.
  Qed.

  (* ---- the loop ---- *)
  Section Loop.
    Variable step : X -> nat -> X.
    Variable fin : X -> bool.
    Variable syms : list nat.
    Hypothesis Q_closed : forall x a, In a syms -> In x Q -> In (step x a) Q.
    Variable back : nat -> X -> list X.
    Hypothesis back_spec : forall a t x, In a syms -> In t Q -> (In x (back a t) <-> In x Q /\ step x a = t).
    Variable finals : list X.
    Hypothesis finals_spec : forall x, In x Q -> (In x finals <-> fin x = true).
    Variable sord : list nat.
    Hypothesis sord_spec : forall a, In a sord <-> In a syms.
    Variable sched : nat -> list nat -> nat.
    (* any relation that finality and the transitions respect: the loop never separates R-related items *)
    Variable R : X -> X -> Prop.
    Hypothesis R_fin : forall x y, In x Q -> In y Q -> R x y -> fin x = fin y.
    Hypothesis R_step : forall x y a, In a syms -> In x Q -> In y Q -> R x y -> R (step x a) (step y a).

    (* Hopcroft's invariant, on pairs of items: if a symbol leads two items of one set into two
       different sets, one of these two sets is pending *)
    Definition J (P : prs) (W : list nat) : Prop :=
      forall x y a, In x Q -> In y Q -> In a syms -> cls P x = cls P y ->
        cls P (step x a) <> cls P (step y a) ->
        In (cls P (step x a)) W \/ In (cls P (step y a)) W.

    (* inside one pop: ... or the popped copy Cs separates the targets and the symbol is still to come *)
    Definition J' (P : prs) (W : list nat) (Cs : list X) (rest : list nat) : Prop :=
      forall x y a, In x Q -> In y Q -> In a syms -> cls P x = cls P y ->
        cls P (step x a) <> cls P (step y a) ->
        (In (cls P (step x a)) W \/ In (cls P (step y a)) W) \/
        (In a rest /\ inS Cs (step x a) <> inS Cs (step y a)).

    Definition I0 (P : prs) : Prop := forall x y, In x Q -> In y Q -> cls P x = cls P y -> fin x = fin y.
    Definition I1 (P : prs) : Prop := forall x y, In x Q -> In y Q -> R x y -> cls P x = cls P y.
    Definition sat (Cs : list X) : Prop := forall u v, In u Q -> In v Q -> R u v -> inS Cs u = inS Cs v.

    Lemma inS_back b Cs x : In b syms -> incl Cs Q -> In x Q ->
      inS (flat_map (back b) Cs) x = inS Cs (step x b).
    Proof.
      intros Hb HC Hx. destruct (inS Cs (step x b)) eqn:E.
      - apply inS_In. apply inS_In in E. apply in_flat_map. exists (step x b). split; [exact E|].
        apply back_spec; [exact Hb|apply HC; exact E|]. split; [exact Hx|reflexivity].
      - destruct (inS (flat_map (back b) Cs) x) eqn:E2; [exfalso|reflexivity].
        apply inS_In in E2. apply in_flat_map in E2. destruct E2 as [t [Ht Hin]].
        apply back_spec in Hin; [|exact Hb|apply HC; exact Ht]. destruct Hin as [_ <-].
        apply inS_In in Ht. congruence.
    Qed.

    Lemma inner_step_ok Cs P W b rest :
      wf P -> In b syms -> incl Cs Q -> sat Cs -> I0 P -> I1 P -> J' P W Cs (b :: rest) ->
      let st2 := inner_step eqbX Q back Cs (P, W) b in
      wf (fst st2) /\ I0 (fst st2) /\ I1 (fst st2) /\ J' (fst st2) (snd st2) Cs rest /\
      length (snd st2) + length (p_ids P) <= length W + length (p_ids (fst st2)).
    Proof.
      intros HP Hb HC Hsat H0 H1 HJ. unfold inner_step.
      set (S := flat_map (back b) Cs).
      destruct (refine S P) as [P2 pairs] eqn:E. simpl.
      assert (EP : P2 = fst (refine S P)) by (rewrite E; reflexivity).
      assert (Eo : pairs = snd (refine S P)) by (rewrite E; reflexivity).
      pose proof (refine_same S P HP) as Hsame. rewrite <- EP in Hsame.
      pose proof (refine_moves S P) as Hmov. rewrite <- EP, <- Eo in Hmov.
      pose proof (out_fun S P) as Hfun. rewrite <- Eo in Hfun.
      assert (Hwf2 : wf P2) by (rewrite EP; apply refine_wf; exact HP).
      assert (HinS : forall x, In x Q -> inS S x = inS Cs (step x b)).
      { intros x Hx. apply inS_back; assumption. }
      split; [exact Hwf2|]. split; [|split; [|split]].
      - intros x y Hx Hy Exy. apply H0; [exact Hx|exact Hy|]. apply (Hsame x y Hx Hy). exact Exy.
      - intros x y Hx Hy Rxy. apply (Hsame x y Hx Hy). split; [apply H1; assumption|].
        rewrite (HinS x Hx), (HinS y Hy). apply Hsat; [apply Q_closed; assumption|apply Q_closed; assumption|].
        apply R_step; assumption.
      - (* the invariant *)
        assert (Hkeep : forall u, In u Q -> In (cls P u) W -> In (cls P2 u) (upd_processing P2 W pairs)).
        { intros u Hu Hin. destruct (Hmov u Hu) as [Eu|Hpair].
          - rewrite Eu. apply upd_incl. exact Hin.
          - eapply upd_pending; [exact Hpair|exact Hin]. }
        assert (Hsplit : forall u v, In u Q -> In v Q -> cls P u = cls P v -> cls P2 u <> cls P2 v ->
                           In (cls P2 u) (upd_processing P2 W pairs) \/ In (cls P2 v) (upd_processing P2 W pairs)).
        { intros u v Hu Hv Euv Hne.
          destruct (Hmov u Hu) as [Eu|Hpu]; destruct (Hmov v Hv) as [Ev|Hpv].
          - exfalso. apply Hne. congruence.
          - destruct (upd_one P2 pairs W _ _ Hpv) as [H|H]; [right; exact H|left]. rewrite Eu, Euv. exact H.
          - destruct (upd_one P2 pairs W _ _ Hpu) as [H|H]; [left; exact H|right]. rewrite Ev, <- Euv. exact H.
          - exfalso. apply Hne. rewrite <- Euv in Hpv. eapply Hfun; eassumption. }
        intros x y a Hx Hy Ha Exy Hne.
        pose proof (Q_closed x a Ha Hx) as Hx'. pose proof (Q_closed y a Ha Hy) as Hy'.
        apply (Hsame x y Hx Hy) in Exy. destruct Exy as [Exy ES].
        destruct (Nat.eq_dec (cls P (step x a)) (cls P (step y a))) as [Eold|Nold].
        + left. apply Hsplit; assumption.
        + destruct (HJ x y a Hx Hy Ha Exy Nold) as [[H|H]|[Hin Hsep]].
          * left. left. apply Hkeep; assumption.
          * left. right. apply Hkeep; assumption.
          * destruct Hin as [<-|Hin]; [|right; split; assumption].
            exfalso. apply Hsep. rewrite <- (HinS x Hx), <- (HinS y Hy). exact ES.
      - pose proof (upd_length P2 pairs W). pose proof (out_length S P) as HL. rewrite <- EP, <- Eo in HL. lia.
    Qed.

    Lemma inner_fold_ok Cs : incl Cs Q -> sat Cs -> forall l, (forall b, In b l -> In b syms) ->
      forall P W, wf P -> I0 P -> I1 P -> J' P W Cs l ->
      let st2 := fold_left (inner_step eqbX Q back Cs) l (P, W) in
      wf (fst st2) /\ I0 (fst st2) /\ I1 (fst st2) /\ J' (fst st2) (snd st2) Cs [] /\
      length (snd st2) + length (p_ids P) <= length W + length (p_ids (fst st2)).
    Proof.
      intros HC Hsat. induction l as [|b l IH]; intros Hl P W HP H0 H1 HJ.
      - simpl. split; [exact HP|]. split; [exact H0|]. split; [exact H1|]. split; [exact HJ|]. lia.
      - cbv zeta.
        change (fold_left (inner_step eqbX Q back Cs) (b :: l) (P, W))
          with (fold_left (inner_step eqbX Q back Cs) l (inner_step eqbX Q back Cs (P, W) b)).
        pose proof (inner_step_ok Cs P W b l HP (Hl b (or_introl eq_refl)) HC Hsat H0 H1 HJ) as Hs.
        destruct (inner_step eqbX Q back Cs (P, W) b) as [P1 W1]. simpl in Hs.
        destruct Hs as [HP1 [H01 [H11 [HJ1 HL1]]]].
        pose proof (IH (fun b' Hb' => Hl b' (or_intror Hb')) P1 W1 HP1 H01 H11 HJ1) as Hr.
        destruct (fold_left (inner_step eqbX Q back Cs) l (P1, W1)) as [P2 W2]. simpl in Hr |- *.
        destruct Hr as [HP2 [H02 [H12 [HJ2 HL2]]]].
        split; [exact HP2|]. split; [exact H02|]. split; [exact H12|]. split; [exact HJ2|]. lia.
    Qed.

    Notation hop_loop := (hop_loop eqbX Q back sord sched).

    (* every schedule: the loop ends within the fuel, in a partition that respects finality, does
       not separate R-related items and is stable (J with nothing pending) *)
    Lemma loop_ok : forall fuel no P W, wf P -> I0 P -> I1 P -> J P W ->
      length W + (length Q - length (p_ids P)) < fuel ->
      exists Pf, hop_loop fuel no P W = Some Pf /\ wf Pf /\ I0 Pf /\ I1 Pf /\ J Pf [].
    Proof.
      induction fuel as [|f IH]; intros no P W HP H0 H1 HJ Hm; [lia|].
      destruct W as [|w0 W'].
      - exists P. simpl. split; [reflexivity|]. split; [exact HP|]. split; [exact H0|]. split; [exact H1|exact HJ].
      - cbn [Hopcroft.hop_loop]. set (W := w0 :: W') in *.
        assert (HW : W <> []) by discriminate.
        pose proof (pop_spec (sched no W) W HW) as Hpop.
        destruct (pop (sched no W) W) as [c W1]. simpl in Hpop. destruct Hpop as [Hc [HW1 HL1]].
        set (Cs := members P c).
        assert (HC : incl Cs Q) by (intros u Hu; apply members_In in Hu; tauto).
        assert (HinC : forall u, In u Q -> (inS Cs u = true <-> cls P u = c)).
        { intros u Hu. rewrite inS_In. unfold Cs. rewrite members_In. tauto. }
        assert (Hsat : sat Cs).
        { intros u v Hu Hv Ruv. pose proof (H1 u v Hu Hv Ruv) as E.
          destruct (inS Cs u) eqn:Eu; destruct (inS Cs v) eqn:Ev; try reflexivity; exfalso.
          - apply (HinC u Hu) in Eu. rewrite E in Eu. apply (HinC v Hv) in Eu. congruence.
          - apply (HinC v Hv) in Ev. rewrite <- E in Ev. apply (HinC u Hu) in Ev. congruence. }
        assert (HJ' : J' P W1 Cs sord).
        { intros x y a Hx Hy Ha Exy Hne.
          pose proof (Q_closed x a Ha Hx) as Hx'. pose proof (Q_closed y a Ha Hy) as Hy'.
          assert (Hsep : cls P (step x a) = c \/ cls P (step y a) = c ->
                         In a sord /\ inS Cs (step x a) <> inS Cs (step y a)).
          { intro Hor. split; [apply sord_spec; exact Ha|]. intro E. destruct Hor as [Hc'|Hc'].
            - pose proof (proj2 (HinC _ Hx') Hc') as T. rewrite E in T. apply (HinC _ Hy') in T. congruence.
            - pose proof (proj2 (HinC _ Hy') Hc') as T. rewrite <- E in T. apply (HinC _ Hx') in T. congruence. }
          destruct (Nat.eq_dec (cls P (step x a)) c) as [E1|N1]; [right; apply Hsep; left; exact E1|].
          destruct (Nat.eq_dec (cls P (step y a)) c) as [E2|N2]; [right; apply Hsep; right; exact E2|].
          left. destruct (HJ x y a Hx Hy Ha Exy Hne) as [H|H]; [left|right]; apply HW1; split; assumption. }
        pose proof (inner_fold_ok Cs HC Hsat sord (fun b Hb => proj1 (sord_spec b) Hb) P W1 HP H0 H1 HJ') as Hf.
        destruct (fold_left (inner_step eqbX Q back Cs) sord (P, W1)) as [P2 W2]. simpl in Hf.
        destruct Hf as [HP2 [H02 [H12 [HJ2 HL2]]]].
        apply IH; try assumption.
        + intros x y a Hx Hy Ha Exy Hne. destruct (HJ2 x y a Hx Hy Ha Exy Hne) as [H|[[] _]]. exact H.
        + pose proof (wf_count P2 HP2). pose proof (wf_count P HP). unfold W in Hm. simpl in Hm. lia.
    Qed.

    (* dfa.py 639-648: the first refine and the first pending id *)
    Lemma start_ok : let st := hop_start eqbX Q finals in
      wf (fst st) /\ I0 (fst st) /\ I1 (fst st) /\ J (fst st) (snd st) /\ length (snd st) = 1.
    Proof.
      unfold hop_start. pose proof wf_init as HP0.
      assert (L0 : forall x, In x Q -> cls (pr_init Q) x = 0).
      { intros x Hx. simpl. apply (look_tab' (fun _ => 0) x Hx). }
      destruct (refine finals (pr_init Q)) as [P1 pairs] eqn:E. simpl.
      assert (EP : P1 = fst (refine finals (pr_init Q))) by (rewrite E; reflexivity).
      assert (Eo : pairs = snd (refine finals (pr_init Q))) by (rewrite E; reflexivity).
      pose proof (refine_same finals _ HP0) as Hsame. rewrite <- EP in Hsame.
      pose proof (refine_moves finals (pr_init Q)) as Hmov. rewrite <- EP, <- Eo in Hmov.
      pose proof (out_fun finals (pr_init Q)) as Hfun. rewrite <- Eo in Hfun.
      pose proof (out_old finals (pr_init Q)) as Hold. rewrite <- Eo in Hold.
      assert (Hfin : forall x y, In x Q -> In y Q -> (inS finals x = inS finals y <-> fin x = fin y)).
      { intros x y Hx Hy. pose proof (finals_spec x Hx) as Fx. pose proof (finals_spec y Hy) as Fy.
        rewrite <- inS_In in Fx, Fy.
        destruct (inS finals x); destruct (inS finals y); destruct (fin x); destruct (fin y); intuition congruence. }
      split; [rewrite EP; apply refine_wf; exact HP0|]. split; [|split; [|split; [|reflexivity]]].
      - intros x y Hx Hy Exy. apply (Hsame x y Hx Hy) in Exy. apply (Hfin x y Hx Hy). tauto.
      - intros x y Hx Hy Rxy. apply (Hsame x y Hx Hy). split; [rewrite (L0 x Hx), (L0 y Hy); reflexivity|].
        apply (Hfin x y Hx Hy). apply R_fin; assumption.
      - intros x y a Hx Hy Ha _ Hne.
        pose proof (Q_closed x a Ha Hx) as Hx'. pose proof (Q_closed y a Ha Hy) as Hy'.
        assert (Hone : forall u, In u Q -> cls P1 u <> 0 ->
                  In (cls P1 u) [match pairs with (n, _) :: _ => n | [] => hd 0 (p_ids P1) end]).
        { intros u Hu Hnz. destruct (Hmov u Hu) as [Eu|Hp]; [rewrite (L0 u Hu) in Eu; contradiction|].
          rewrite (L0 u Hu) in Hp. destruct pairs as [|[n i0] r]; [destruct Hp|]. left.
          assert (Hi0 : i0 = 0).
          { destruct (Hold n i0 (or_introl eq_refl)) as [Hi _]. simpl in Hi. destruct Hi as [Hi|[]]. auto. }
          subst i0. eapply Hfun; [left; reflexivity|exact Hp]. }
        destruct (Nat.eq_dec (cls P1 (step x a)) 0) as [Ex|Nx].
        + right. apply Hone; [exact Hy'|]. intro Ey. apply Hne. congruence.
        + left. apply Hone; assumption.
    Qed.

    Theorem hopcroft_ok : exists Pf, hopcroft eqbX Q back sord sched finals = Some Pf /\
      wf Pf /\ I0 Pf /\ I1 Pf /\ J Pf [].
    Proof.
      unfold hopcroft. pose proof start_ok as Hs. destruct (hop_start eqbX Q finals) as [P1 W]. simpl in Hs.
      destruct Hs as [HP [H0 [H1 [HJ HL]]]]. apply loop_ok; try assumption.
      pose proof (wf_count P1 HP).
      assert (1 <= length (p_ids P1)).
      { destruct Q as [|x r] eqn:EQ; [contradiction Q_nonempty; reflexivity|].
        pose proof (wf_in P1 HP x) as Hin. rewrite EQ in Hin. specialize (Hin (or_introl eq_refl)).
        destruct (p_ids P1); [destruct Hin|simpl; lia]. }
      lia.
    Qed.
  End Loop.

  (* ---- the partition the loop ends with is Nerode equivalence on Q ---- *)
  Section Nerode.
    Variable step : X -> nat -> X.
    Variable fin : X -> bool.
    Variable syms : list nat.
    Hypothesis Q_closed : forall x a, In a syms -> In x Q -> In (step x a) Q.
    Hypothesis foreign : forall x y a, ~ In a syms -> step x a = step y a.
    Variable back : nat -> X -> list X.
    Hypothesis back_spec : forall a t x, In a syms -> In t Q -> (In x (back a t) <-> In x Q /\ step x a = t).
    Variable finals : list X.
    Hypothesis finals_spec : forall x, In x Q -> (In x finals <-> fin x = true).
    Variable sord : list nat.
    Hypothesis sord_spec : forall a, In a sord <-> In a syms.
    Variable sched : nat -> list nat -> nat.

    Notation xrun := (xrun X step).
    Definition nerode (x y : X) : Prop := forall w, fin (xrun x w) = fin (xrun y w).

    Lemma stable_nerode P : I0 fin P -> J step syms P [] ->
      forall w x y, In x Q -> In y Q -> cls P x = cls P y -> fin (xrun x w) = fin (xrun y w).
    Proof.
      intros H0 HJ. induction w as [|a w IH]; intros x y Hx Hy E; simpl.
      - apply H0; assumption.
      - destruct (in_dec Nat.eq_dec a syms) as [Ha|Na].
        + apply IH; [apply Q_closed; assumption|apply Q_closed; assumption|].
          destruct (Nat.eq_dec (cls P (step x a)) (cls P (step y a))) as [E'|N]; [exact E'|].
          destruct (HJ x y a Hx Hy Ha E N) as [[]|[]].
        + rewrite (foreign x y a Na). reflexivity.
    Qed.

    Theorem hopcroft_nerode : exists Pf, hopcroft eqbX Q back sord sched finals = Some Pf /\ wf Pf /\
      forall x y, In x Q -> In y Q -> (cls Pf x = cls Pf y <-> nerode x y).
    Proof.
      destruct (hopcroft_ok step fin syms Q_closed back back_spec finals finals_spec sord sord_spec sched nerode)
        as [Pf [E [HP [H0 [H1 HJ]]]]].
      - intros x y _ _ H. apply (H []).
      - intros x y a _ _ _ H w. apply (H (a :: w)).
      - exists Pf. split; [exact E|]. split; [exact HP|]. intros x y Hx Hy. split.
        + intros Exy w. apply (stable_nerode Pf H0 HJ w x y Hx Hy Exy).
        + intro H. apply H1; assumption.
    Qed.
  End Nerode.
End HopProofs.

(* ================= the concrete system of _minify ================= *)
From AV Require Import Proofs.FARun Proofs.Minimize.

Lemma bool_iff_eq (a b : bool) : (a = true <-> b = true) -> a = b.
Proof. destruct a; destruct b; intros [H1 H2]; try reflexivity; [symmetry; apply H1; reflexivity|apply H2; reflexivity]. Qed.

Lemma find_ext_in {A} (f g : A -> bool) l : (forall x, In x l -> f x = g x) -> find f l = find g l.
Proof.
  induction l as [|y l IH]; intro H; simpl; [reflexivity|].
  rewrite <- (H y (or_introl eq_refl)). destruct (f y); [reflexivity|]. apply IH. intros x Hx. apply H. right. exact Hx.
Qed.

Lemma forallb_ext_in {A} (f g : A -> bool) l : (forall x, In x l -> f x = g x) -> forallb f l = forallb g l.
Proof.
  induction l as [|y l IH]; intro H; simpl; [reflexivity|].
  rewrite (H y (or_introl eq_refl)). f_equal. apply IH. intros x Hx. apply H. right. exact Hx.
Qed.

(* the quotient only asks its class function whether two kept states share a class and - when the
   trap exists - whether a kept state shares the trap's class *)
Section QuotientExt.
  Variable m : dfa.
  Variable K : list nat.
  Variables c1 c2 : option nat -> nat.
  Hypothesis Hinit : In (d_init m) K.
  Hypothesis Hkk : forall q r, In q K -> In r K -> (c1 (Some q) = c1 (Some r) <-> c2 (Some q) = c2 (Some r)).
  Hypothesis Hkt : trap_needed m K = true -> forall q, In q K -> (c1 (Some q) = c1 None <-> c2 (Some q) = c2 None).

  Lemma dropped_ext q : In q K -> dropped m K c1 (Some q) = dropped m K c2 (Some q).
  Proof.
    intro Hq. unfold dropped. destruct (trap_needed m K) eqn:E; [|reflexivity]. simpl.
    apply bool_iff_eq. rewrite !Nat.eqb_eq. apply Hkt; [reflexivity|exact Hq].
  Qed.

  Lemma cname_ext q : In q K -> cname K c1 q = cname K c2 q.
  Proof.
    intro Hq. unfold cname.
    rewrite (find_ext_in (fun r => Nat.eqb (c1 (Some r)) (c1 (Some q))) (fun r => Nat.eqb (c2 (Some r)) (c2 (Some q))) K).
    - reflexivity.
    - intros r Hr. apply bool_iff_eq. rewrite !Nat.eqb_eq. apply Hkk; assumption.
  Qed.

  Lemma live_ext : live m K c1 = live m K c2.
  Proof. unfold live. apply filter_ext_in. intros q Hq. rewrite (dropped_ext q Hq). reflexivity. Qed.

  Lemma live_K q : In q (live m K c2) -> In q K.
  Proof. unfold live. intro H. apply filter_In in H. tauto. Qed.

  Lemma qstates_ext : qstates m K c1 = qstates m K c2.
  Proof.
    unfold qstates. rewrite live_ext. apply filter_ext_in. intros q Hq.
    rewrite (cname_ext q (live_K q Hq)). reflexivity.
  Qed.

  Lemma qstates_K r : In r (qstates m K c2) -> In r K.
  Proof. unfold qstates. intro H. apply filter_In in H. apply live_K. tauto. Qed.

  Lemma qtarget_ext r a : qtarget m K c1 r a = qtarget m K c2 r a.
  Proof.
    unfold qtarget. destruct (kstep m K (Some r) a) as [t|] eqn:E; [|reflexivity].
    assert (Ht : In t K).
    { simpl in E. destruct (d_delta m r a) as [t'|]; [|discriminate]. destruct (memb t' K) eqn:Em; [|discriminate].
      inversion E; subst. apply memb_In. exact Em. }
    rewrite (dropped_ext t Ht), (cname_ext t Ht). reflexivity.
  Qed.

  Lemma qrow_ext r : qrow m K c1 r = qrow m K c2 r.
  Proof. unfold qrow. apply flat_map_ext. intro a. rewrite qtarget_ext. reflexivity. Qed.

  Theorem quotient_ext : quotient m K c1 = quotient m K c2.
  Proof.
    unfold quotient. rewrite qstates_ext. destruct (qstates m K c2) as [|r0 rest] eqn:Eq; [reflexivity|].
    rewrite (dropped_ext _ Hinit). destruct (dropped m K c2 (Some (d_init m))); [reflexivity|].
    f_equal. f_equal.
    - unfold qtrans. rewrite qstates_ext.
      assert (T : map (fun r => (r, qrow m K c1 r)) (qstates m K c2) = map (fun r => (r, qrow m K c2 r)) (qstates m K c2)).
      { apply map_ext. intro r. rewrite qrow_ext. reflexivity. }
      rewrite (cname_ext _ Hinit).
      assert (F : qfinals m K c1 = qfinals m K c2).
      { unfold qfinals. f_equal. apply map_ext_in. intros q Hq. apply filter_In in Hq. apply cname_ext. tauto. }
      assert (Pp : qpartial m K c1 = qpartial m K c2).
      { unfold qpartial. rewrite qstates_ext. f_equal. apply forallb_ext_in. intros r _. rewrite qrow_ext. reflexivity. }
      rewrite T, F, Pp, Eq. reflexivity.
    - unfold qblocks. rewrite qstates_ext, live_ext. apply map_ext. intro r.
      apply filter_ext_in. intros q Hq. rewrite (cname_ext q (live_K q Hq)). reflexivity.
  Qed.
End QuotientExt.

Lemma somes_In q l : In q (somes l) <-> In (Some q) l.
Proof.
  induction l as [|[q'|] l IH]; simpl; [tauto| |].
  - rewrite IH. split; [intros [H|H]; [left; congruence|right; exact H]|intros [H|H]; [left; congruence|right; exact H]].
  - rewrite IH. split; [intro H; right; exact H|intros [H|H]; [discriminate|exact H]].
Qed.

Section Concrete.
  Variable m : dfa.
  Hypothesis Hv : valid_dfa m = true.
  Variable K : list nat.
  Hypothesis HK : goodK m K.

  Notation Qh := (h_states m K).
  Notation kst := (kstep m K).

  Lemma K_row q : In q K -> exists row, d_row m q = Some row.
  Proof. intro Hq. apply (state_has_row m Hv). apply (gk_states m K HK). exact Hq. Qed.

  Lemma rows_spec q row : In (q, row) (h_rows m K) <-> In q K /\ d_row m q = Some row.
  Proof.
    destruct (valid_dfa_parts m Hv) as (_ & _ & Hk & _).
    unfold h_rows. rewrite filter_In. simpl. rewrite memb_In. split.
    - intros [Hin Hq]. split; [exact Hq|]. unfold d_row. apply assoc_NoDup; assumption.
    - intros [Hq E]. split; [apply assoc_In; exact E|exact Hq].
  Qed.

  Lemma target_kstep q row a : d_row m q = Some row -> h_target K row a = kst (Some q) a.
  Proof. intro E. unfold h_target. simpl. unfold d_delta. rewrite E. reflexivity. Qed.

  (* the trap is created exactly when the specification model says it is needed *)
  Lemma h_trap_eq : h_trap m K = trap_needed m K.
  Proof.
    apply bool_iff_eq. unfold h_trap, trap_needed. rewrite !existsb_exists. split.
    - intros [[q row] [Hin H]]. apply rows_spec in Hin. destruct Hin as [Hq E]. exists q. split; [exact Hq|].
      apply existsb_exists in H. destruct H as [a [Ha H]]. apply existsb_exists. exists a. split; [exact Ha|].
      simpl in H. rewrite (target_kstep q row a E) in H. exact H.
    - intros [q [Hq H]]. destruct (K_row q Hq) as [row E]. exists (q, row). split; [apply rows_spec; split; assumption|].
      apply existsb_exists in H. destruct H as [a [Ha H]]. apply existsb_exists. exists a. split; [exact Ha|].
      simpl. rewrite (target_kstep q row a E). exact H.
  Qed.

  Lemma Qh_In x : In x Qh <-> match x with Some q => In q K | None => trap_needed m K = true end.
  Proof.
    unfold h_states. rewrite h_trap_eq, in_app_iff, in_map_iff. destruct x as [q|]; split.
    - intros [[y [E Hy]]|H]; [inversion E; subst; exact Hy|]. destruct (trap_needed m K); [destruct H as [H|[]]; discriminate|destruct H].
    - intro H. left. exists q. split; [reflexivity|exact H].
    - intros [[y [E _]]|H]; [discriminate|]. destruct (trap_needed m K); [reflexivity|destruct H].
    - intro H. right. rewrite H. left. reflexivity.
  Qed.

  Lemma Qh_kQ x : In x Qh -> In x (kQ K).
  Proof. intro H. apply Qh_In in H. apply kQ_In. destruct x; [exact H|trivial]. Qed.

  Lemma Qh_nonempty : Qh <> [].
  Proof.
    intro E. assert (H : In (Some (d_init m)) Qh) by (apply Qh_In; apply (gk_init m K HK)). rewrite E in H. destruct H.
  Qed.

  Lemma Qh_closed x a : In a (d_syms m) -> In x Qh -> In (kst x a) Qh.
  Proof.
    intros Ha Hx. apply Qh_In. destruct (kst x a) as [t|] eqn:E.
    - destruct x as [q|]; [|discriminate]. simpl in E. destruct (d_delta m q a) as [t'|]; [|discriminate].
      destruct (memb t' K) eqn:Em; [|discriminate]. inversion E; subst. apply memb_In. exact Em.
    - destruct x as [q|]; [|apply Qh_In in Hx; exact Hx]. apply Qh_In in Hx.
      unfold trap_needed. apply existsb_exists. exists q. split; [exact Hx|].
      apply existsb_exists. exists a. split; [exact Ha|]. rewrite E. reflexivity.
  Qed.

  Lemma h_back_spec a t x : In a (d_syms m) -> In t Qh -> (In x (h_back m K a t) <-> In x Qh /\ kst x a = t).
  Proof.
    intros _ Ht. unfold h_back. rewrite in_app_iff, in_map_iff. destruct x as [q|].
    - split.
      + intros [H|[[q' row] [E Hin]]]; [destruct t; [destruct H|destruct H as [H|[]]; discriminate]|].
        simpl in E. inversion E; subst q'. apply filter_In in Hin. destruct Hin as [Hin Ht'].
        apply rows_spec in Hin. destruct Hin as [Hq Er]. simpl in Ht'.
        apply (eqb_opt_ok _ eqb_nat_ok) in Ht'. rewrite (target_kstep q row a Er) in Ht'.
        split; [apply Qh_In; exact Hq|exact Ht'].
      + intros [Hq E]. apply Qh_In in Hq. destruct (K_row q Hq) as [row Er]. right. exists (q, row).
        split; [reflexivity|]. apply filter_In. split; [apply rows_spec; split; assumption|].
        simpl. apply (eqb_opt_ok _ eqb_nat_ok). rewrite (target_kstep q row a Er). exact E.
    - split.
      + intros [H|[[q' row] [E _]]]; [|discriminate]. destruct t as [t|]; [destruct H|].
        split; [exact Ht|reflexivity].
      + intros [_ E]. simpl in E. subst t. left. left. reflexivity.
  Qed.

  Lemma h_finals_spec x : In x Qh -> (In x (h_finals m K) <-> ofinal m x = true).
  Proof.
    intro Hx. unfold h_finals. rewrite in_map_iff. destruct x as [q|]; simpl.
    - apply Qh_In in Hx. split.
      + intros [q' [E H]]. inversion E; subst. apply filter_In in H. tauto.
      + intro H. exists q. split; [reflexivity|]. apply filter_In. split; assumption.
    - split; [intros [q' [E _]]; discriminate|discriminate].
  Qed.

  Variable sched : nat -> list nat -> nat.
  Variable sord : list nat.
  Hypothesis sord_spec : forall a, In a sord <-> In a (d_syms m).

  Notation cls P := (look oeqb (p_tab P)).

  (* for every schedule and every symbol order: the loop ends, and two items of the refined system
     share a set iff they accept the same words (kept system with its trap) *)
  Theorem h_hopcroft_nerode : exists Pf, h_hopcroft m K sched sord = Some Pf /\
    wf (option nat) oeqb Qh Pf /\
    forall x y, In x Qh -> In y Qh ->
      (cls Pf x = cls Pf y <-> forall w, ofinal m (xrun (option nat) kst x w) = ofinal m (xrun (option nat) kst y w)).
  Proof.
    unfold h_hopcroft.
    exact (hopcroft_nerode (option nat) oeqb (eqb_opt_ok _ eqb_nat_ok) Qh Qh_nonempty kst (ofinal m) (d_syms m)
             (fun x a Ha Hx => Qh_closed x a Ha Hx) (kstep_foreign m Hv K) (h_back m K) h_back_spec
             (h_finals m K) h_finals_spec sord sord_spec sched).
  Qed.

  (* ... which is the partition the specification model computes *)
  Theorem h_hopcroft_moore : exists Pf t, h_hopcroft m K sched sord = Some Pf /\ kmoore m K = Some t /\
    wf (option nat) oeqb Qh Pf /\
    forall x y, In x Qh -> In y Qh -> (cls Pf x = cls Pf y <-> look oeqb t x = look oeqb t y).
  Proof.
    destruct h_hopcroft_nerode as [Pf [E [Hwf Hn]]].
    destruct (moore_nerode (option nat) oeqb (eqb_opt_ok _ eqb_nat_ok) kst (ofinal m)
                (d_syms m) (kQ K) (kQ_closed m K) (kstep_foreign m Hv K)) as [t [Et [Hm _]]].
    exists Pf, t. split; [exact E|]. split; [exact Et|]. split; [exact Hwf|].
    intros x y Hx Hy. rewrite (Hn x y Hx Hy). symmetry. apply Hm; apply Qh_kQ; assumption.
  Qed.

  Theorem hminify_core_eq : hminify_core m K sched sord = minify_core m K.
  Proof.
    destruct h_hopcroft_moore as [Pf [t [E [Et [_ H]]]]]. unfold hminify_core, minify_core. rewrite E, Et.
    apply quotient_ext.
    - apply (gk_init m K HK).
    - intros q r Hq Hr. apply H; apply Qh_In; assumption.
    - intros Hneed q Hq. apply H; apply Qh_In; assumption.
  Qed.
  (* the observable partition (retain_names=True): every block is non-empty and is exactly the set of
     kept states that accept the same words as any of its members; every kept state that is not
     equivalent to the trap lies in a block *)
  Theorem h_blocks_spec : exists Pf, h_hopcroft m K sched sord = Some Pf /\
    (forall B, In B (h_blocks m K Pf) -> B <> [] /\
       forall q1, In q1 B -> forall q2, In q2 B <->
         (In q2 K /\ forall w, dfa_acc_from m (Some q1) w = dfa_acc_from m (Some q2) w)) /\
    (forall q, In q K -> (exists w, dfa_acc_from m (Some q) w = true) -> exists B, In B (h_blocks m K Pf) /\ In q B).
  Proof.
    destruct h_hopcroft_nerode as [Pf [E [Hwf Hn]]]. exists Pf. split; [exact E|].
    assert (Hmem : forall i q, In (Some q) (members oeqb Qh Pf i) <-> In q K /\ cls Pf (Some q) = i).
    { intros i q. rewrite (members_In (option nat) oeqb Qh Pf i (Some q)). rewrite (Qh_In (Some q)). tauto. }
    assert (Hacc : forall q1 q2, In q1 K -> In q2 K ->
              (cls Pf (Some q1) = cls Pf (Some q2) <-> forall w, dfa_acc_from m (Some q1) w = dfa_acc_from m (Some q2) w)).
    { intros q1 q2 H1 H2. rewrite (Hn (Some q1) (Some q2)); [|apply Qh_In; exact H1|apply Qh_In; exact H2].
      split; intros H w; [rewrite <- (kacc m K HK w q1 H1), <- (kacc m K HK w q2 H2)|rewrite (kacc m K HK w q1 H1), (kacc m K HK w q2 H2)]; apply H. }
    split.
    - intros B HB. unfold h_blocks in HB. apply in_map_iff in HB. destruct HB as [Bx [<- HBx]].
      apply filter_In in HBx. destruct HBx as [HBx Hnt]. unfold get_sets in HBx. apply in_map_iff in HBx.
      destruct HBx as [i [<- Hi]]. split.
      + destruct (wf_inh _ _ _ _ Hwf i Hi) as [x [Hx Ex]]. destruct x as [q|].
        * intro E0. assert (Hq : In q (somes (members oeqb Qh Pf i))).
          { apply somes_In. apply Hmem. split; [apply Qh_In in Hx; exact Hx|exact Ex]. }
          rewrite E0 in Hq. destruct Hq.
        * exfalso. apply negb_true_iff in Hnt.
          assert (T : gmem oeqb None (members oeqb Qh Pf i) = true).
          { apply (gmem_In oeqb (eqb_opt_ok _ eqb_nat_ok)). apply (members_In (option nat) oeqb). split; assumption. }
          congruence.
      + intros q1 H1 q2. apply somes_In in H1. apply Hmem in H1. destruct H1 as [H1 E1].
        rewrite somes_In, Hmem. split.
        * intros [H2 E2]. split; [exact H2|]. apply Hacc; [exact H1|exact H2|congruence].
        * intros [H2 H]. split; [exact H2|]. rewrite <- E1. symmetry. apply Hacc; assumption.
    - intros q Hq [w Hw]. set (i := cls Pf (Some q)).
      exists (somes (members oeqb Qh Pf i)). split.
      + unfold h_blocks. apply in_map. apply filter_In. split.
        * unfold get_sets. apply in_map. apply (wf_in _ _ _ _ Hwf (Some q)). apply Qh_In. exact Hq.
        * apply negb_true_iff. destruct (gmem oeqb None (members oeqb Qh Pf i)) eqn:Eg; [exfalso|reflexivity].
          apply (gmem_In oeqb (eqb_opt_ok _ eqb_nat_ok)) in Eg. apply (members_In (option nat) oeqb) in Eg.
          destruct Eg as [HN EN]. unfold i in EN. symmetry in EN.
          pose proof (proj1 (Hn (Some q) None (proj2 (Qh_In (Some q)) Hq) HN) EN w) as T.
          rewrite (kacc m K HK w q Hq), Hw in T. rewrite (krun_None m K w) in T. discriminate.
      + apply somes_In. apply Hmem. split; [exact Hq|reflexivity].
  Qed.
End Concrete.

(* DFA.minify / DFA.to_partial(minify=True) with the Hopcroft refinement: for every schedule and
   every symbol order the very result (automaton and retained-name partition) of the
   specification model *)
Theorem hminify_full_eq m sched sord : valid_dfa m = true -> (forall a, In a sord <-> In a (d_syms m)) ->
  hminify_full m sched sord = minify_full m.
Proof.
  intros Hv Hs. unfold hminify_full, minify_full. destruct (kept_minify_good m Hv) as [K [E HK]]. rewrite E. simpl.
  apply hminify_core_eq; assumption.
Qed.

Theorem hto_partial_min_full_eq m sched sord : valid_dfa m = true -> (forall a, In a sord <-> In a (d_syms m)) ->
  hto_partial_min_full m sched sord = to_partial_min_full m.
Proof.
  intros Hv Hs. unfold hto_partial_min_full, to_partial_min_full. destruct (kept_live_good m Hv) as [K [E [HK _]]].
  rewrite E. simpl. apply hminify_core_eq; assumption.
Qed.

Lemma kept_minify_goodK m K : valid_dfa m = true -> kept_minify m = Ok K -> goodK m K.
Proof. intros Hv E. destruct (kept_minify_good m Hv) as [K' [E' HK]]. rewrite E in E'. inversion E'; subst. exact HK. Qed.

Lemma kept_live_goodK m K : valid_dfa m = true -> kept_live m = Ok K -> goodK m K.
Proof. intros Hv E. destruct (kept_live_good m Hv) as [K' [E' [HK _]]]. rewrite E in E'. inversion E'; subst. exact HK. Qed.
