(* C19 - the checkers of Model/Validate.v against declarative well-formedness.

   Per class:  wf_X      the documented rules, as a Prop over the raw definition
               X_broken  "rule with documented exception kind k is broken", one constructor per rule
   and three lemmas: every check passes <-> wf_X;  a failing check of kind k -> X_broken k;
   wf_X -> nothing is broken.  The theorems (validate = Ok <-> wf, the reported kind is the kind of a
   broken rule, a single broken rule gives exactly its kind) follow generically. *)
From Coq Require Import List Arith Bool Lia.
From AV Require Import Base.Util Spec.Lang Spec.FA Spec.PDA Model.PDA Model.Validate.
Import ListNotations.

(* ------------------------------------------------------------------ generic *)
Lemma first_bad_ok cs : first_bad cs = Ok tt <-> forall c, In c cs -> snd c = true.
Proof.
  induction cs as [|[k b] r IH]; simpl.
  - split; [intros _ c []|reflexivity].
  - destruct b.
    + rewrite IH. split.
      * intros H c [E|Hc]; [subst; reflexivity|apply H; exact Hc].
      * intros H c Hc. apply H. right. exact Hc.
    + split; [discriminate|]. intro H. specialize (H (k, false) (or_introl eq_refl)). discriminate.
Qed.

Lemma first_bad_cases cs :
  first_bad cs = Ok tt \/ exists k, first_bad cs = Err (Invalid k) /\ In (k, false) cs.
Proof.
  induction cs as [|[k b] r IH]; simpl; [left; reflexivity|].
  destruct b.
  - destruct IH as [IH|[k' [E Hin]]]; [left; exact IH|right; exists k'; split; [exact E|right; exact Hin]].
  - right. exists k. split; [reflexivity|left; reflexivity].
Qed.

Lemma first_bad_err cs e : first_bad cs = Err e -> exists k, e = Invalid k /\ In (k, false) cs.
Proof.
  intro H. destruct (first_bad_cases cs) as [E|[k [E Hin]]]; rewrite E in H; [discriminate|].
  inversion H; subst. exists k. split; [reflexivity|exact Hin].
Qed.

Lemma forallb_false {A} (f : A -> bool) l : forallb f l = false -> exists x, In x l /\ f x = false.
Proof.
  induction l as [|x r IH]; simpl; [discriminate|].
  destruct (f x) eqn:E; simpl.
  - intro H. destruct (IH H) as [y [Hy Ey]]. exists y. split; [right; exact Hy|exact Ey].
  - intros _. exists x. split; [left; reflexivity|exact E].
Qed.

Lemma subsetb_false l m : subsetb l m = false -> exists x, In x l /\ ~ In x m.
Proof.
  unfold subsetb. intro H. apply forallb_false in H. destruct H as [x [Hx E]].
  exists x. split; [exact Hx|apply memb_false; exact E].
Qed.

Lemma leb_1_false n : Nat.leb n 1 = false -> 1 < n.
Proof. intro H. apply Nat.leb_gt in H. exact H. Qed.

(* the three generic consequences, for a checker given as a list of checks *)
Section Generic.
  Variable D : Type.
  Variable checks : D -> list check.
  Variable wf : D -> Prop.
  Variable broken : D -> nat -> Prop.
  Hypothesis ok_iff : forall m, (forall c, In c (checks m) -> snd c = true) <-> wf m.
  Hypothesis bad_broken : forall m k, In (k, false) (checks m) -> broken m k.
  Hypothesis wf_sound : forall m k, wf m -> ~ broken m k.

  Lemma g_validate_iff m : first_bad (checks m) = Ok tt <-> wf m.
  Proof. rewrite first_bad_ok. apply ok_iff. Qed.

  Lemma g_err_sound m e : first_bad (checks m) = Err e -> exists k, e = Invalid k /\ broken m k.
  Proof.
    intro H. destruct (first_bad_err _ _ H) as [k [E Hin]]. exists k. split; [exact E|apply bad_broken; exact Hin].
  Qed.

  Lemma g_broken_rejected m k : broken m k -> exists k', first_bad (checks m) = Err (Invalid k') /\ broken m k'.
  Proof.
    intro Hb. destruct (first_bad_cases (checks m)) as [E|[k' [E Hin]]].
    - exfalso. apply (wf_sound m k); [apply g_validate_iff; exact E|exact Hb].
    - exists k'. split; [exact E|apply bad_broken; exact Hin].
  Qed.

  Lemma g_single_rule m k : broken m k -> (forall k', broken m k' -> k' = k) ->
    first_bad (checks m) = Err (Invalid k).
  Proof.
    intros Hb Huniq. destruct (g_broken_rejected m k Hb) as [k' [E Hb']].
    rewrite (Huniq k' Hb') in E. exact E.
  Qed.
End Generic.

(* ------------------------------------------------------------------ DFA *)
Record wf_dfa (m : dfa) : Prop := mk_wf_dfa {
  wd_rows : forall q, In q (d_states m) -> In q (map fst (d_trans m));
  wd_complete : d_partial m = false ->
                forall q row a, In (q, row) (d_trans m) -> In a (d_syms m) -> In a (map fst row);
  wd_syms : forall q row a t, In (q, row) (d_trans m) -> In (a, t) row -> In a (d_syms m);
  wd_ends : forall q row a t, In (q, row) (d_trans m) -> In (a, t) row -> In t (d_states m);
  wd_init : In (d_init m) (d_states m);
  wd_finals : incl (d_finals m) (d_states m) }.

(* the documented rules with the documented exception of each *)
Inductive dfa_broken (m : dfa) : nat -> Prop :=
| db_row q : In q (d_states m) -> ~ In q (map fst (d_trans m)) -> dfa_broken m 3          (* MissingStateError *)
| db_sym_missing q row a : d_partial m = false -> In (q, row) (d_trans m) -> In a (d_syms m) ->
    ~ In a (map fst row) -> dfa_broken m 4                                               (* MissingSymbolError *)
| db_sym q row a t : In (q, row) (d_trans m) -> In (a, t) row -> ~ In a (d_syms m) -> dfa_broken m 2   (* InvalidSymbolError *)
| db_end q row a t : In (q, row) (d_trans m) -> In (a, t) row -> ~ In t (d_states m) -> dfa_broken m 1 (* InvalidStateError *)
| db_init : ~ In (d_init m) (d_states m) -> dfa_broken m 1
| db_final q : In q (d_finals m) -> ~ In q (d_states m) -> dfa_broken m 1.

Lemma dfa_checks_In m c :
  In c (dfa_checks m) <->
  c = (3, forallb (fun q => memb q (map fst (d_trans m))) (d_states m)) \/
  (exists qr, In qr (d_trans m) /\ In c (dfa_row_checks m (snd qr))) \/
  c = (1, memb (d_init m) (d_states m)) \/ c = (1, subsetb (d_finals m) (d_states m)).
Proof.
  unfold dfa_checks. simpl. rewrite in_app_iff, in_flat_map. simpl.
  split.
  - intros [H|[H|[H|[H|[]]]]]; auto.
  - intros [H|[H|[H|H]]]; auto.
Qed.

Lemma dfa_checks_ok_iff m : (forall c, In c (dfa_checks m) -> snd c = true) <-> wf_dfa m.
Proof.
  split.
  - intro H. constructor.
    + intros q Hq. apply memb_In.
      assert (E := H _ (proj2 (dfa_checks_In m _) (or_introl eq_refl))). simpl in E.
      rewrite forallb_forall in E. apply E. exact Hq.
    + intros Hp q row a Hrow Ha.
      assert (E := H (4, d_partial m || forallb (fun a => memb a (map fst row)) (d_syms m))).
      simpl in E. rewrite Hp in E. simpl in E.
      assert (E' : forallb (fun a0 => memb a0 (map fst row)) (d_syms m) = true).
      { apply E. apply dfa_checks_In. right. left. exists (q, row). split; [exact Hrow|]. simpl. rewrite Hp. simpl. auto. }
      rewrite forallb_forall in E'. apply memb_In. apply E'. exact Ha.
    + intros q row a t Hrow Hat.
      assert (E : forallb (fun p => memb (fst p) (d_syms m)) row = true).
      { apply (H (2, _)). apply dfa_checks_In. right. left. exists (q, row). split; [exact Hrow|]. simpl. auto. }
      rewrite forallb_forall in E. apply memb_In. apply (E (a, t)). exact Hat.
    + intros q row a t Hrow Hat.
      assert (E : forallb (fun p => memb (snd p) (d_states m)) row = true).
      { apply (H (1, _)). apply dfa_checks_In. right. left. exists (q, row). split; [exact Hrow|]. simpl. auto. }
      rewrite forallb_forall in E. apply memb_In. apply (E (a, t)). exact Hat.
    + apply memb_In. apply (H (1, _)). apply dfa_checks_In. right. right. left. reflexivity.
    + apply subsetb_incl. apply (H (1, _)). apply dfa_checks_In. right. right. right. reflexivity.
  - intros [H1 H2 H3 H4 H5 H6] c Hc. apply dfa_checks_In in Hc.
    destruct Hc as [Hc|[[[q row] [Hrow Hc]]|[Hc|Hc]]]; subst; simpl.
    + apply forallb_forall. intros q Hq. apply memb_In. apply H1. exact Hq.
    + simpl in Hc. destruct Hc as [Hc|[Hc|[Hc|[]]]]; subst; simpl.
      * destruct (d_partial m) eqn:Hp; [reflexivity|]. simpl. apply forallb_forall. intros a Ha.
        apply memb_In. eapply H2; eauto.
      * apply forallb_forall. intros [a t] Hat. apply memb_In. simpl. eapply H3; eauto.
      * apply forallb_forall. intros [a t] Hat. apply memb_In. simpl. eapply H4; eauto.
    + apply memb_In. exact H5.
    + apply subsetb_incl. exact H6.
Qed.

Lemma dfa_bad_broken m k : In (k, false) (dfa_checks m) -> dfa_broken m k.
Proof.
  intro Hc. apply dfa_checks_In in Hc.
  destruct Hc as [Hc|[[[q row] [Hrow Hc]]|[Hc|Hc]]].
  - inversion Hc as [[Ek E]]. symmetry in E. apply forallb_false in E. destruct E as [q [Hq E]].
    apply (db_row m q Hq). apply memb_false. exact E.
  - simpl in Hc. destruct Hc as [Hc|[Hc|[Hc|[]]]]; inversion Hc as [[Ek E]].
    + apply orb_false_iff in E. destruct E as [Hp E]. apply forallb_false in E. destruct E as [a [Ha E]].
      apply (db_sym_missing m q row a Hp Hrow Ha). apply memb_false. exact E.
    + apply forallb_false in E. destruct E as [[a t] [Hat E]]. simpl in E.
      apply (db_sym m q row a t Hrow Hat). apply memb_false. exact E.
    + apply forallb_false in E. destruct E as [[a t] [Hat E]]. simpl in E.
      apply (db_end m q row a t Hrow Hat). apply memb_false. exact E.
  - inversion Hc as [[Ek E]]. symmetry in E. apply db_init. apply memb_false. exact E.
  - inversion Hc as [[Ek E]]. symmetry in E. apply subsetb_false in E. destruct E as [q [Hq Hn]].
    exact (db_final m q Hq Hn).
Qed.

Lemma wf_dfa_sound m k : wf_dfa m -> ~ dfa_broken m k.
Proof.
  intros [H1 H2 H3 H4 H5 H6] Hb. inversion Hb; subst.
  - match goal with H : ~ In _ (map fst (d_trans m)) |- _ => apply H end. apply H1. assumption.
  - match goal with H : ~ In _ (map fst _) |- _ => apply H end. eapply H2; eassumption.
  - match goal with H : ~ In _ (d_syms m) |- _ => apply H end. eapply H3; eassumption.
  - match goal with H : ~ In _ (d_states m) |- _ => apply H end. eapply H4; eassumption.
  - match goal with H : ~ In _ (d_states m) |- _ => apply H end. exact H5.
  - match goal with H : ~ In _ (d_states m) |- _ => apply H end. apply H6. assumption.
Qed.

Theorem dfa_validate_iff_wf m : dfa_validate m = Ok tt <-> wf_dfa m.
Proof. exact (g_validate_iff dfa dfa_checks wf_dfa dfa_checks_ok_iff m). Qed.

Theorem dfa_validate_err_sound m e : dfa_validate m = Err e -> exists k, e = Invalid k /\ dfa_broken m k.
Proof. exact (g_err_sound dfa dfa_checks dfa_broken dfa_bad_broken m e). Qed.

Theorem dfa_broken_rejected m k : dfa_broken m k -> exists k', dfa_validate m = Err (Invalid k') /\ dfa_broken m k'.
Proof. exact (g_broken_rejected dfa dfa_checks wf_dfa dfa_broken dfa_checks_ok_iff dfa_bad_broken wf_dfa_sound m k). Qed.

Theorem dfa_single_rule_kind m k : dfa_broken m k -> (forall k', dfa_broken m k' -> k' = k) ->
  dfa_validate m = Err (Invalid k).
Proof. exact (g_single_rule dfa dfa_checks wf_dfa dfa_broken dfa_checks_ok_iff dfa_bad_broken wf_dfa_sound m k). Qed.

(* valid_dfa of Spec/FA.v = "no duplicate keys" + "the constructor accepts" *)
Theorem valid_dfa_agrees m : valid_dfa m = true <-> dfa_keys_ok m = true /\ dfa_validate m = Ok tt.
Proof.
  rewrite dfa_validate_iff_wf. unfold valid_dfa, dfa_keys_ok.
  repeat rewrite andb_true_iff. repeat rewrite forallb_forall.
  split.
  - intros [[[[[[N1 N2] N3] R] Rows] I] F].
    split.
    + repeat split; try assumption. intros [q row] Hrow. simpl.
      specialize (Rows (q, row) Hrow). unfold row_ok in Rows. simpl in Rows.
      repeat rewrite andb_true_iff in Rows. tauto.
    + constructor.
      * intros q Hq. apply memb_In. apply R. exact Hq.
      * intros Hp q row a Hrow Ha. specialize (Rows (q, row) Hrow). unfold row_ok in Rows. simpl in Rows.
        repeat rewrite andb_true_iff in Rows. destruct Rows as [_ C]. rewrite Hp in C. simpl in C.
        rewrite forallb_forall in C. apply memb_In. apply C. exact Ha.
      * intros q row a t Hrow Hat. specialize (Rows (q, row) Hrow). unfold row_ok in Rows. simpl in Rows.
        repeat rewrite andb_true_iff in Rows. destruct Rows as [[_ C] _].
        rewrite forallb_forall in C. specialize (C (a, t) Hat). simpl in C. apply andb_true_iff in C.
        apply memb_In. tauto.
      * intros q row a t Hrow Hat. specialize (Rows (q, row) Hrow). unfold row_ok in Rows. simpl in Rows.
        repeat rewrite andb_true_iff in Rows. destruct Rows as [[_ C] _].
        rewrite forallb_forall in C. specialize (C (a, t) Hat). simpl in C. apply andb_true_iff in C.
        apply memb_In. tauto.
      * apply memb_In. exact I.
      * apply subsetb_incl. exact F.
  - intros [[[[N1 N2] N3] N4] [H1 H2 H3 H4 H5 H6]].
    repeat split; try assumption.
    + intros q Hq. apply memb_In. apply H1. exact Hq.
    + intros [q row] Hrow. simpl. unfold row_ok. repeat rewrite andb_true_iff. repeat split.
      * exact (N4 (q, row) Hrow).
      * apply forallb_forall. intros [a t] Hat. simpl. apply andb_true_iff. split; apply memb_In.
        -- eapply H3; eauto.
        -- eapply H4; eauto.
      * destruct (d_partial m) eqn:Hp; [reflexivity|]. simpl. apply forallb_forall. intros a Ha.
        apply memb_In. eapply H2; eauto.
    + apply memb_In. exact H5.
    + apply subsetb_incl. exact H6.
Qed.

(* ------------------------------------------------------------------ NFA *)
Record wf_nfa (m : nfa) : Prop := mk_wf_nfa {
  wn_syms : forall q row a ts, In (q, row) (n_trans m) -> In (Some a, ts) row -> In a (n_syms m);
  wn_ends : forall q row a ts t, In (q, row) (n_trans m) -> In (a, ts) row -> In t ts -> In t (n_states m);
  wn_init : In (n_init m) (n_states m);
  wn_init_row : In (n_init m) (map fst (n_trans m)) \/ length (n_states m) <= 1;
  wn_finals : incl (n_finals m) (n_states m) }.

Inductive nfa_broken (m : nfa) : nat -> Prop :=
| nb_sym q row a ts : In (q, row) (n_trans m) -> In (Some a, ts) row -> ~ In a (n_syms m) -> nfa_broken m 2
| nb_end q row a ts t : In (q, row) (n_trans m) -> In (a, ts) row -> In t ts -> ~ In t (n_states m) -> nfa_broken m 1
| nb_init : ~ In (n_init m) (n_states m) -> nfa_broken m 1
| nb_init_row : ~ In (n_init m) (map fst (n_trans m)) -> 1 < length (n_states m) -> nfa_broken m 3   (* MissingStateError *)
| nb_final q : In q (n_finals m) -> ~ In q (n_states m) -> nfa_broken m 1.

Lemma nfa_checks_In m c :
  In c (nfa_checks m) <->
  (exists qr, In qr (n_trans m) /\ In c (nfa_row_checks m (snd qr))) \/
  c = (1, memb (n_init m) (n_states m)) \/
  c = (3, memb (n_init m) (map fst (n_trans m)) || Nat.leb (length (n_states m)) 1) \/
  c = (1, subsetb (n_finals m) (n_states m)).
Proof.
  unfold nfa_checks. rewrite in_app_iff, in_flat_map. simpl.
  split.
  - intros [H|[H|[H|[H|[]]]]]; auto.
  - intros [H|[H|[H|H]]]; auto.
Qed.

Lemma osym_ok_Some syms a : osym_ok syms (Some a) = memb a syms.
Proof. reflexivity. Qed.

Lemma nfa_checks_ok_iff m : (forall c, In c (nfa_checks m) -> snd c = true) <-> wf_nfa m.
Proof.
  split.
  - intro H. constructor.
    + intros q row a ts Hrow Hat.
      assert (E : forallb (fun p => osym_ok (n_syms m) (fst p)) row = true).
      { apply (H (2, _)). apply nfa_checks_In. left. exists (q, row). split; [exact Hrow|]. simpl. auto. }
      rewrite forallb_forall in E. apply memb_In. apply (E (Some a, ts)). exact Hat.
    + intros q row a ts t Hrow Hat Ht.
      assert (E : forallb (fun p => subsetb (snd p) (n_states m)) row = true).
      { apply (H (1, _)). apply nfa_checks_In. left. exists (q, row). split; [exact Hrow|]. simpl. auto. }
      rewrite forallb_forall in E. specialize (E (a, ts) Hat). simpl in E.
      apply subsetb_incl in E. apply E. exact Ht.
    + apply memb_In. apply (H (1, _)). apply nfa_checks_In. right. left. reflexivity.
    + assert (E := H (3, _) (proj2 (nfa_checks_In m _) (or_intror (or_intror (or_introl eq_refl))))).
      simpl in E. apply orb_true_iff in E. destruct E as [E|E].
      * left. apply memb_In. exact E.
      * right. apply Nat.leb_le. exact E.
    + apply subsetb_incl. apply (H (1, _)). apply nfa_checks_In. right. right. right. reflexivity.
  - intros [H1 H2 H3 H4 H5] c Hc. apply nfa_checks_In in Hc.
    destruct Hc as [[[q row] [Hrow Hc]]|[Hc|[Hc|Hc]]]; subst; simpl.
    + simpl in Hc. destruct Hc as [Hc|[Hc|[]]]; subst; simpl.
      * apply forallb_forall. intros [[a|] ts] Hat; simpl; [|reflexivity]. apply memb_In. eapply H1; eauto.
      * apply forallb_forall. intros [a ts] Hat. simpl. apply subsetb_incl. intros t Ht. eapply H2; eauto.
    + apply memb_In. exact H3.
    + apply orb_true_iff. destruct H4 as [H4|H4]; [left; apply memb_In; exact H4|right; apply Nat.leb_le; exact H4].
    + apply subsetb_incl. exact H5.
Qed.

Lemma nfa_bad_broken m k : In (k, false) (nfa_checks m) -> nfa_broken m k.
Proof.
  intro Hc. apply nfa_checks_In in Hc.
  destruct Hc as [[[q row] [Hrow Hc]]|[Hc|[Hc|Hc]]].
  - simpl in Hc. destruct Hc as [Hc|[Hc|[]]]; inversion Hc as [[Ek E]].
    + apply forallb_false in E. destruct E as [[[a|] ts] [Hat E]]; simpl in E; [|discriminate].
      apply (nb_sym m q row a ts Hrow Hat). apply memb_false. exact E.
    + apply forallb_false in E. destruct E as [[a ts] [Hat E]]. simpl in E.
      apply subsetb_false in E. destruct E as [t [Ht Hn]].
      exact (nb_end m q row a ts t Hrow Hat Ht Hn).
  - inversion Hc as [[Ek E]]. symmetry in E. apply nb_init. apply memb_false. exact E.
  - inversion Hc as [[Ek E]]. symmetry in E. apply orb_false_iff in E. destruct E as [E1 E2].
    apply nb_init_row; [apply memb_false; exact E1|apply leb_1_false; exact E2].
  - inversion Hc as [[Ek E]]. symmetry in E. apply subsetb_false in E. destruct E as [q [Hq Hn]].
    exact (nb_final m q Hq Hn).
Qed.

Lemma wf_nfa_sound m k : wf_nfa m -> ~ nfa_broken m k.
Proof.
  intros [H1 H2 H3 H4 H5] Hb. inversion Hb; subst.
  - match goal with H : ~ In _ (n_syms m) |- _ => apply H end. eapply H1; eassumption.
  - match goal with H : ~ In _ (n_states m) |- _ => apply H end. eapply H2; eassumption.
  - match goal with H : ~ In _ (n_states m) |- _ => apply H end. exact H3.
  - destruct H4 as [H4|H4]; [contradiction|lia].
  - match goal with H : ~ In _ (n_states m) |- _ => apply H end. apply H5. assumption.
Qed.

Theorem nfa_validate_iff_wf m : nfa_validate m = Ok tt <-> wf_nfa m.
Proof. exact (g_validate_iff nfa nfa_checks wf_nfa nfa_checks_ok_iff m). Qed.

Theorem nfa_validate_err_sound m e : nfa_validate m = Err e -> exists k, e = Invalid k /\ nfa_broken m k.
Proof. exact (g_err_sound nfa nfa_checks nfa_broken nfa_bad_broken m e). Qed.

Theorem nfa_broken_rejected m k : nfa_broken m k -> exists k', nfa_validate m = Err (Invalid k') /\ nfa_broken m k'.
Proof. exact (g_broken_rejected nfa nfa_checks wf_nfa nfa_broken nfa_checks_ok_iff nfa_bad_broken wf_nfa_sound m k). Qed.

Theorem nfa_single_rule_kind m k : nfa_broken m k -> (forall k', nfa_broken m k' -> k' = k) ->
  nfa_validate m = Err (Invalid k).
Proof. exact (g_single_rule nfa nfa_checks wf_nfa nfa_broken nfa_checks_ok_iff nfa_bad_broken wf_nfa_sound m k). Qed.

Theorem valid_nfa_agrees m : valid_nfa m = true <-> nfa_keys_ok m = true /\ nfa_validate m = Ok tt.
Proof.
  rewrite nfa_validate_iff_wf. unfold valid_nfa, nfa_keys_ok.
  repeat rewrite andb_true_iff. rewrite forallb_forall. rewrite orb_true_iff.
  split.
  - intros [[[[[[N1 N2] N3] Rows] I] IR] F].
    split; [repeat split; assumption|]. constructor.
    + intros q row a ts Hrow Hat. specialize (Rows (q, row) Hrow). unfold nrow_ok in Rows. simpl in Rows.
      rewrite forallb_forall in Rows. specialize (Rows (Some a, ts) Hat). simpl in Rows.
      apply andb_true_iff in Rows. apply memb_In. tauto.
    + intros q row a ts t Hrow Hat Ht. specialize (Rows (q, row) Hrow). unfold nrow_ok in Rows. simpl in Rows.
      rewrite forallb_forall in Rows. specialize (Rows (a, ts) Hat). simpl in Rows.
      apply andb_true_iff in Rows. destruct Rows as [_ S]. apply subsetb_incl in S. apply S. exact Ht.
    + apply memb_In. exact I.
    + destruct IR as [E|E]; [left; apply memb_In; exact E|right; apply Nat.leb_le; exact E].
    + apply subsetb_incl. exact F.
  - intros [[[N1 N2] N3] [H1 H2 H3 H4 H5]].
    repeat split; try assumption.
    + intros [q row] Hrow. simpl. unfold nrow_ok. apply forallb_forall. intros [a ts] Hat. simpl.
      apply andb_true_iff. split.
      * destruct a as [a|]; [|reflexivity]. apply memb_In. eapply H1; eauto.
      * apply subsetb_incl. intros t Ht. eapply H2; eauto.
    + apply memb_In. exact H3.
    + destruct H4 as [H4|H4]; [left; apply memb_In; exact H4|right; apply Nat.leb_le; exact H4].
    + apply subsetb_incl. exact H5.
Qed.

(* ------------------------------------------------------------------ PDA *)
Lemma oassoc_In' {B} a (row : list (option nat * B)) v : oassoc a row = Some v -> In (a, v) row.
Proof.
  induction row as [|[k x] r IH]; simpl; [discriminate|].
  destruct (eqb_opt Nat.eqb a k) eqn:E.
  - apply (eqb_opt_ok _ eqb_nat_ok) in E. subst. intro H. inversion H. left. reflexivity.
  - intro H. right. apply IH. exact H.
Qed.

(* rules shared by both classes: keys of the table, initial data, final states, acceptance mode *)
Record wf_npda (m : pda) (mode : nat) : Prop := mk_wf_npda {
  wp_in : forall q row a tops, In (q, row) (p_trans m) -> In (Some a, tops) row -> In a (p_syms m);
  wp_stack : forall q row a tops Z, In (q, row) (p_trans m) -> In (a, tops) row -> In Z (map fst tops) ->
             In Z (p_stack_syms m);
  wp_init : In (p_init m) (p_states m);
  wp_init_stack : In (p_init_stack m) (p_stack_syms m);
  wp_finals : incl (p_finals m) (p_states m);
  wp_mode : mode <= 2 }.

(* DPDA: additionally no state has an empty-string move and a symbol move under the same stack top *)
Definition no_lambda_clash (m : pda) : Prop :=
  forall q (row : prow) a (tops eps : ptops) Z, In (q, row) (p_trans m) -> oassoc None row = Some eps ->
    In (Some a, tops) row -> In Z (map fst tops) -> ~ In Z (map fst eps).

Definition wf_dpda (m : pda) (mode : nat) : Prop := wf_npda m mode /\ no_lambda_clash m.

Lemma pda_tail_In m mode c :
  In c (pda_tail_checks m mode) <->
  c = (1, memb (p_init m) (p_states m)) \/ c = (2, memb (p_init_stack m) (p_stack_syms m)) \/
  c = (1, subsetb (p_finals m) (p_states m)) \/ c = (21, Nat.leb mode 2).
Proof.
  unfold pda_tail_checks. simpl. split.
  - intros [H|[H|[H|[H|[]]]]]; auto.
  - intros [H|[H|[H|H]]]; auto.
Qed.

Lemma npda_row_In m row c :
  In c (npda_row_checks m row) <->
  exists ar, In ar row /\ (c = (2, osym_ok (p_syms m) (fst ar)) \/
                           exists Z, In Z (map fst (snd ar)) /\ c = (2, memb Z (p_stack_syms m))).
Proof.
  unfold npda_row_checks. rewrite in_flat_map. split.
  - intros [ar [Har [H|H]]]; exists ar; (split; [exact Har|]).
    + left. symmetry. exact H.
    + right. apply in_map_iff in H. destruct H as [Z [E HZ]]. exists Z. split; [exact HZ|symmetry; exact E].
  - intros [ar [Har [H|[Z [HZ H]]]]]; exists ar; (split; [exact Har|]).
    + left. symmetry. exact H.
    + right. apply in_map_iff. exists Z. split; [symmetry; exact H|exact HZ].
Qed.

Lemma dpda_row_In m row c :
  In c (dpda_row_checks m row) <->
  exists ar, In ar row /\ (c = (2, osym_ok (p_syms m) (fst ar)) \/
                           exists Z, In Z (map fst (snd ar)) /\
                                     (c = (20, det_isolated_ok row (fst ar)) \/ c = (2, memb Z (p_stack_syms m)))).
Proof.
  unfold dpda_row_checks. rewrite in_flat_map. split.
  - intros [ar [Har [H|H]]]; exists ar; (split; [exact Har|]).
    + left. symmetry. exact H.
    + right. apply in_flat_map in H. destruct H as [Z [HZ [H|[H|[]]]]]; exists Z; (split; [exact HZ|]).
      * left. symmetry. exact H.
      * right. symmetry. exact H.
  - intros [ar [Har [H|[Z [HZ H]]]]]; exists ar; (split; [exact Har|]).
    + left. symmetry. exact H.
    + right. apply in_flat_map. exists Z. split; [exact HZ|]. simpl. destruct H as [H|H]; [left|right; left]; symmetry; exact H.
Qed.

Lemma tail_ok_iff m mode :
  (forall c, In c (pda_tail_checks m mode) -> snd c = true) <->
  In (p_init m) (p_states m) /\ In (p_init_stack m) (p_stack_syms m) /\ incl (p_finals m) (p_states m) /\ mode <= 2.
Proof.
  split.
  - intro H. repeat split.
    + apply memb_In. apply (H (1, _)). apply pda_tail_In. auto.
    + apply memb_In. apply (H (2, _)). apply pda_tail_In. auto.
    + apply subsetb_incl. apply (H (1, _)). apply pda_tail_In. auto.
    + apply Nat.leb_le. apply (H (21, _)). apply pda_tail_In. auto.
  - intros [H1 [H2 [H3 H4]]] c Hc. apply pda_tail_In in Hc. destruct Hc as [Hc|[Hc|[Hc|Hc]]]; subst; simpl.
    + apply memb_In. exact H1.
    + apply memb_In. exact H2.
    + apply subsetb_incl. exact H3.
    + apply Nat.leb_le. exact H4.
Qed.

Lemma npda_checks_ok_iff m mode : (forall c, In c (npda_checks m mode) -> snd c = true) <-> wf_npda m mode.
Proof.
  unfold npda_checks. split.
  - intro H.
    assert (Ht : forall c, In c (pda_tail_checks m mode) -> snd c = true).
    { intros c Hc. apply H. apply in_app_iff. right. exact Hc. }
    apply tail_ok_iff in Ht. destruct Ht as [T1 [T2 [T3 T4]]].
    assert (Hr : forall q row c, In (q, row) (p_trans m) -> In c (npda_row_checks m row) -> snd c = true).
    { intros q row c Hrow Hc. apply H. apply in_app_iff. left. apply in_flat_map. exists (q, row). split; assumption. }
    constructor; try assumption.
    + intros q row a tops Hrow Hat. apply memb_In.
      apply (Hr q row (2, osym_ok (p_syms m) (Some a)) Hrow). apply npda_row_In. exists (Some a, tops). split; [exact Hat|left; reflexivity].
    + intros q row a tops Z Hrow Hat HZ. apply memb_In.
      apply (Hr q row (2, memb Z (p_stack_syms m)) Hrow). apply npda_row_In. exists (a, tops). split; [exact Hat|right]. exists Z. split; [exact HZ|reflexivity].
  - intros [H1 H2 H3 H4 H5 H6] c Hc. apply in_app_iff in Hc. destruct Hc as [Hc|Hc].
    + apply in_flat_map in Hc. destruct Hc as [[q row] [Hrow Hc]]. simpl in Hc.
      apply npda_row_In in Hc. destruct Hc as [[a tops] [Hat [Hc|[Z [HZ Hc]]]]]; subst; simpl.
      * destruct a as [a|]; [|reflexivity]. apply memb_In. eapply H1; eauto.
      * apply memb_In. eapply H2; eauto.
    + revert c Hc. apply tail_ok_iff. auto.
Qed.

Lemma det_isolated_ok_iff (row : prow) :
  (forall ar Z, In ar row -> In Z (map fst (snd ar)) -> det_isolated_ok row (fst ar) = true) <->
  (forall a (tops eps : ptops) Z, oassoc None row = Some eps -> In (Some a, tops) row -> In Z (map fst tops) ->
                        ~ In Z (map fst eps)).
Proof.
  split.
  - intros H a tops eps Z He Hat HZ HZe.
    pose proof (oassoc_In' _ _ _ He) as Hin.
    specialize (H (None, eps) Z Hin HZe). unfold det_isolated_ok in H. simpl in H. rewrite He in H.
    rewrite forallb_forall in H. specialize (H (Some a, tops) Hat). simpl in H.
    unfold det_sibling_ok in H. rewrite forallb_forall in H. specialize (H Z HZ).
    apply negb_true_iff in H. apply memb_false in H. contradiction.
  - intros H [[a|] tops] Z Har HZ; unfold det_isolated_ok; simpl; [reflexivity|].
    destruct (oassoc None row) as [eps|] eqn:He; [|reflexivity].
    apply forallb_forall. intros [[b|] tops'] Hb; simpl; [|reflexivity].
    unfold det_sibling_ok. apply forallb_forall. intros Z' HZ'. apply negb_true_iff. apply memb_false.
    eapply H; eauto.
Qed.

Lemma dpda_checks_ok_iff m mode : (forall c, In c (dpda_checks m mode) -> snd c = true) <-> wf_dpda m mode.
Proof.
  unfold dpda_checks, wf_dpda. split.
  - intro H.
    assert (Ht : forall c, In c (pda_tail_checks m mode) -> snd c = true).
    { intros c Hc. apply H. apply in_app_iff. right. exact Hc. }
    apply tail_ok_iff in Ht. destruct Ht as [T1 [T2 [T3 T4]]].
    assert (Hr : forall q row c, In (q, row) (p_trans m) -> In c (dpda_row_checks m row) -> snd c = true).
    { intros q row c Hrow Hc. apply H. apply in_app_iff. left. apply in_flat_map. exists (q, row). split; assumption. }
    split; [constructor; try assumption|].
    + intros q row a tops Hrow Hat. apply memb_In.
      apply (Hr q row (2, osym_ok (p_syms m) (Some a)) Hrow). apply dpda_row_In. exists (Some a, tops). split; [exact Hat|left; reflexivity].
    + intros q row a tops Z Hrow Hat HZ. apply memb_In.
      apply (Hr q row (2, memb Z (p_stack_syms m)) Hrow). apply dpda_row_In. exists (a, tops). split; [exact Hat|right]. exists Z. split; [exact HZ|right; reflexivity].
    + intros q row a tops eps Z Hrow. revert a tops eps Z. apply det_isolated_ok_iff.
      intros ar Z Har HZ. apply (Hr q row (20, det_isolated_ok row (fst ar)) Hrow).
      apply dpda_row_In. exists ar. split; [exact Har|right]. exists Z. split; [exact HZ|left; reflexivity].
  - intros [[H1 H2 H3 H4 H5 H6] Hd] c Hc. apply in_app_iff in Hc. destruct Hc as [Hc|Hc].
    + apply in_flat_map in Hc. destruct Hc as [[q row] [Hrow Hc]]. simpl in Hc.
      apply dpda_row_In in Hc. destruct Hc as [[a tops] [Hat [Hc|[Z [HZ [Hc|Hc]]]]]]; subst; simpl.
      * destruct a as [a|]; [|reflexivity]. apply memb_In. eapply H1; eauto.
      * apply (proj2 (det_isolated_ok_iff row)) with (ar := (a, tops)) (Z := Z); [|exact Hat|exact HZ].
        intros a' tops' eps Z'. apply (Hd q row a' tops' eps Z' Hrow).
      * apply memb_In. eapply H2; eauto.
    + revert c Hc. apply tail_ok_iff. auto.
Qed.

Theorem npda_validate_iff_wf m mode : npda_validate m mode = Ok tt <-> wf_npda m mode.
Proof. unfold npda_validate. rewrite first_bad_ok. apply npda_checks_ok_iff. Qed.

Theorem dpda_validate_iff_wf m mode : dpda_validate_raw m mode = Ok tt <-> wf_dpda m mode.
Proof. unfold dpda_validate_raw. rewrite first_bad_ok. apply dpda_checks_ok_iff. Qed.

(* kinds a PDA constructor can raise *)
Lemma pda_kinds m mode e : npda_validate m mode = Err e \/ dpda_validate_raw m mode = Err e ->
  e = Invalid 1 \/ e = Invalid 2 \/ e = Invalid 20 \/ e = Invalid 21.
Proof.
  assert (T : forall k b, In (k, b) (pda_tail_checks m mode) -> k = 1 \/ k = 2 \/ k = 20 \/ k = 21).
  { intros k b Hc. apply pda_tail_In in Hc. destruct Hc as [Hc|[Hc|[Hc|Hc]]]; inversion Hc; auto. }
  intros [H|H]; apply first_bad_err in H; destruct H as [k [-> Hin]]; apply in_app_iff in Hin;
    destruct Hin as [Hin|Hin]; try (destruct (T _ _ Hin) as [-> | [-> | [-> | ->]]]; auto);
    apply in_flat_map in Hin; destruct Hin as [[q row] [_ Hin]]; simpl in Hin.
  - apply npda_row_In in Hin. destruct Hin as [ar [_ [Hc|[Z [_ Hc]]]]]; inversion Hc; auto.
  - apply dpda_row_In in Hin. destruct Hin as [ar [_ [Hc|[Z [_ [Hc|Hc]]]]]]; inversion Hc; auto.
Qed.

(* ------------------------------------------------------------------ Turing machines *)
Record wf_tm (m : rtm) : Prop := mk_wf_tm {
  wt_input : incl (t_insyms m) (t_tapesyms m) /\ exists s, In s (t_tapesyms m) /\ ~ In s (t_insyms m);
  wt_blank : In (t_blank m) (t_tapesyms m);
  wt_rows : forall q row, In (q, row) (t_trans m) -> In q (t_states m);
  wt_keys : forall q row key rs s, In (q, row) (t_trans m) -> In (key, rs) row -> In s key -> In s (t_tapesyms m);
  wt_results : forall q row key rs q' mvs w d, In (q, row) (t_trans m) -> In (key, rs) row -> In (q', mvs) rs ->
               In (w, d) mvs -> In q' (t_states m) /\ In w (t_tapesyms m) /\ d <= 2;
  wt_init : In (t_init m) (t_states m);
  wt_init_row : In (t_init m) (map fst (t_trans m)) \/ length (t_states m) <= 1;
  wt_init_nonfinal : ~ In (t_init m) (t_finals m);
  wt_finals : incl (t_finals m) (t_states m);
  wt_final_rows : forall f, In f (t_finals m) -> ~ In f (map fst (t_trans m)) }.

(* MNTM: additionally every key and every result has exactly n components *)
Definition wf_mntm (n : nat) (m : rtm) : Prop :=
  wf_tm m /\ forall q row key rs, In (q, row) (t_trans m) -> In (key, rs) row ->
                length key = n /\ forall r, In r rs -> length (snd r) = n.

Lemma tm_row_In m q row c :
  In c (tm_row_checks m q row) <->
  c = (1, memb q (t_states m)) \/
  (exists kr s, In kr row /\ In s (fst kr) /\ c = (2, memb s (t_tapesyms m))) \/
  (exists kr r mv, In kr row /\ In r (snd kr) /\ In mv (snd r) /\
     (c = (1, memb (fst r) (t_states m)) \/ c = (2, memb (fst mv) (t_tapesyms m)) \/ c = (30, Nat.leb (snd mv) 2))).
Proof.
  unfold tm_row_checks. simpl. rewrite in_app_iff, in_map_iff, in_flat_map.
  split.
  - intros [H|[[s [E Hs]]|[kr [Hkr H]]]].
    + left. symmetry. exact H.
    + right. left. apply in_concat in Hs. destruct Hs as [key [Hkey Hs]]. apply in_map_iff in Hkey.
      destruct Hkey as [kr [Ek Hkr]]. subst key. exists kr, s. repeat split; [exact Hkr|exact Hs|symmetry; exact E].
    + right. right. apply in_flat_map in H. destruct H as [r [Hr H]]. unfold tm_result_checks in H.
      apply in_flat_map in H. destruct H as [mv [Hmv H]]. exists kr, r, mv. repeat split; try assumption.
      simpl in H. destruct H as [H|[H|[H|[]]]]; [left|right; left|right; right]; symmetry; exact H.
  - intros [H|[[kr [s [Hkr [Hs H]]]]|[kr [r [mv [Hkr [Hr [Hmv H]]]]]]]].
    + left. symmetry. exact H.
    + right. left. exists s. split; [symmetry; exact H|]. apply in_concat. exists (fst kr). split; [|exact Hs].
      apply in_map. exact Hkr.
    + right. right. exists kr. split; [exact Hkr|]. apply in_flat_map. exists r. split; [exact Hr|].
      unfold tm_result_checks. apply in_flat_map. exists mv. split; [exact Hmv|]. simpl.
      destruct H as [H|[H|H]]; [left|right; left|right; right; left]; symmetry; exact H.
Qed.

Definition tm_tail_checks (m : rtm) : list check :=
  [(1, memb (t_init m) (t_states m));
   (3, memb (t_init m) (map fst (t_trans m)) || Nat.leb (length (t_states m)) 1);
   (5, negb (memb (t_init m) (t_finals m)));
   (1, subsetb (t_finals m) (t_states m));
   (6, forallb (fun f => negb (memb f (map fst (t_trans m)))) (t_finals m))].

Lemma tm_checks_In m c :
  In c (tm_checks m) <->
  c = (4, subsetb (t_insyms m) (t_tapesyms m) && negb (subsetb (t_tapesyms m) (t_insyms m))) \/
  c = (2, memb (t_blank m) (t_tapesyms m)) \/
  (exists qr, In qr (t_trans m) /\ In c (tm_row_checks m (fst qr) (snd qr))) \/
  In c (tm_tail_checks m).
Proof.
  unfold tm_checks. rewrite in_app_iff. simpl. rewrite in_app_iff, in_flat_map. fold (tm_tail_checks m).
  split.
  - intros [[H|[H|[]]]|[H|H]]; auto.
  - intros [H|[H|[H|H]]]; auto.
Qed.

Lemma tm_checks_ok_iff m : (forall c, In c (tm_checks m) -> snd c = true) <-> wf_tm m.
Proof.
  split.
  - intro H.
    assert (Hr : forall q row c, In (q, row) (t_trans m) -> In c (tm_row_checks m q row) -> snd c = true).
    { intros q row c Hrow Hc. apply H. apply tm_checks_In. right. right. left. exists (q, row). split; assumption. }
    assert (Ht : forall c, In c (tm_tail_checks m) -> snd c = true).
    { intros c Hc. apply H. apply tm_checks_In. right. right. right. exact Hc. }
    constructor.
    + assert (E := H (4, _) (proj2 (tm_checks_In m _) (or_introl eq_refl))). simpl in E.
      apply andb_true_iff in E. destruct E as [E1 E2]. split; [apply subsetb_incl; exact E1|].
      apply negb_true_iff in E2. apply subsetb_false in E2. exact E2.
    + apply memb_In. apply (H (2, _)). apply tm_checks_In. right. left. reflexivity.
    + intros q row Hrow. apply memb_In. apply (Hr q row (1, _) Hrow). apply tm_row_In. left. reflexivity.
    + intros q row key rs s Hrow Hk Hs. apply memb_In. apply (Hr q row (2, memb s (t_tapesyms m)) Hrow).
      apply tm_row_In. right. left. exists (key, rs), s. repeat split; assumption.
    + intros q row key rs q' mvs w d Hrow Hk Hr' Hmv.
      assert (G : forall c, (c = (1, memb q' (t_states m)) \/ c = (2, memb w (t_tapesyms m)) \/ c = (30, Nat.leb d 2)) -> snd c = true).
      { intros c Hc. apply (Hr q row c Hrow). apply tm_row_In. right. right.
        exists (key, rs), (q', mvs), (w, d). repeat split; assumption. }
      repeat split.
      * apply memb_In. apply (G (1, _)). auto.
      * apply memb_In. apply (G (2, _)). auto.
      * apply Nat.leb_le. apply (G (30, _)). auto.
    + apply memb_In. apply (Ht (1, _)). simpl. auto.
    + assert (E := Ht (3, _) (or_intror (or_introl eq_refl))). simpl in E. apply orb_true_iff in E.
      destruct E as [E|E]; [left; apply memb_In; exact E|right; apply Nat.leb_le; exact E].
    + apply memb_false. apply negb_true_iff. apply (Ht (5, _)). simpl. auto.
    + apply subsetb_incl. apply (Ht (1, _)). simpl. auto.
    + assert (E := Ht (6, _) (or_intror (or_intror (or_intror (or_intror (or_introl eq_refl)))))). simpl in E.
      rewrite forallb_forall in E. intros f Hf. apply memb_false. apply negb_true_iff. apply E. exact Hf.
  - intros [[H1 [s [Hs Hns]]] H2 H3 H4 H5 H6 H7 H8 H9 H10] c Hc. apply tm_checks_In in Hc.
    destruct Hc as [Hc|[Hc|[[[q row] [Hrow Hc]]|Hc]]].
    + subst. simpl. apply andb_true_iff. split; [apply subsetb_incl; exact H1|].
      apply negb_true_iff. destruct (subsetb (t_tapesyms m) (t_insyms m)) eqn:E; [|reflexivity].
      apply subsetb_incl in E. exfalso. apply Hns. apply E. exact Hs.
    + subst. simpl. apply memb_In. exact H2.
    + simpl in Hc. apply tm_row_In in Hc.
      destruct Hc as [Hc|[[[key rs] [s' [Hk [Hs' Hc]]]]|[[key rs] [[q' mvs] [[w d] [Hk [Hr [Hmv Hc]]]]]]]].
      * subst. simpl. apply memb_In. eapply H3; eauto.
      * subst. simpl. apply memb_In. eapply H4; eauto.
      * simpl in Hr, Hmv. destruct (H5 q row key rs q' mvs w d Hrow Hk Hr Hmv) as [G1 [G2 G3]].
        destruct Hc as [Hc|[Hc|Hc]]; subst; simpl.
        -- apply memb_In. exact G1.
        -- apply memb_In. exact G2.
        -- apply Nat.leb_le. exact G3.
    + simpl in Hc. destruct Hc as [Hc|[Hc|[Hc|[Hc|[Hc|[]]]]]]; subst; simpl.
      * apply memb_In. exact H6.
      * apply orb_true_iff. destruct H7 as [H7|H7]; [left; apply memb_In; exact H7|right; apply Nat.leb_le; exact H7].
      * apply negb_true_iff. apply memb_false. exact H8.
      * apply subsetb_incl. exact H9.
      * apply forallb_forall. intros f Hf. apply negb_true_iff. apply memb_false. apply H10. exact Hf.
Qed.

Theorem tm_validate_iff_wf m : tm_validate m = Ok tt <-> wf_tm m.
Proof. unfold tm_validate. rewrite first_bad_ok. apply tm_checks_ok_iff. Qed.

Lemma tapes_consistent_iff n m :
  tapes_consistent n m = true <->
  forall q row key rs, In (q, row) (t_trans m) -> In (key, rs) row ->
    length key = n /\ forall r, In r rs -> length (snd r) = n.
Proof.
  unfold tapes_consistent. rewrite forallb_forall. split.
  - intros H q row key rs Hrow Hk. specialize (H (q, row) Hrow). simpl in H.
    rewrite forallb_forall in H. specialize (H (key, rs) Hk). simpl in H.
    apply andb_true_iff in H. destruct H as [E1 E2]. split; [apply Nat.eqb_eq; exact E1|].
    rewrite forallb_forall in E2. intros r Hr. apply Nat.eqb_eq. apply E2. exact Hr.
  - intros H [q row] Hrow. simpl. apply forallb_forall. intros [key rs] Hk. simpl.
    destruct (H q row key rs Hrow Hk) as [E1 E2]. apply andb_true_iff. split; [apply Nat.eqb_eq; exact E1|].
    apply forallb_forall. intros r Hr. apply Nat.eqb_eq. apply E2. exact Hr.
Qed.

Theorem mntm_validate_iff_wf n m : mntm_validate n m = Ok tt <-> wf_mntm n m.
Proof.
  unfold mntm_validate, mntm_checks, wf_mntm. rewrite first_bad_ok. rewrite <- tm_checks_ok_iff, <- tapes_consistent_iff.
  split.
  - intro H. split.
    + intros c Hc. apply H. apply in_app_iff. left. exact Hc.
    + apply (H (31, _)). apply in_app_iff. right. left. reflexivity.
  - intros [H1 H2] c Hc. apply in_app_iff in Hc. destruct Hc as [Hc|[Hc|[]]]; [apply H1; exact Hc|subst; exact H2].
Qed.

(* the multitape checker raises what the single-tape part raises, and InconsistentTapesException only when
   everything else is in order *)
Theorem mntm_validate_order n m :
  (forall e, tm_validate m = Err e -> mntm_validate n m = Err e) /\
  (tm_validate m = Ok tt -> mntm_validate n m = if tapes_consistent n m then Ok tt else Err (Invalid 31)).
Proof.
  unfold mntm_validate, mntm_checks, tm_validate. generalize (tm_checks m) as cs.
  induction cs as [|[k b] r IH]; simpl.
  - split; [discriminate|]. intros _. destruct (tapes_consistent n m); reflexivity.
  - destruct b; [exact IH|]. split; [intros e H; exact H|discriminate].
Qed.

(* ------------------------------------------------------------------ GNFA (structural level) *)
Record wf_gnfa (m : gnfa) : Prop := mk_wf_gnfa {
  wg_init : In (g_init m) (g_states m);
  wg_final : In (g_final m) (g_states m);
  wg_labels : forall q row t b, In (q, row) (g_trans m) -> In (t, Some b) row -> b = true;
  wg_final_row : forall row, In (g_final m, row) (g_trans m) -> row = [];
  wg_complete : forall q row s, In (q, row) (g_trans m) -> q <> g_final m -> In s (g_states m) -> s <> g_init m ->
                In s (map fst row);
  wg_ends : forall q row t l, In (q, row) (g_trans m) -> In (t, l) row -> In t (g_states m);
  wg_init_row : In (g_init m) (map fst (g_trans m)) \/ length (g_states m) <= 1 }.

Lemma gnfa_checks_In m c :
  In c (gnfa_checks m) <->
  c = (1, memb (g_init m) (g_states m)) \/ c = (1, memb (g_final m) (g_states m)) \/
  (exists qr, In qr (g_trans m) /\ In c (gnfa_row_checks m (fst qr) (snd qr))) \/
  c = (3, memb (g_init m) (map fst (g_trans m)) || Nat.leb (length (g_states m)) 1).
Proof.
  unfold gnfa_checks. rewrite in_app_iff. simpl. rewrite in_app_iff, in_flat_map. simpl.
  split.
  - intros [[H|[H|[]]]|[H|[H|[]]]]; auto.
  - intros [H|[H|[H|H]]]; auto.
Qed.

Lemma gnfa_checks_ok_iff m : (forall c, In c (gnfa_checks m) -> snd c = true) <-> wf_gnfa m.
Proof.
  split.
  - intro H.
    assert (Hr : forall q row c, In (q, row) (g_trans m) -> In c (gnfa_row_checks m q row) -> snd c = true).
    { intros q row c Hrow Hc. apply H. apply gnfa_checks_In. right. right. left. exists (q, row). split; assumption. }
    constructor.
    + apply memb_In. apply (H (1, _)). apply gnfa_checks_In. auto.
    + apply memb_In. apply (H (1, _)). apply gnfa_checks_In. auto.
    + intros q row t b Hrow Ht.
      assert (E : forallb (fun p => label_ok (snd p)) row = true).
      { apply (Hr q row (10, _) Hrow). simpl. auto. }
      rewrite forallb_forall in E. specialize (E (t, Some b) Ht). simpl in E. destruct b; [reflexivity|discriminate].
    + intros row Hrow.
      assert (E := Hr _ row (1, match row with [] => true | _ => false end) Hrow).
      unfold gnfa_row_checks in E. rewrite Nat.eqb_refl in E. simpl in E.
      destruct row; [reflexivity|]. discriminate E. auto.
    + intros q row s Hrow Hq Hs Hsi.
      assert (E := Hr q row (3, forallb (fun s => Nat.eqb s (g_init m) || memb s (map fst row)) (g_states m)) Hrow).
      unfold gnfa_row_checks in E. apply Nat.eqb_neq in Hq. rewrite Hq in E. simpl in E.
      assert (E' := E (or_intror (or_introl eq_refl))). rewrite forallb_forall in E'. specialize (E' s Hs).
      apply orb_true_iff in E'. destruct E' as [E'|E']; [apply Nat.eqb_eq in E'; contradiction|apply memb_In; exact E'].
    + intros q row t l Hrow Ht.
      assert (E : forallb (fun p => memb (fst p) (g_states m)) row = true).
      { apply (Hr q row (1, _) Hrow). simpl. auto. }
      rewrite forallb_forall in E. apply memb_In. apply (E (t, l)). exact Ht.
    + assert (E := H (3, _) (proj2 (gnfa_checks_In m _) (or_intror (or_intror (or_intror eq_refl))))).
      simpl in E. apply orb_true_iff in E.
      destruct E as [E|E]; [left; apply memb_In; exact E|right; apply Nat.leb_le; exact E].
  - intros [H1 H2 H3 H4 H5 H6 H7] c Hc. apply gnfa_checks_In in Hc.
    destruct Hc as [Hc|[Hc|[[[q row] [Hrow Hc]]|Hc]]]; subst; simpl.
    + apply memb_In. exact H1.
    + apply memb_In. exact H2.
    + simpl in Hc. destruct Hc as [Hc|[Hc|[Hc|[]]]]; subst; simpl.
      * apply forallb_forall. intros [t [b|]] Ht; simpl; [|reflexivity]. rewrite (H3 q row t b Hrow Ht). reflexivity.
      * destruct (Nat.eqb q (g_final m)) eqn:Eq; simpl.
        -- apply Nat.eqb_eq in Eq. subst q. rewrite (H4 row Hrow). reflexivity.
        -- apply Nat.eqb_neq in Eq. apply forallb_forall. intros s Hs. apply orb_true_iff.
           destruct (Nat.eqb s (g_init m)) eqn:Es; [left; reflexivity|right].
           apply Nat.eqb_neq in Es. apply memb_In. eapply H5; eauto.
      * apply forallb_forall. intros [t l] Ht. simpl. apply memb_In. eapply H6; eauto.
    + apply orb_true_iff. destruct H7 as [H7|H7]; [left; apply memb_In; exact H7|right; apply Nat.leb_le; exact H7].
Qed.

Theorem gnfa_validate_iff_wf m : gnfa_validate m = Ok tt <-> wf_gnfa m.
Proof. unfold gnfa_validate. rewrite first_bad_ok. apply gnfa_checks_ok_iff. Qed.

(* ------------------------------------------------------------------ every checker only raises documented kinds *)
Theorem validate_only_invalid cs e : first_bad cs = Err e -> exists k, e = Invalid k.
Proof. intro H. destruct (first_bad_err _ _ H) as [k [E _]]. exists k. exact E. Qed.

(* ------------------------------------------------------------------ agreement with the PDA development of C02 *)
(* valid_pda of Spec/PDA.v (hypothesis of the C02 theorems) = duplicate-free keys + the NPDA constructor accepts *)
Theorem valid_pda_agrees m : valid_pda m = true <-> keys_ok m = true /\ npda_validate m 2 = Ok tt.
Proof.
  rewrite npda_validate_iff_wf. unfold valid_pda. repeat rewrite andb_true_iff. rewrite forallb_forall.
  split.
  - intros [[[[K R] I] Z] F]. split; [exact K|]. constructor.
    + intros q row a tops Hrow Hat. specialize (R (q, row) Hrow). unfold prow_syms_ok in R. simpl in R.
      rewrite forallb_forall in R. specialize (R (Some a, tops) Hat). simpl in R. apply andb_true_iff in R.
      apply memb_In. tauto.
    + intros q row a tops Z0 Hrow Hat HZ. specialize (R (q, row) Hrow). unfold prow_syms_ok in R. simpl in R.
      rewrite forallb_forall in R. specialize (R (a, tops) Hat). simpl in R. apply andb_true_iff in R.
      destruct R as [_ R]. rewrite forallb_forall in R. apply in_map_iff in HZ. destruct HZ as [t [E Ht]].
      subst Z0. apply memb_In. apply R. exact Ht.
    + apply memb_In. exact I.
    + apply memb_In. exact Z.
    + apply subsetb_incl. exact F.
    + auto.
  - intros [K [H1 H2 H3 H4 H5 _]]. repeat split; try assumption.
    + intros [q row] Hrow. simpl. unfold prow_syms_ok. apply forallb_forall. intros [a tops] Hat. simpl.
      apply andb_true_iff. split.
      * destruct a as [a|]; [|reflexivity]. apply memb_In. eapply H1; eauto.
      * apply forallb_forall. intros t Ht. apply memb_In. eapply H2; eauto. apply in_map. exact Ht.
    + apply memb_In. exact H3.
    + apply memb_In. exact H4.
    + apply subsetb_incl. exact H5.
Qed.

(* the DPDA checker of Model/PDA.v (used by C02) is this checker with a valid acceptance mode *)
Definition to_res (c : check) : res unit := guard (snd c) (Invalid (fst c)).

Lemma first_err_map cs : first_err (map to_res cs) = first_bad cs.
Proof.
  induction cs as [|[k b] r IH]; simpl; [reflexivity|].
  unfold to_res at 1. simpl. destruct b; simpl; [exact IH|reflexivity].
Qed.

Lemma map_flat_map {A B C} (g : B -> C) (f : A -> list B) l :
  map g (flat_map f l) = flat_map (fun x => map g (f x)) l.
Proof. induction l as [|x r IH]; simpl; [reflexivity|]. rewrite map_app, IH. reflexivity. Qed.

Lemma first_err_app_ok l : first_err (l ++ [Ok tt]) = first_err l.
Proof. induction l as [|[u|e] r IH]; simpl; [reflexivity|exact IH|reflexivity]. Qed.

Theorem dpda_validate_raw_agrees m mode : mode <= 2 -> dpda_validate_raw m mode = dpda_validate m.
Proof.
  intro Hm. unfold dpda_validate_raw, dpda_validate. rewrite <- first_err_map.
  unfold dpda_checks, pda_tail_checks. rewrite map_app, map_flat_map. simpl.
  assert (E : Nat.leb mode 2 = true) by (apply Nat.leb_le; exact Hm).
  unfold to_res at 2 3 4 5. simpl. rewrite E. simpl.
  change [guard (memb (p_init m) (p_states m)) (Invalid 1);
          guard (memb (p_init_stack m) (p_stack_syms m)) (Invalid 2);
          guard (subsetb (p_finals m) (p_states m)) (Invalid 1); Ok tt]
    with ([guard (memb (p_init m) (p_states m)) (Invalid 1);
           guard (memb (p_init_stack m) (p_stack_syms m)) (Invalid 2);
           guard (subsetb (p_finals m) (p_states m)) (Invalid 1)] ++ [Ok tt]).
  rewrite app_assoc, first_err_app_ok. f_equal. f_equal.
  apply flat_map_ext. intros [q row]. simpl. unfold dpda_row_checks, dpda_validate_row.
  rewrite map_flat_map. apply flat_map_ext. intros [a tops]. simpl. f_equal.
  rewrite map_flat_map. apply flat_map_ext. intro Z. reflexivity.
Qed.

(* ------------------------------------------------------------------ documented exception per rule: TM classes *)
Inductive tm_broken (m : rtm) : nat -> Prop :=
| tb_input s : In s (t_insyms m) -> ~ In s (t_tapesyms m) -> tm_broken m 4                 (* MissingSymbolError *)
| tb_input_all : incl (t_tapesyms m) (t_insyms m) -> tm_broken m 4
| tb_blank : ~ In (t_blank m) (t_tapesyms m) -> tm_broken m 2
| tb_row q row : In (q, row) (t_trans m) -> ~ In q (t_states m) -> tm_broken m 1
| tb_key q row key rs s : In (q, row) (t_trans m) -> In (key, rs) row -> In s key -> ~ In s (t_tapesyms m) -> tm_broken m 2
| tb_res_state q row key rs q' mvs w d : In (q, row) (t_trans m) -> In (key, rs) row -> In (q', mvs) rs -> In (w, d) mvs ->
    ~ In q' (t_states m) -> tm_broken m 1
| tb_res_sym q row key rs q' mvs w d : In (q, row) (t_trans m) -> In (key, rs) row -> In (q', mvs) rs -> In (w, d) mvs ->
    ~ In w (t_tapesyms m) -> tm_broken m 2
| tb_res_dir q row key rs q' mvs w d : In (q, row) (t_trans m) -> In (key, rs) row -> In (q', mvs) rs -> In (w, d) mvs ->
    2 < d -> tm_broken m 30                                                                  (* InvalidDirectionError *)
| tb_init : ~ In (t_init m) (t_states m) -> tm_broken m 1
| tb_init_row : ~ In (t_init m) (map fst (t_trans m)) -> 1 < length (t_states m) -> tm_broken m 3
| tb_init_final : In (t_init m) (t_finals m) -> tm_broken m 5                                (* InitialStateError *)
| tb_final q : In q (t_finals m) -> ~ In q (t_states m) -> tm_broken m 1
| tb_final_row f : In f (t_finals m) -> In f (map fst (t_trans m)) -> tm_broken m 6.        (* FinalStateError *)

Lemma tm_bad_broken m k : In (k, false) (tm_checks m) -> tm_broken m k.
Proof.
  intro Hc. apply tm_checks_In in Hc. destruct Hc as [Hc|[Hc|[[[q row] [Hrow Hc]]|Hc]]].
  - inversion Hc as [[Ek E]]. symmetry in E. apply andb_false_iff in E. destruct E as [E|E].
    + apply subsetb_false in E. destruct E as [s [Hs Hn]]. exact (tb_input m s Hs Hn).
    + apply negb_false_iff in E. apply subsetb_incl in E. exact (tb_input_all m E).
  - inversion Hc as [[Ek E]]. symmetry in E. apply tb_blank. apply memb_false. exact E.
  - simpl in Hc. apply tm_row_In in Hc.
    destruct Hc as [Hc|[[[key rs] [s [Hk [Hs Hc]]]]|[[key rs] [[q' mvs] [[w d] [Hk [Hr [Hmv Hc]]]]]]]].
    + inversion Hc as [[Ek E]]. symmetry in E. apply (tb_row m q row Hrow). apply memb_false. exact E.
    + inversion Hc as [[Ek E]]. symmetry in E. simpl in Hs. apply (tb_key m q row key rs s Hrow Hk Hs). apply memb_false. exact E.
    + simpl in Hr, Hmv. destruct Hc as [Hc|[Hc|Hc]]; inversion Hc as [[Ek E]]; symmetry in E; simpl in E.
      * apply (tb_res_state m q row key rs q' mvs w d Hrow Hk Hr Hmv). apply memb_false. exact E.
      * apply (tb_res_sym m q row key rs q' mvs w d Hrow Hk Hr Hmv). apply memb_false. exact E.
      * apply (tb_res_dir m q row key rs q' mvs w d Hrow Hk Hr Hmv). apply Nat.leb_gt. exact E.
  - simpl in Hc. destruct Hc as [Hc|[Hc|[Hc|[Hc|[Hc|[]]]]]]; inversion Hc as [[Ek E]].
    + apply tb_init. apply memb_false. exact E.
    + apply orb_false_iff in E. destruct E as [E1 E2]. apply tb_init_row; [apply memb_false; exact E1|apply leb_1_false; exact E2].
    + apply negb_false_iff in E. apply tb_init_final. apply memb_In. exact E.
    + apply subsetb_false in E. destruct E as [f [Hf Hn]]. exact (tb_final m f Hf Hn).
    + apply forallb_false in E. destruct E as [f [Hf E]]. apply negb_false_iff in E.
      apply (tb_final_row m f Hf). apply memb_In. exact E.
Qed.

Lemma wf_tm_sound m k : wf_tm m -> ~ tm_broken m k.
Proof.
  intros [[H1 [s0 [Hs0 Hns0]]] H2 H3 H4 H5 H6 H7 H8 H9 H10] Hb. inversion Hb; subst.
  - match goal with H : ~ In _ (t_tapesyms m) |- _ => apply H end. apply H1. assumption.
  - apply Hns0. match goal with H : incl (t_tapesyms m) _ |- _ => apply H end. exact Hs0.
  - match goal with H : ~ In _ (t_tapesyms m) |- _ => apply H end. exact H2.
  - match goal with H : ~ In _ (t_states m) |- _ => apply H end. eapply H3; eassumption.
  - match goal with H : ~ In _ (t_tapesyms m) |- _ => apply H end. eapply H4; eassumption.
  - match goal with H : ~ In _ (t_states m) |- _ => apply H end. eapply H5; eassumption.
  - match goal with H : ~ In _ (t_tapesyms m) |- _ => apply H end. eapply H5; eassumption.
  - match goal with Ha : In (?q, ?row) (t_trans m), Hb : In (?key, ?rs) ?row, Hc : In (?q', ?mvs) ?rs, Hd : In (?w, ?d) ?mvs |- _ =>
      destruct (H5 q row key rs q' mvs w d Ha Hb Hc Hd) as [_ [_ G]] end. lia.
  - match goal with H : ~ In _ (t_states m) |- _ => apply H end. exact H6.
  - destruct H7 as [H7|H7]; [contradiction|lia].
  - apply H8. assumption.
  - match goal with H : ~ In _ (t_states m) |- _ => apply H end. apply H9. assumption.
  - eapply H10; eassumption.
Qed.

Theorem tm_validate_err_sound m e : tm_validate m = Err e -> exists k, e = Invalid k /\ tm_broken m k.
Proof. exact (g_err_sound rtm tm_checks tm_broken tm_bad_broken m e). Qed.

Theorem tm_broken_rejected m k : tm_broken m k -> exists k', tm_validate m = Err (Invalid k') /\ tm_broken m k'.
Proof. exact (g_broken_rejected rtm tm_checks wf_tm tm_broken tm_checks_ok_iff tm_bad_broken wf_tm_sound m k). Qed.

Theorem tm_single_rule_kind m k : tm_broken m k -> (forall k', tm_broken m k' -> k' = k) ->
  tm_validate m = Err (Invalid k).
Proof. exact (g_single_rule rtm tm_checks wf_tm tm_broken tm_checks_ok_iff tm_bad_broken wf_tm_sound m k). Qed.

(* multitape: the single-tape rules, or a key / a result with the wrong number of components *)
Inductive mntm_broken (n : nat) (m : rtm) : nat -> Prop :=
| mb_tm k : tm_broken m k -> mntm_broken n m k
| mb_key q row key rs : In (q, row) (t_trans m) -> In (key, rs) row -> length key <> n -> mntm_broken n m 31
| mb_res q row key rs r : In (q, row) (t_trans m) -> In (key, rs) row -> In r rs -> length (snd r) <> n -> mntm_broken n m 31.

Theorem mntm_validate_err_sound n m e : mntm_validate n m = Err e -> exists k, e = Invalid k /\ mntm_broken n m k.
Proof.
  intro H. destruct (mntm_validate_order n m) as [O1 O2].
  destruct (tm_validate m) as [[]|e'] eqn:Et.
  - rewrite (O2 eq_refl) in H. destruct (tapes_consistent n m) eqn:Ec; [discriminate|]. inversion H; subst.
    exists 31. split; [reflexivity|]. unfold tapes_consistent in Ec.
    apply forallb_false in Ec. destruct Ec as [[q row] [Hrow Ec]]. simpl in Ec.
    apply forallb_false in Ec. destruct Ec as [[key rs] [Hk Ec]]. simpl in Ec.
    apply andb_false_iff in Ec. destruct Ec as [Ec|Ec].
    + apply Nat.eqb_neq in Ec. exact (mb_key n m q row key rs Hrow Hk Ec).
    + apply forallb_false in Ec. destruct Ec as [r [Hr Ec]]. apply Nat.eqb_neq in Ec.
      exact (mb_res n m q row key rs r Hrow Hk Hr Ec).
  - rewrite (O1 e' eq_refl) in H. inversion H; subst. destruct (tm_validate_err_sound m e Et) as [k [E Hb]].
    exists k. split; [exact E|apply mb_tm; exact Hb].
Qed.

Theorem mntm_broken_rejected n m k : mntm_broken n m k -> exists k', mntm_validate n m = Err (Invalid k').
Proof.
  intro Hb. destruct (mntm_validate n m) as [[]|e] eqn:E.
  - exfalso. apply mntm_validate_iff_wf in E. destruct E as [Hw Hc]. inversion Hb; subst.
    + eapply wf_tm_sound; eassumption.
    + destruct (Hc q row key rs) as [G _]; try assumption. contradiction.
    + destruct (Hc q row key rs) as [_ G]; try assumption. specialize (G r). tauto.
  - destruct (mntm_validate_err_sound n m e E) as [k' [-> _]]. exists k'. reflexivity.
Qed.

(* ------------------------------------------------------------------ documented exception per rule: PDA classes *)
Inductive npda_broken (m : pda) (mode : nat) : nat -> Prop :=
| pb_in q row a tops : In (q, row) (p_trans m) -> In (Some a, tops) row -> ~ In a (p_syms m) -> npda_broken m mode 2
| pb_stack q row a tops Z : In (q, row) (p_trans m) -> In (a, tops) row -> In Z (map fst tops) ->
    ~ In Z (p_stack_syms m) -> npda_broken m mode 2
| pb_init : ~ In (p_init m) (p_states m) -> npda_broken m mode 1
| pb_init_stack : ~ In (p_init_stack m) (p_stack_syms m) -> npda_broken m mode 2
| pb_final q : In q (p_finals m) -> ~ In q (p_states m) -> npda_broken m mode 1
| pb_mode : 2 < mode -> npda_broken m mode 21.                                             (* InvalidAcceptanceModeError *)

Inductive dpda_broken (m : pda) (mode : nat) : nat -> Prop :=
| dpb_common k : npda_broken m mode k -> dpda_broken m mode k
| dpb_clash q (row : prow) a (tops eps : ptops) Z : In (q, row) (p_trans m) -> oassoc None row = Some eps ->
    In (Some a, tops) row -> In Z (map fst tops) -> In Z (map fst eps) -> dpda_broken m mode 20.   (* NondeterminismError *)

Lemma tail_bad_broken m mode k : In (k, false) (pda_tail_checks m mode) -> npda_broken m mode k.
Proof.
  intro Hc. apply pda_tail_In in Hc. destruct Hc as [Hc|[Hc|[Hc|Hc]]]; inversion Hc as [[Ek E]]; symmetry in E.
  - apply pb_init. apply memb_false. exact E.
  - apply pb_init_stack. apply memb_false. exact E.
  - apply subsetb_false in E. destruct E as [q [Hq Hn]]. exact (pb_final m mode q Hq Hn).
  - apply pb_mode. apply Nat.leb_gt. exact E.
Qed.

Lemma npda_bad_broken m mode k : In (k, false) (npda_checks m mode) -> npda_broken m mode k.
Proof.
  unfold npda_checks. intro Hc. apply in_app_iff in Hc. destruct Hc as [Hc|Hc]; [|apply tail_bad_broken; exact Hc].
  apply in_flat_map in Hc. destruct Hc as [[q row] [Hrow Hc]]. simpl in Hc. apply npda_row_In in Hc.
  destruct Hc as [[a tops] [Hat [Hc|[Z [HZ Hc]]]]]; inversion Hc as [[Ek E]]; symmetry in E.
  - destruct a as [a|]; simpl in E; [|discriminate]. apply (pb_in m mode q row a tops Hrow Hat). apply memb_false. exact E.
  - simpl in HZ. apply (pb_stack m mode q row a tops Z Hrow Hat HZ). apply memb_false. exact E.
Qed.

Lemma dpda_bad_broken m mode k : In (k, false) (dpda_checks m mode) -> dpda_broken m mode k.
Proof.
  unfold dpda_checks. intro Hc. apply in_app_iff in Hc.
  destruct Hc as [Hc|Hc]; [|apply dpb_common; apply tail_bad_broken; exact Hc].
  apply in_flat_map in Hc. destruct Hc as [[q row] [Hrow Hc]]. simpl in Hc. apply dpda_row_In in Hc.
  destruct Hc as [[a tops] [Hat [Hc|[Z [HZ [Hc|Hc]]]]]]; inversion Hc as [[Ek E]]; symmetry in E.
  - apply dpb_common. destruct a as [a|]; simpl in E; [|discriminate].
    apply (pb_in m mode q row a tops Hrow Hat). apply memb_false. exact E.
  - simpl in E. unfold det_isolated_ok in E. destruct a as [a|]; [discriminate|].
    destruct (oassoc None row) as [eps|] eqn:He; [|discriminate].
    apply forallb_false in E. destruct E as [[[b|] tops'] [Hb E]]; simpl in E; [|discriminate].
    unfold det_sibling_ok in E. apply forallb_false in E. destruct E as [Z' [HZ' E]].
    apply negb_false_iff in E. apply memb_In in E.
    exact (dpb_clash m mode q row b tops' eps Z' Hrow He Hb HZ' E).
  - apply dpb_common. simpl in HZ. apply (pb_stack m mode q row a tops Z Hrow Hat HZ). apply memb_false. exact E.
Qed.

Lemma wf_npda_sound m mode k : wf_npda m mode -> ~ npda_broken m mode k.
Proof.
  intros [H1 H2 H3 H4 H5 H6] Hb. inversion Hb; subst.
  - match goal with H : ~ In _ (p_syms m) |- _ => apply H end. eapply H1; eassumption.
  - match goal with H : ~ In _ (p_stack_syms m) |- _ => apply H end. eapply H2; eassumption.
  - match goal with H : ~ In _ (p_states m) |- _ => apply H end. exact H3.
  - match goal with H : ~ In _ (p_stack_syms m) |- _ => apply H end. exact H4.
  - match goal with H : ~ In _ (p_states m) |- _ => apply H end. apply H5. assumption.
  - lia.
Qed.

Lemma wf_dpda_sound m mode k : wf_dpda m mode -> ~ dpda_broken m mode k.
Proof.
  intros [Hw Hd] Hb. inversion Hb; subst.
  - eapply wf_npda_sound; eassumption.
  - eapply Hd; eassumption.
Qed.

Theorem pda_validate_err_sound m mode e :
  (npda_validate m mode = Err e -> exists k, e = Invalid k /\ npda_broken m mode k) /\
  (dpda_validate_raw m mode = Err e -> exists k, e = Invalid k /\ dpda_broken m mode k).
Proof.
  split; intro H; apply first_bad_err in H; destruct H as [k [E Hin]]; exists k; (split; [exact E|]).
  - apply npda_bad_broken. exact Hin.
  - apply dpda_bad_broken. exact Hin.
Qed.

Theorem pda_single_rule_kind m mode k :
  (npda_broken m mode k -> (forall k', npda_broken m mode k' -> k' = k) -> npda_validate m mode = Err (Invalid k)) /\
  (dpda_broken m mode k -> (forall k', dpda_broken m mode k' -> k' = k) -> dpda_validate_raw m mode = Err (Invalid k)).
Proof.
  split.
  - exact (g_single_rule (pda * nat) (fun x => npda_checks (fst x) (snd x)) (fun x => wf_npda (fst x) (snd x))
             (fun x => npda_broken (fst x) (snd x))
             (fun x => npda_checks_ok_iff (fst x) (snd x)) (fun x => npda_bad_broken (fst x) (snd x))
             (fun x => wf_npda_sound (fst x) (snd x)) (m, mode) k).
  - exact (g_single_rule (pda * nat) (fun x => dpda_checks (fst x) (snd x)) (fun x => wf_dpda (fst x) (snd x))
             (fun x => dpda_broken (fst x) (snd x))
             (fun x => dpda_checks_ok_iff (fst x) (snd x)) (fun x => dpda_bad_broken (fst x) (snd x))
             (fun x => wf_dpda_sound (fst x) (snd x)) (m, mode) k).
Qed.

Theorem mntm_single_rule_kind n m k : mntm_broken n m k -> (forall k', mntm_broken n m k' -> k' = k) ->
  mntm_validate n m = Err (Invalid k).
Proof.
  intros Hb Huniq. destruct (mntm_broken_rejected n m k Hb) as [k' E].
  destruct (mntm_validate_err_sound n m _ E) as [k'' [Ek Hb'']]. inversion Ek; subst k''.
  rewrite (Huniq k' Hb'') in E. exact E.
Qed.
