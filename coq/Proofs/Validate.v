(* C19 - the checkers of Model/Validate.v against declarative well-formedness.

   Per class:  wf_X      the documented rules, as a Prop over the raw definition
               X_broken  "rule with documented exception kind k is broken", one constructor per rule
   and three lemmas: every check passes <-> wf_X;  a failing check of kind k -> X_broken k;
   wf_X -> nothing is broken.  The theorems (validate = Ok <-> wf, the reported kind is the kind of a
   broken rule, a single broken rule gives exactly its kind) follow generically. *)
From Coq Require Import List Arith Bool Lia.
From AV Require Import Base.Util Spec.Lang Spec.FA Spec.PDA Model.PDA Model.Validate.
Import ListNotations.

(* ------------------------------------------------------------------ generic *)
Lemma first_bad_ok cs : first_bad cs = Ok tt <-> forall c, In c cs -> snd c = true.
Proof.
  induction cs as [|[k b] r IH]; simpl.
  - split; [intros _ c []|reflexivity].
  - destruct b.
    + rewrite IH. split.
      * intros H c [E|Hc]; [subst; reflexivity|apply H; exact Hc].
      * intros H c Hc. apply H. right. exact Hc.
    + split; [discriminate|]. intro H. specialize (H (k, false) (or_introl eq_refl)). discriminate.
Qed.

Lemma first_bad_cases cs :
  first_bad cs = Ok tt \/ exists k, first_bad cs = Err (Invalid k) /\ In (k, false) cs.
Proof.
  induction cs as [|[k b] r IH]; simpl; [left; reflexivity|].
  destruct b.
  - destruct IH as [IH|[k' [E Hin]]]; [left; exact IH|right; exists k'; split; [exact E|right; exact Hin]].
  - right. exists k. split; [reflexivity|left; reflexivity].
Qed.

Lemma first_bad_err cs e : first_bad cs = Err e -> exists k, e = Invalid k /\ In (k, false) cs.
Proof.
  intro H. destruct (first_bad_cases cs) as [E|[k [E Hin]]]; rewrite E in H; [discriminate|].
  inversion H; subst. exists k. split; [reflexivity|exact Hin].
Qed.

Lemma forallb_false {A} (f : A -> bool) l : forallb f l = false -> exists x, In x l /\ f x = false.
Proof.
  induction l as [|x r IH]; simpl; [discriminate|].
  destruct (f x) eqn:E; simpl.
  - intro H. destruct (IH H) as [y [Hy Ey]]. exists y. split; [right; exact Hy|exact Ey].
  - intros _. exists x. split; [left; reflexivity|exact E].
Qed.

Lemma subsetb_false l m : subsetb l m = false -> exists x, In x l /\ ~ In x m.
Proof.
  unfold subsetb. intro H. apply forallb_false in H. destruct H as [x [Hx E]].
  exists x. split; [exact Hx|apply memb_false; exact E].
Qed.

Lemma leb_1_false n : Nat.leb n 1 = false -> 1 < n.
Proof. intro H. apply Nat.leb_gt in H. exact H. Qed.

(* the three generic consequences, for a checker given as a list of checks *)
Section Generic.
  Variable D : Type.
  Variable checks : D -> list check.
  Variable wf : D -> Prop.
  Variable broken : D -> nat -> Prop.
  Hypothesis ok_iff : forall m, (forall c, In c (checks m) -> snd c = true) <-> wf m.
  Hypothesis bad_broken : forall m k, In (k, false) (checks m) -> broken m k.
  Hypothesis wf_sound : forall m k, wf m -> ~ broken m k.

  Lemma g_validate_iff m : first_bad (checks m) = Ok tt <-> wf m.
  Proof. rewrite first_bad_ok. apply ok_iff. Qed.

  Lemma g_err_sound m e : first_bad (checks m) = Err e -> exists k, e = Invalid k /\ broken m k.
  Proof.
    intro H. destruct (first_bad_err _ _ H) as [k [E Hin]]. exists k. split; [exact E|apply bad_broken; exact Hin].
  Qed.

  Lemma g_broken_rejected m k : broken m k -> exists k', first_bad (checks m) = Err (Invalid k') /\ broken m k'.
  Proof.
    intro Hb. destruct (first_bad_cases (checks m)) as [E|[k' [E Hin]]].
    - exfalso. apply (wf_sound m k); [apply g_validate_iff; exact E|exact Hb].
    - exists k'. split; [exact E|apply bad_broken; exact Hin].
  Qed.

  Lemma g_single_rule m k : broken m k -> (forall k', broken m k' -> k' = k) ->
    first_bad (checks m) = Err (Invalid k).
  Proof.
    intros Hb Huniq. destruct (g_broken_rejected m k Hb) as [k' [E Hb']].
    rewrite (Huniq k' Hb') in E. exact E.
  Qed.
End Generic.

(* ------------------------------------------------------------------ DFA *)
Record wf_dfa (m : dfa) : Prop := mk_wf_dfa {
  wd_rows : forall q, In q (d_states m) -> In q (map fst (d_trans m));
  wd_complete : d_partial m = false ->
                forall q row a, In (q, row) (d_trans m) -> In a (d_syms m) -> In a (map fst row);
  wd_syms : forall q row a t, In (q, row) (d_trans m) -> In (a, t) row -> In a (d_syms m);
  wd_ends : forall q row a t, In (q, row) (d_trans m) -> In (a, t) row -> In t (d_states m);
  wd_init : In (d_init m) (d_states m);
  wd_finals : incl (d_finals m) (d_states m) }.

(* the documented rules with the documented exception of each *)
Inductive dfa_broken (m : dfa) : nat -> Prop :=
| db_row q : In q (d_states m) -> ~ In q (map fst (d_trans m)) -> dfa_broken m 3          (* MissingStateError *)
| db_sym_missing q row a : d_partial m = false -> In (q, row) (d_trans m) -> In a (d_syms m) ->
    ~ In a (map fst row) -> dfa_broken m 4                                               (* MissingSymbolError *)
| db_sym q row a t : In (q, row) (d_trans m) -> In (a, t) row -> ~ In a (d_syms m) -> dfa_broken m 2   (* InvalidSymbolError *)
| db_end q row a t : In (q, row) (d_trans m) -> In (a, t) row -> ~ In t (d_states m) -> dfa_broken m 1 (* InvalidStateError *)
| db_init : ~ In (d_init m) (d_states m) -> dfa_broken m 1
| db_final q : In q (d_finals m) -> ~ In q (d_states m) -> dfa_broken m 1.

Lemma dfa_checks_In m c :
  In c (dfa_checks m) <->
  c = (3, forallb (fun q => memb q (map fst (d_trans m))) (d_states m)) \/
  (exists qr, In qr (d_trans m) /\ In c (dfa_row_checks m (snd qr))) \/
  c = (1, memb (d_init m) (d_states m)) \/ c = (1, subsetb (d_finals m) (d_states m)).
Proof.
  unfold dfa_checks. simpl. rewrite in_app_iff, in_flat_map. simpl.
  split.
  - intros [H|[H|[H|[H|[]]]]]; auto.
  - intros [H|[H|[H|H]]]; auto.
Qed.

Lemma dfa_checks_ok_iff m : (forall c, In c (dfa_checks m) -> snd c = true) <-> wf_dfa m.
Proof.
  split.
  - intro H. constructor.
    + intros q Hq. apply memb_In.
      assert (E := H _ (proj2 (dfa_checks_In m _) (or_introl eq_refl))). simpl in E.
      rewrite forallb_forall in E. apply E. exact Hq.
    + intros Hp q row a Hrow Ha.
      assert (E := H (4, d_partial m || forallb (fun a => memb a (map fst row)) (d_syms m))).
      simpl in E. rewrite Hp in E. simpl in E.
      assert (E' : forallb (fun a0 => memb a0 (map fst row)) (d_syms m) = true).
      { apply E. apply dfa_checks_In. right. left. exists (q, row). split; [exact Hrow|]. simpl. rewrite Hp. simpl. auto. }
      rewrite forallb_forall in E'. apply memb_In. apply E'. exact Ha.
    + intros q row a t Hrow Hat.
      assert (E : forallb (fun p => memb (fst p) (d_syms m)) row = true).
      { apply (H (2, _)). apply dfa_checks_In. right. left. exists (q, row). split; [exact Hrow|]. simpl. auto. }
      rewrite forallb_forall in E. apply memb_In. apply (E (a, t)). exact Hat.
    + intros q row a t Hrow Hat.
      assert (E : forallb (fun p => memb (snd p) (d_states m)) row = true).
      { apply (H (1, _)). apply dfa_checks_In. right. left. exists (q, row). split; [exact Hrow|]. simpl. auto. }
      rewrite forallb_forall in E. apply memb_In. apply (E (a, t)). exact Hat.
    + apply memb_In. apply (H (1, _)). apply dfa_checks_In. right. right. left. reflexivity.
    + apply subsetb_incl. apply (H (1, _)). apply dfa_checks_In. right. right. right. reflexivity.
  - intros [H1 H2 H3 H4 H5 H6] c Hc. apply dfa_checks_In in Hc.
    destruct Hc as [Hc|[[[q row] [Hrow Hc]]|[Hc|Hc]]]; subst; simpl.
    + apply forallb_forall. intros q Hq. apply memb_In. apply H1. exact Hq.
    + simpl in Hc. destruct Hc as [Hc|[Hc|[Hc|[]]]]; subst; simpl.
      * destruct (d_partial m) eqn:Hp; [reflexivity|]. simpl. apply forallb_forall. intros a Ha.
        apply memb_In. eapply H2; eauto.
      * apply forallb_forall. intros [a t] Hat. apply memb_In. simpl. eapply H3; eauto.
      * apply forallb_forall. intros [a t] Hat. apply memb_In. simpl. eapply H4; eauto.
    + apply memb_In. exact H5.
    + apply subsetb_incl. exact H6.
Qed.

Lemma dfa_bad_broken m k : In (k, false) (dfa_checks m) -> dfa_broken m k.
Proof.
  intro Hc. apply dfa_checks_In in Hc.
  destruct Hc as [Hc|[[[q row] [Hrow Hc]]|[Hc|Hc]]].
  - inversion Hc as [[Ek E]]. symmetry in E. apply forallb_false in E. destruct E as [q [Hq E]].
    apply (db_row m q Hq). apply memb_false. exact E.
  - simpl in Hc. destruct Hc as [Hc|[Hc|[Hc|[]]]]; inversion Hc as [[Ek E]].
    + apply orb_false_iff in E. destruct E as [Hp E]. apply forallb_false in E. destruct E as [a [Ha E]].
      apply (db_sym_missing m q row a Hp Hrow Ha). apply memb_false. exact E.
    + apply forallb_false in E. destruct E as [[a t] [Hat E]]. simpl in E.
      apply (db_sym m q row a t Hrow Hat). apply memb_false. exact E.
    + apply forallb_false in E. destruct E as [[a t] [Hat E]]. simpl in E.
      apply (db_end m q row a t Hrow Hat). apply memb_false. exact E.
  - inversion Hc as [[Ek E]]. symmetry in E. apply db_init. apply memb_false. exact E.
  - inversion Hc as [[Ek E]]. symmetry in E. apply subsetb_false in E. destruct E as [q [Hq Hn]].
    exact (db_final m q Hq Hn).
Qed.

Lemma wf_dfa_sound m k : wf_dfa m -> ~ dfa_broken m k.
Proof.
  intros [H1 H2 H3 H4 H5 H6] Hb. inversion Hb; subst.
  - match goal with H : ~ In _ (map fst (d_trans m)) |- _ => apply H end. apply H1. assumption.
  - match goal with H : ~ In _ (map fst _) |- _ => apply H end. eapply H2; eassumption.
  - match goal with H : ~ In _ (d_syms m) |- _ => apply H end. eapply H3; eassumption.
  - match goal with H : ~ In _ (d_states m) |- _ => apply H end. eapply H4; eassumption.
  - match goal with H : ~ In _ (d_states m) |- _ => apply H end. exact H5.
  - match goal with H : ~ In _ (d_states m) |- _ => apply H end. apply H6. assumption.
Qed.

Theorem dfa_validate_iff_wf m : dfa_validate m = Ok tt <-> wf_dfa m.
Proof. exact (g_validate_iff dfa dfa_checks wf_dfa dfa_checks_ok_iff m). Qed.

Theorem dfa_validate_err_sound m e : dfa_validate m = Err e -> exists k, e = Invalid k /\ dfa_broken m k.
Proof. exact (g_err_sound dfa dfa_checks dfa_broken dfa_bad_broken m e). Qed.

Theorem dfa_broken_rejected m k : dfa_broken m k -> exists k', dfa_validate m = Err (Invalid k') /\ dfa_broken m k'.
Proof. exact (g_broken_rejected dfa dfa_checks wf_dfa dfa_broken dfa_checks_ok_iff dfa_bad_broken wf_dfa_sound m k). Qed.

Theorem dfa_single_rule_kind m k : dfa_broken m k -> (forall k', dfa_broken m k' -> k' = k) ->
  dfa_validate m = Err (Invalid k).
Proof. exact (g_single_rule dfa dfa_checks wf_dfa dfa_broken dfa_checks_ok_iff dfa_bad_broken wf_dfa_sound m k). Qed.

(* valid_dfa of Spec/FA.v = "no duplicate keys" + "the constructor accepts" *)
Theorem valid_dfa_agrees m : valid_dfa m = true <-> dfa_keys_ok m = true /\ dfa_validate m = Ok tt.
Proof.
  rewrite dfa_validate_iff_wf. unfold valid_dfa, dfa_keys_ok.
  repeat rewrite andb_true_iff. repeat rewrite forallb_forall.
  split.
  - intros [[[[[[N1 N2] N3] R] Rows] I] F].
    split.
    + repeat split; try assumption. intros [q row] Hrow. simpl.
      specialize (Rows (q, row) Hrow). unfold row_ok in Rows. simpl in Rows.
      repeat rewrite andb_true_iff in Rows. tauto.
    + constructor.
      * intros q Hq. apply memb_In. apply R. exact Hq.
      * intros Hp q row a Hrow Ha. specialize (Rows (q, row) Hrow). unfold row_ok in Rows. simpl in Rows.
        repeat rewrite andb_true_iff in Rows. destruct Rows as [_ C]. rewrite Hp in C. simpl in C.
        rewrite forallb_forall in C. apply memb_In. apply C. exact Ha.
      * intros q row a t Hrow Hat. specialize (Rows (q, row) Hrow). unfold row_ok in Rows. simpl in Rows.
        repeat rewrite andb_true_iff in Rows. destruct Rows as [[_ C] _].
        rewrite forallb_forall in C. specialize (C (a, t) Hat). simpl in C. apply andb_true_iff in C.
        apply memb_In. tauto.
      * intros q row a t Hrow Hat. specialize (Rows (q, row) Hrow). unfold row_ok in Rows. simpl in Rows.
        repeat rewrite andb_true_iff in Rows. destruct Rows as [[_ C] _].
        rewrite forallb_forall in C. specialize (C (a, t) Hat). simpl in C. apply andb_true_iff in C.
        apply memb_In. tauto.
      * apply memb_In. exact I.
      * apply subsetb_incl. exact F.
  - intros [[[[N1 N2] N3] N4] [H1 H2 H3 H4 H5 H6]].
    repeat split; try assumption.
    + intros q Hq. apply memb_In. apply H1. exact Hq.
    + intros [q row] Hrow. simpl. unfold row_ok. repeat rewrite andb_true_iff. repeat split.
      * exact (N4 (q, row) Hrow).
      * apply forallb_forall. intros [a t] Hat. simpl. apply andb_true_iff. split; apply memb_In.
        -- eapply H3; eauto.
        -- eapply H4; eauto.
      * destruct (d_partial m) eqn:Hp; [reflexivity|]. simpl. apply forallb_forall. intros a Ha.
        apply memb_In. eapply H2; eauto.
    + apply memb_In. exact H5.
    + apply subsetb_incl. exact H6.
Qed.

(* ------------------------------------------------------------------ NFA *)
Record wf_nfa (m : nfa) : Prop := mk_wf_nfa {
  wn_syms : forall q row a ts, In (q, row) (n_trans m) -> In (Some a, ts) row -> In a (n_syms m);
  wn_ends : forall q row a ts t, In (q, row) (n_trans m) -> In (a, ts) row -> In t ts -> In t (n_states m);
  wn_init : In (n_init m) (n_states m);
  wn_init_row : In (n_init m) (map fst (n_trans m)) \/ length (n_states m) <= 1;
  wn_finals : incl (n_finals m) (n_states m) }.

Inductive nfa_broken (m : nfa) : nat -> Prop :=
| nb_sym q row a ts : In (q, row) (n_trans m) -> In (Some a, ts) row -> ~ In a (n_syms m) -> nfa_broken m 2
| nb_end q row a ts t : In (q, row) (n_trans m) -> In (a, ts) row -> In t ts -> ~ In t (n_states m) -> nfa_broken m 1
| nb_init : ~ In (n_init m) (n_states m) -> nfa_broken m 1
| nb_init_row : ~ In (n_init m) (map fst (n_trans m)) -> 1 < length (n_states m) -> nfa_broken m 3   (* MissingStateError *)
| nb_final q : In q (n_finals m) -> ~ In q (n_states m) -> nfa_broken m 1.

Lemma nfa_checks_In m c :
  In c (nfa_checks m) <->
  (exists qr, In qr (n_trans m) /\ In c (nfa_row_checks m (snd qr))) \/
  c = (1, memb (n_init m) (n_states m)) \/
  c = (3, memb (n_init m) (map fst (n_trans m)) || Nat.leb (length (n_states m)) 1) \/
  c = (1, subsetb (n_finals m) (n_states m)).
Proof.
  unfold nfa_checks. rewrite in_app_iff, in_flat_map. simpl.
  split.
  - intros [H|[H|[H|[H|[]]]]]; auto.
  - intros [H|[H|[H|H]]]; auto.
Qed.

Lemma osym_ok_Some syms a : osym_ok syms (Some a) = memb a syms.
Proof. reflexivity. Qed.

Lemma nfa_checks_ok_iff m : (forall c, In c (nfa_checks m) -> snd c = true) <-> wf_nfa m.
Proof.
  split.
  - intro H. constructor.
    + intros q row a ts Hrow Hat.
      assert (E : forallb (fun p => osym_ok (n_syms m) (fst p)) row = true).
      { apply (H (2, _)). apply nfa_checks_In. left. exists (q, row). split; [exact Hrow|]. simpl. auto. }
      rewrite forallb_forall in E. apply memb_In. apply (E (Some a, ts)). exact Hat.
    + intros q row a ts t Hrow Hat Ht.
      assert (E : forallb (fun p => subsetb (snd p) (n_states m)) row = true).
      { apply (H (1, _)). apply nfa_checks_In. left. exists (q, row). split; [exact Hrow|]. simpl. auto. }
      rewrite forallb_forall in E. specialize (E (a, ts) Hat). simpl in E.
      apply subsetb_incl in E. apply E. exact Ht.
    + apply memb_In. apply (H (1, _)). apply nfa_checks_In. right. left. reflexivity.
    + assert (E := H (3, _) (proj2 (nfa_checks_In m _) (or_intror (or_intror (or_introl eq_refl))))).
      simpl in E. apply orb_true_iff in E. destruct E as [E|E].
      * left. apply memb_In. exact E.
      * right. apply Nat.leb_le. exact E.
    + apply subsetb_incl. apply (H (1, _)). apply nfa_checks_In. right. right. right. reflexivity.
  - intros [H1 H2 H3 H4 H5] c Hc. apply nfa_checks_In in Hc.
    destruct Hc as [[[q row] [Hrow Hc]]|[Hc|[Hc|Hc]]]; subst; simpl.
    + simpl in Hc. destruct Hc as [Hc|[Hc|[]]]; subst; simpl.
      * apply forallb_forall. intros [[a|] ts] Hat; simpl; [|reflexivity]. apply memb_In. eapply H1; eauto.
      * apply forallb_forall. intros [a ts] Hat. simpl. apply subsetb_incl. intros t Ht. eapply H2; eauto.
    + apply memb_In. exact H3.
    + apply orb_true_iff. destruct H4 as [H4|H4]; [left; apply memb_In; exact H4|right; apply Nat.leb_le; exact H4].
    + apply subsetb_incl. exact H5.
Qed.

Lemma nfa_bad_broken m k : In (k, false) (nfa_checks m) -> nfa_broken m k.
Proof.
  intro Hc. apply nfa_checks_In in Hc.
  destruct Hc as [[[q row] [Hrow Hc]]|[Hc|[Hc|Hc]]].
  - simpl in Hc. destruct Hc as [Hc|[Hc|[]]]; inversion Hc as [[Ek E]].
    + apply forallb_false in E. destruct E as [[[a|] ts] [Hat E]]; simpl in E; [|discriminate].
      apply (nb_sym m q row a ts Hrow Hat). apply memb_false. exact E.
    + apply forallb_false in E. destruct E as [[a ts] [Hat E]]. simpl in E.
      apply subsetb_false in E. destruct E as [t [Ht Hn]].
      exact (nb_end m q row a ts t Hrow Hat Ht Hn).
  - inversion Hc as [[Ek E]]. symmetry in E. apply nb_init. apply memb_false. exact E.
  - inversion Hc as [[Ek E]]. symmetry in E. apply orb_false_iff in E. destruct E as [E1 E2].
    apply nb_init_row; [apply memb_false; exact E1|apply leb_1_false; exact E2].
  - inversion Hc as [[Ek E]]. symmetry in E. apply subsetb_false in E. destruct E as [q [Hq Hn]].
    exact (nb_final m q Hq Hn).
Qed.

Lemma wf_nfa_sound m k : wf_nfa m -> ~ nfa_broken m k.
Proof.
  intros [H1 H2 H3 H4 H5] Hb. inversion Hb; subst.
  - match goal with H : ~ In _ (n_syms m) |- _ => apply H end. eapply H1; eassumption.
  - match goal with H : ~ In _ (n_states m) |- _ => apply H end. eapply H2; eassumption.
  - match goal with H : ~ In _ (n_states m) |- _ => apply H end. exact H3.
  - destruct H4 as [H4|H4]; [contradiction|lia].
  - match goal with H : ~ In _ (n_states m) |- _ => apply H end. apply H5. assumption.
Qed.

Theorem nfa_validate_iff_wf m : nfa_validate m = Ok tt <-> wf_nfa m.
Proof. exact (g_validate_iff nfa nfa_checks wf_nfa nfa_checks_ok_iff m). Qed.

Theorem nfa_validate_err_sound m e : nfa_validate m = Err e -> exists k, e = Invalid k /\ nfa_broken m k.
Proof. exact (g_err_sound nfa nfa_checks nfa_broken nfa_bad_broken m e). Qed.

Theorem nfa_broken_rejected m k : nfa_broken m k -> exists k', nfa_validate m = Err (Invalid k') /\ nfa_broken m k'.
Proof. exact (g_broken_rejected nfa nfa_checks wf_nfa nfa_broken nfa_checks_ok_iff nfa_bad_broken wf_nfa_sound m k). Qed.

Theorem nfa_single_rule_kind m k : nfa_broken m k -> (forall k', nfa_broken m k' -> k' = k) ->
  nfa_validate m = Err (Invalid k).
Proof. exact (g_single_rule nfa nfa_checks wf_nfa nfa_broken nfa_checks_ok_iff nfa_bad_broken wf_nfa_sound m k). Qed.

Theorem valid_nfa_agrees m : valid_nfa m = true <-> nfa_keys_ok m = true /\ nfa_validate m = Ok tt.
Proof.
  rewrite nfa_validate_iff_wf. unfold valid_nfa, nfa_keys_ok.
  repeat rewrite andb_true_iff. rewrite forallb_forall. rewrite orb_true_iff.
  split.
  - intros [[[[[[N1 N2] N3] Rows] I] IR] F].
    split; [repeat split; assumption|]. constructor.
    + intros q row a ts Hrow Hat. specialize (Rows (q, row) Hrow). unfold nrow_ok in Rows. simpl in Rows.
      rewrite forallb_forall in Rows. specialize (Rows (Some a, ts) Hat). simpl in Rows.
      apply andb_true_iff in Rows. apply memb_In. tauto.
    + intros q row a ts t Hrow Hat Ht. specialize (Rows (q, row) Hrow). unfold nrow_ok in Rows. simpl in Rows.
      rewrite forallb_forall in Rows. specialize (Rows (a, ts) Hat). simpl in Rows.
      apply andb_true_iff in Rows. destruct Rows as [_ S]. apply subsetb_incl in S. apply S. exact Ht.
    + apply memb_In. exact I.
    + destruct IR as [E|E]; [left; apply memb_In; exact E|right; apply Nat.leb_le; exact E].
    + apply subsetb_incl. exact F.
  - intros [[[N1 N2] N3] [H1 H2 H3 H4 H5]].
    repeat split; try assumption.
    + intros [q row] Hrow. simpl. unfold nrow_ok. apply forallb_forall. intros [a ts] Hat. simpl.
      apply andb_true_iff. split.
      * destruct a as [a|]; [|reflexivity]. apply memb_In. eapply H1; eauto.
      * apply subsetb_incl. intros t Ht. eapply H2; eauto.
    + apply memb_In. exact H3.
    + destruct H4 as [H4|H4]; [left; apply memb_In; exact H4|right; apply Nat.leb_le; exact H4].
    + apply subsetb_incl. exact H5.
Qed.

(* ------------------------------------------------------------------ PDA *)
Lemma oassoc_In' {B} a (row : list (option nat * B)) v : oassoc a row = Some v -> In (a, v) row.
Proof.
  induction row as [|[k x] r IH]; simpl; [discriminate|].
  destruct (eqb_opt Nat.eqb a k) eqn:E.
  - apply (eqb_opt_ok _ eqb_nat_ok) in E. subst. intro H. inversion H. left. reflexivity.
  - intro H. right. apply IH. exact H.
Qed.

(* rules shared by both classes: keys of the table, initial data, final states, acceptance mode *)
Record wf_npda (m : pda) (mode : nat) : Prop := mk_wf_npda {
  wp_in : forall q row a tops, In (q, row) (p_trans m) -> In (Some a, tops) row -> In a (p_syms m);
  wp_stack : forall q row a tops Z, In (q, row) (p_trans m) -> In (a, tops) row -> In Z (map fst tops) ->
             In Z (p_stack_syms m);
  wp_init : In (p_init m) (p_states m);
  wp_init_stack : In (p_init_stack m) (p_stack_syms m);
  wp_finals : incl (p_finals m) (p_states m);
  wp_mode : mode <= 2 }.

(* DPDA: additionally no state has an empty-string move and a symbol move under the same stack top *)
Definition no_lambda_clash (m : pda) : Prop :=
  forall q (row : prow) a (tops eps : ptops) Z, In (q, row) (p_trans m) -> oassoc None row = Some eps ->
    In (Some a, tops) row -> In Z (map fst tops) -> ~ In Z (map fst eps).

Definition wf_dpda (m : pda) (mode : nat) : Prop := wf_npda m mode /\ no_lambda_clash m.

Lemma pda_tail_In m mode c :
  In c (pda_tail_checks m mode) <->
  c = (1, memb (p_init m) (p_states m)) \/ c = (2, memb (p_init_stack m) (p_stack_syms m)) \/
  c = (1, subsetb (p_finals m) (p_states m)) \/ c = (21, Nat.leb mode 2).
Proof.
  unfold pda_tail_checks. simpl. split.
  - intros [H|[H|[H|[H|[]]]]]; auto.
  - intros [H|[H|[H|H]]]; auto.
Qed.

Lemma npda_row_In m row c :
  In c (npda_row_checks m row) <->
  exists ar, In ar row /\ (c = (2, osym_ok (p_syms m) (fst ar)) \/
                           exists Z, In Z (map fst (snd ar)) /\ c = (2, memb Z (p_stack_syms m))).
Proof.
  unfold npda_row_checks. rewrite in_flat_map. split.
  - intros [ar [Har [H|H]]]; exists ar; (split; [exact Har|]).
    + left. symmetry. exact H.
    + right. apply in_map_iff in H. destruct H as [Z [E HZ]]. exists Z. split; [exact HZ|symmetry; exact E].
  - intros [ar [Har [H|[Z [HZ H]]]]]; exists ar; (split; [exact Har|]).
    + left. symmetry. exact H.
    + right. apply in_map_iff. exists Z. split; [symmetry; exact H|exact HZ].
Qed.

Lemma dpda_row_In m row c :
  In c (dpda_row_checks m row) <->
  exists ar, In ar row /\ (c = (2, osym_ok (p_syms m) (fst ar)) \/
                           exists Z, In Z (map fst (snd ar)) /\
                                     (c = (20, det_isolated_ok row (fst ar)) \/ c = (2, memb Z (p_stack_syms m)))).
Proof.
  unfold dpda_row_checks. rewrite in_flat_map. split.
  - intros [ar [Har [H|H]]]; exists ar; (split; [exact Har|]).
    + left. symmetry. exact H.
    + right. apply in_flat_map in H. destruct H as [Z [HZ [H|[H|[]]]]]; exists Z; (split; [exact HZ|]).
      * left. symmetry. exact H.
      * right. symmetry. exact H.
  - intros [ar [Har [H|[Z [HZ H]]]]]; exists ar; (split; [exact Har|]).
    + left. symmetry. exact H.
    + right. apply in_flat_map. exists Z. split; [exact HZ|]. simpl. destruct H as [H|H]; [left|right; left]; symmetry; exact H.
Qed.

Lemma tail_ok_iff m mode :
  (forall c, In c (pda_tail_checks m mode) -> snd c = true) <->
  In (p_init m) (p_states m) /\ In (p_init_stack m) (p_stack_syms m) /\ incl (p_finals m) (p_states m) /\ mode <= 2.
Proof.
  split.
  - intro H. repeat split.
    + apply memb_In. apply (H (1, _)). apply pda_tail_In. auto.
    + apply memb_In. apply (H (2, _)). apply pda_tail_In. auto.
    + apply subsetb_incl. apply (H (1, _)). apply pda_tail_In. auto.
    + apply Nat.leb_le. apply (H (21, _)). apply pda_tail_In. auto.
  - intros [H1 [H2 [H3 H4]]] c Hc. apply pda_tail_In in Hc. destruct Hc as [Hc|[Hc|[Hc|Hc]]]; subst; simpl.
    + apply memb_In. exact H1.
    + apply memb_In. exact H2.
    + apply subsetb_incl. exact H3.
    + apply Nat.leb_le. exact H4.
Qed.

Lemma npda_checks_ok_iff m mode : (forall c, In c (npda_checks m mode) -> snd c = true) <-> wf_npda m mode.
Proof.
  unfold npda_checks. split.
  - intro H.
    assert (Ht : forall c, In c (pda_tail_checks m mode) -> snd c = true).
    { intros c Hc. apply H. apply in_app_iff. right. exact Hc. }
    apply tail_ok_iff in Ht. destruct Ht as [T1 [T2 [T3 T4]]].
    assert (Hr : forall q row c, In (q, row) (p_trans m) -> In c (npda_row_checks m row) -> snd c = true).
    { intros q row c Hrow Hc. apply H. apply in_app_iff. left. apply in_flat_map. exists (q, row). split; assumption. }
    constructor; try assumption.
    + intros q row a tops Hrow Hat. apply memb_In.
      apply (Hr q row (2, osym_ok (p_syms m) (Some a)) Hrow). apply npda_row_In. exists (Some a, tops). split; [exact Hat|left; reflexivity].
    + intros q row a tops Z Hrow Hat HZ. apply memb_In.
      apply (Hr q row (2, memb Z (p_stack_syms m)) Hrow). apply npda_row_In. exists (a, tops). split; [exact Hat|right]. exists Z. split; [exact HZ|reflexivity].
  - intros [H1 H2 H3 H4 H5 H6] c Hc. apply in_app_iff in Hc. destruct Hc as [Hc|Hc].
    + apply in_flat_map in Hc. destruct Hc as [[q row] [Hrow Hc]]. simpl in Hc.
      apply npda_row_In in Hc. destruct Hc as [[a tops] [Hat [Hc|[Z [HZ Hc]]]]]; subst; simpl.
      * destruct a as [a|]; [|reflexivity]. apply memb_In. eapply H1; eauto.
      * apply memb_In. eapply H2; eauto.
    + revert c Hc. apply tail_ok_iff. auto.
Qed.

Lemma det_isolated_ok_iff (row : prow) :
  (forall ar Z, In ar row -> In Z (map fst (snd ar)) -> det_isolated_ok row (fst ar) = true) <->
  (forall a (tops eps : ptops) Z, oassoc None row = Some eps -> In (Some a, tops) row -> In Z (map fst tops) ->
                        ~ In Z (map fst eps)).
Proof.
  split.
  - intros H a tops eps Z He Hat HZ HZe.
    pose proof (oassoc_In' _ _ _ He) as Hin.
    specialize (H (None, eps) Z Hin HZe). unfold det_isolated_ok in H. simpl in H. rewrite He in H.
    rewrite forallb_forall in H. specialize (H (Some a, tops) Hat). simpl in H.
    unfold det_sibling_ok in H. rewrite forallb_forall in H. specialize (H Z HZ).
    apply negb_true_iff in H. apply memb_false in H. contradiction.
  - intros H [[a|] tops] Z Har HZ; unfold det_isolated_ok; simpl; [reflexivity|].
    destruct (oassoc None row) as [eps|] eqn:He; [|reflexivity].
    apply forallb_forall. intros [[b|] tops'] Hb; simpl; [|reflexivity].
    unfold det_sibling_ok. apply forallb_forall. intros Z' HZ'. apply negb_true_iff. apply memb_false.
    eapply H; eauto.
Qed.

Lemma dpda_checks_ok_iff m mode : (forall c, In c (dpda_checks m mode) -> snd c = true) <-> wf_dpda m mode.
Proof.
  unfold dpda_checks, wf_dpda. split.
  - intro H.
    assert (Ht : forall c, In c (pda_tail_checks m mode) -> snd c = true).
    { intros c Hc. apply H. apply in_app_iff. right. exact Hc. }
    apply tail_ok_iff in Ht. destruct Ht as [T1 [T2 [T3 T4]]].
    assert (Hr : forall q row c, In (q, row) (p_trans m) -> In c (dpda_row_checks m row) -> snd c = true).
    { intros q row c Hrow Hc. apply H. apply in_app_iff. left. apply in_flat_map. exists (q, row). split; assumption. }
    split; [constructor; try assumption|].
    + intros q row a tops Hrow Hat. apply memb_In.
      apply (Hr q row (2, osym_ok (p_syms m) (Some a)) Hrow). apply dpda_row_In. exists (Some a, tops). split; [exact Hat|left; reflexivity].
    + intros q row a tops Z Hrow Hat HZ. apply memb_In.
      apply (Hr q row (2, memb Z (p_stack_syms m)) Hrow). apply dpda_row_In. exists (a, tops). split; [exact Hat|right]. exists Z. split; [exact HZ|right; reflexivity].
    + intros q row a tops eps Z Hrow. revert a tops eps Z. apply det_isolated_ok_iff.
      intros ar Z Har HZ. apply (Hr q row (20, det_isolated_ok row (fst ar)) Hrow).
      apply dpda_row_In. exists ar. split; [exact Har|right]. exists Z. split; [exact HZ|left; reflexivity].
  - intros [[H1 H2 H3 H4 H5 H6] Hd] c Hc. apply in_app_iff in Hc. destruct Hc as [Hc|Hc].
    + apply in_flat_map in Hc. destruct Hc as [[q row] [Hrow Hc]]. simpl in Hc.
      apply dpda_row_In in Hc. destruct Hc as [[a tops] [Hat [Hc|[Z [HZ [Hc|Hc]]]]]]; subst; simpl.
      * destruct a as [a|]; [|reflexivity]. apply memb_In. eapply H1; eauto.
      * apply (proj2 (det_isolated_ok_iff row)) with (ar := (a, tops)) (Z := Z); [|exact Hat|exact HZ].
        intros a' tops' eps Z'. apply (Hd q row a' tops' eps Z' Hrow).
      * apply memb_In. eapply H2; eauto.
    + revert c Hc. apply tail_ok_iff. auto.
Qed.

Theorem npda_validate_iff_wf m mode : npda_validate m mode = Ok tt <-> wf_npda m mode.
Proof. unfold npda_validate. rewrite first_bad_ok. apply npda_checks_ok_iff. Qed.

Theorem dpda_validate_iff_wf m mode : dpda_validate_raw m mode = Ok tt <-> wf_dpda m mode.
Proof. unfold dpda_validate_raw. rewrite first_bad_ok. apply dpda_checks_ok_iff. Qed.

(* kinds a PDA constructor can raise *)
Lemma pda_kinds m mode e : npda_validate m mode = Err e \/ dpda_validate_raw m mode = Err e ->
  e = Invalid 1 \/ e = Invalid 2 \/ e = Invalid 20 \/ e = Invalid 21.
Proof.
  assert (T : forall k b, In (k, b) (pda_tail_checks m mode) -> k = 1 \/ k = 2 \/ k = 20 \/ k = 21).
  { intros k b Hc. apply pda_tail_In in Hc. destruct Hc as [Hc|[Hc|[Hc|Hc]]]; inversion Hc; auto. }
  intros [H|H]; apply first_bad_err in H; destruct H as [k [-> Hin]]; apply in_app_iff in Hin;
    destruct Hin as [Hin|Hin]; try (destruct (T _ _ Hin) as [-> | [-> | [-> | ->]]]; auto);
    apply in_flat_map in Hin; destruct Hin as [[q row] [_ Hin]]; simpl in Hin.
  - apply npda_row_In in Hin. destruct Hin as [ar [_ [Hc|[Z [_ Hc]]]]]; inversion Hc; auto.
  - apply dpda_row_In in Hin. destruct Hin as [ar [_ [Hc|[Z [_ [Hc|Hc]]]]]]; inversion Hc; auto.
Qed.
