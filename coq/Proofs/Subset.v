From Coq Require Import List Arith Bool Lia.
From AV Require Import Base.Util Base.Closure Spec.Lang Spec.FA Model.FARun Model.Decide Model.Product Model.Build
     Model.Subset Proofs.FARun Proofs.Decide Proofs.Product Proofs.Build Proofs.DFAOps.
Import ListNotations.

Section Det.
  Variable m : nfa.
  Hypothesis Hv : valid_nfa m = true.

  Lemma det_succ_det S : NoDup (map fst (det_succ m S)).
  Proof.
    unfold det_succ. apply flat_map_keys_NoDup.
    - apply ssorted_NoDup, set_of_sorted.
    - intros c x Hx. destruct (nset_step m S c); [destruct Hx|]. destruct Hx as [<-|[]]. reflexivity.
    - intro c. destruct (nset_step m S c); simpl; lia.
  Qed.

  Lemma nset_step_nil c : nset_step m [] c = [].
  Proof. reflexivity. Qed.

  Lemma fold_step_nil w : fold_left (nset_step m) w [] = [].
  Proof. induction w as [|c w IH]; simpl; [reflexivity|exact IH]. Qed.

  Lemma nset_step_foreign S c : ~ In c (n_syms m) -> nset_step m S c = [].
  Proof.
    intro Hc. destruct (nset_step m S c) as [|x r] eqn:E; [reflexivity|]. exfalso.
    assert (Hx : In x (nset_step m S c)) by (rewrite E; left; reflexivity).
    apply (nset_step_In m Hv) in Hx. destruct Hx as [q [t [_ [He _]]]].
    apply Hc. eapply edge_sym_in_syms; eassumption.
  Qed.

  Lemma det_lstep S c :
    lstep (list nat) (det_succ m) S c = match nset_step m S c with [] => None | t => Some t end.
  Proof.
    unfold lstep. destruct (nset_step m S c) as [|x r] eqn:E.
    - destruct (assoc c (det_succ m S)) as [t|] eqn:Ea; [|reflexivity].
      apply assoc_In in Ea. unfold det_succ in Ea. apply in_flat_map in Ea. destruct Ea as [c' [_ H]].
      destruct (nset_step m S c') eqn:E'; [destruct H|]. destruct H as [H|[]]. inversion H; subst. congruence.
    - apply assoc_NoDup; [apply det_succ_det|]. unfold det_succ. apply in_flat_map. exists c. split.
      + apply (proj2 (set_of_In _ _)). destruct (memb c (n_syms m)) eqn:Em; [apply memb_In; exact Em|].
        apply memb_false in Em. rewrite (nset_step_foreign S c Em) in E. discriminate.
      + rewrite E. left. reflexivity.
  Qed.

  Lemma det_lrun_final w : forall S,
    match lrun (list nat) (det_succ m) S w with Some T => nset_final m T | None => false end
    = nset_final m (fold_left (nset_step m) w S).
  Proof.
    induction w as [|c w IH]; intro S; simpl; [reflexivity|]. rewrite det_lstep.
    destruct (nset_step m S c) as [|x r] eqn:E.
    - rewrite fold_step_nil. reflexivity.
    - apply IH.
  Qed.

  Lemma det_labels S c t : In (c, t) (det_succ m S) -> In c (n_syms m).
  Proof.
    unfold det_succ. intro H. apply in_flat_map in H. destruct H as [c' [Hc' H]].
    destruct (nset_step m S c'); [destruct H|]. destruct H as [H|[]]. inversion H; subst.
    apply (proj1 (set_of_In _ _)). exact Hc'.
  Qed.

  Lemma n_syms_NoDup : NoDup (n_syms m).
  Proof.
    unfold valid_nfa in Hv. repeat rewrite andb_true_iff in Hv.
    destruct Hv as [[[[[[_ H] _] _] _] _] _]. apply nodupb_NoDup. exact H.
  Qed.

  Theorem determinize_sound R : determinize_m m = Ok R ->
    valid_dfa R = true /\ d_syms R = n_syms m /\ (forall w, dfa_acc R w = nfa_acc m w) /\ L_dfa R =L L_nfa m.
  Proof.
    unfold determinize_m, build_dfa, explore.
    destruct (closure _ _ (det_fuel m) [nset_init m]) as [ps|] eqn:Ec; [|discriminate].
    intro H. inversion H; subst R. clear H.
    assert (Heq : eqb_ok (eqb_list Nat.eqb)) by apply eqb_list_ok, eqb_nat_ok.
    destruct (closure_head _ _ _ _ _ _ Ec) as [rest Hhead].
    assert (Hnd : NoDup ps) by (eapply closure_NoDup; [exact Heq|exact Ec]).
    assert (Hclosed : forall p c t, In p ps -> In (c, t) (det_succ m p) -> In t ps).
    { intros p c t Hp Hin. apply (closure_complete _ _ Heq _ _ _ _ Ec).
      eapply reach_step; [apply (closure_sound _ _ Heq _ _ _ _ Ec); exact Hp|].
      apply in_map_iff. exists (c, t). split; [reflexivity|exact Hin]. }
    assert (Hacc : forall w, dfa_acc (build_from (list nat) (eqb_list Nat.eqb) (det_succ m) (nset_final m) (n_syms m) ps) w
                             = nfa_acc m w).
    { intro w. rewrite (M_acc _ _ Heq _ _ det_succ_det _ ps Hnd Hclosed _ rest w Hhead).
      rewrite det_lrun_final. reflexivity. }
    split; [|split; [reflexivity|split; [exact Hacc|]]].
    - eapply (M_valid _ _ Heq _ _ det_succ_det _ ps n_syms_NoDup); [|exact Hhead].
      intros p c t _ Hin. eapply det_labels. exact Hin.
    - intro w. unfold L_dfa. rewrite Hacc. apply nfa_acc_spec. exact Hv.
  Qed.

  Theorem determinize_total : length (n_states m) <= 14 -> exists R, determinize_m m = Ok R.
  Proof.
    intro Hsz. unfold determinize_m, build_dfa, explore.
    destruct (closure _ _ (det_fuel m) [nset_init m]) as [ps|] eqn:Ec; [eexists; reflexivity|].
    exfalso. revert Ec.
    apply (closure_fuel _ _ (eqb_list_ok _ eqb_nat_ok) _ (nuniverse m)).
    - intros x y Hx Hy. apply in_map_iff in Hy. destruct Hy as [[c t] [<- Hin]]. simpl.
      unfold det_succ in Hin. apply in_flat_map in Hin. destruct Hin as [c' [_ H]].
      destruct (nset_step m x c') eqn:E; [destruct H|]. destruct H as [H|[]]. inversion H; subst.
      rewrite <- E. apply nuniverse_closed; assumption.
    - intros x [<-|[]]. apply nuniverse_init. exact Hv.
    - unfold det_fuel. apply Nat.leb_le in Hsz. rewrite Hsz.
      pose proof (nuniverse_length m). lia.
  Qed.
End Det.

(* ---- NFA.from_dfa ---- *)
Section FromDFA.
  Variable d : dfa.
  Hypothesis Hv : valid_dfa d = true.
  Notation N := (from_dfa_m d).

  Lemma oassoc_map_some a (row : list (nat * nat)) :
    oassoc (Some a) (map (fun ct => (Some (fst ct), [snd ct])) row) = option_map (fun t => [t]) (assoc a row).
  Proof.
    induction row as [|[c t] r IH]; simpl; [reflexivity|].
    destruct (Nat.eqb a c); [reflexivity|exact IH].
  Qed.

  Lemma oassoc_map_none (row : list (nat * nat)) :
    oassoc (@None nat) (map (fun ct => (Some (fst ct), [snd ct])) row) = None.
  Proof. induction row as [|[c t] r IH]; simpl; [reflexivity|exact IH]. Qed.

  Lemma from_targets q a : n_targets N q (Some a) = match d_delta d q a with Some t => [t] | None => [] end.
  Proof.
    unfold n_targets, d_delta, d_row. simpl. rewrite (assoc_map_snd (map (fun ct => (Some (fst ct), [snd ct])))).
    destruct (assoc q (d_trans d)) as [row|]; simpl; [|reflexivity].
    rewrite oassoc_map_some. destruct (assoc a row); reflexivity.
  Qed.

  Lemma from_no_eps q : n_targets N q None = [].
  Proof.
    unfold n_targets. simpl. rewrite (assoc_map_snd (map (fun ct => (Some (fst ct), [snd ct])))).
    destruct (assoc q (d_trans d)) as [row|]; simpl; [|reflexivity]. rewrite oassoc_map_none. reflexivity.
  Qed.

  Lemma from_path p w q : nfa_path N p w q <-> dfa_run d (Some p) w = Some q.
  Proof.
    split.
    - intro H. induction H as [q|p q r w He Hp IH|p a q r w He Hp IH].
      + reflexivity.
      + unfold n_edge in He. rewrite from_no_eps in He. destruct He.
      + unfold n_edge in He. rewrite from_targets in He. simpl.
        destruct (d_delta d p a) as [t|]; [|destruct He]. destruct He as [<-|[]]. exact IH.
    - revert p. induction w as [|a w IH]; intros p H; simpl in H.
      + inversion H. apply np_refl.
      + destruct (d_delta d p a) as [t|] eqn:E; [|rewrite dfa_run_None in H; discriminate].
        eapply np_sym; [|apply IH; exact H]. unfold n_edge. rewrite from_targets, E. left. reflexivity.
  Qed.

  Theorem from_dfa_lang : L_nfa N =L L_dfa d.
  Proof.
    intro w. unfold L_nfa, L_dfa, dfa_acc, dfa_acc_from. simpl n_init. simpl n_finals. split.
    - intros [q [Hp Hf]]. apply from_path in Hp. rewrite Hp. simpl. apply memb_In. exact Hf.
    - destruct (dfa_run d (Some (d_init d)) w) as [q|] eqn:E; [|discriminate]. simpl. intro Hf.
      exists q. split; [apply from_path; exact E|apply memb_In; exact Hf].
  Qed.

  Theorem from_dfa_valid : valid_nfa N = true.
  Proof.
    destruct (valid_dfa_parts d Hv) as (H1 & H2 & H3 & H4 & H5 & H6 & H7).
    unfold valid_nfa. simpl. repeat (apply andb_true_iff; split).
    - apply nodupb_NoDup; exact H1.
    - apply nodupb_NoDup; exact H2.
    - apply nodupb_NoDup. rewrite map_map. simpl. exact H3.
    - apply forallb_forall. intros [q row] Hin. apply in_map_iff in Hin. destruct Hin as [[q' row'] [E Hin]].
      simpl in E. inversion E; subst. clear E. simpl. unfold nrow_ok. apply forallb_forall.
      intros [a ts] Ha. apply in_map_iff in Ha. destruct Ha as [[c t] [E Ha]]. simpl in E. inversion E; subst.
      specialize (H5 _ _ Hin). unfold row_ok in H5. repeat rewrite andb_true_iff in H5.
      destruct H5 as [[_ H5] _]. rewrite forallb_forall in H5. specialize (H5 _ Ha). simpl in *.
      apply andb_true_iff in H5. destruct H5 as [Hc Ht]. rewrite Hc. simpl. rewrite Ht. reflexivity.
    - apply memb_In; exact H6.
    - apply orb_true_iff. left. apply memb_In. rewrite map_map. simpl. apply H4. exact H6.
    - apply subsetb_incl; exact H7.
  Qed.
End FromDFA.

(* ---- NFA equality ---- *)
Section NEq.
  Variables A B : nfa.
  Hypothesis HA : valid_nfa A = true.
  Hypothesis HB : valid_nfa B = true.

  Theorem nfa_eq_sound b : nfa_eq_m A B = Ok b -> (b = true <-> L_nfa A =L L_nfa B).
  Proof.
    unfold nfa_eq_m. destruct (nsame_syms A B); [|discriminate].
    destruct (nfa_diff A B) as [r|e] eqn:E; simpl; [|discriminate]. intro H. inversion H; subst b.
    destruct (nfa_diff_sound A B HA HB r E) as [H1 _]. rewrite <- H1. destruct r; simpl; split; congruence.
  Qed.

  Theorem nfa_ne_sound b : nfa_ne_m A B = Ok b -> (b = true <-> ~ (L_nfa A =L L_nfa B)).
  Proof.
    unfold nfa_ne_m. destruct (nfa_eq_m A B) as [b'|e] eqn:E; simpl; [|discriminate].
    intro H. inversion H; subst b. pose proof (nfa_eq_sound b' E) as Hb. rewrite negb_true_iff.
    destruct b'; split; intro H'; try discriminate; try reflexivity.
    - exfalso. apply H'. apply Hb. reflexivity.
    - intro H2. apply Hb in H2. discriminate.
  Qed.

  Theorem nfa_eq_total : nsame_syms A B = true -> length (n_states A) + length (n_states B) <= 14 ->
    exists b, nfa_eq_m A B = Ok b.
  Proof.
    intros Hs Hsz. unfold nfa_eq_m. rewrite Hs. destruct (nfa_diff_total A B HA HB Hsz) as [r ->].
    simpl. eauto.
  Qed.
End NEq.

Lemma bool_iff_eq (a b : bool) (P : Prop) : (a = true <-> P) -> (b = true <-> P) -> a = b.
Proof. intros H1 H2. apply bool_eq_iff. rewrite H1, H2. tauto. Qed.

Theorem nfa_eq_symmetric A B b b' : valid_nfa A = true -> valid_nfa B = true ->
  nfa_eq_m A B = Ok b -> nfa_eq_m B A = Ok b' -> b = b'.
Proof.
  intros HA HB E1 E2. apply (bool_iff_eq b b' (L_nfa A =L L_nfa B)).
  - apply nfa_eq_sound; assumption.
  - rewrite (nfa_eq_sound B A HB HA b' E2). split; apply lang_eq_sym.
Qed.

Theorem nfa_eq_as_determinised A B b DA DB b' : valid_nfa A = true -> valid_nfa B = true ->
  nfa_eq_m A B = Ok b -> determinize_m A = Ok DA -> determinize_m B = Ok DB -> eq_m DA DB = Ok b' -> b = b'.
Proof.
  intros HA HB E EA EB E'.
  destruct (determinize_sound A HA DA EA) as [VA [SA [_ LA]]].
  destruct (determinize_sound B HB DB EB) as [VB [SB [_ LB]]].
  apply (bool_iff_eq b b' (L_nfa A =L L_nfa B)).
  - apply nfa_eq_sound; assumption.
  - unfold eq_m, guard_syms in E'. destruct (same_syms DA DB) eqn:Es; [|discriminate].
    destruct (eq_spec DA DB VA VB Es) as [b'' [E'' H]]. unfold eq_m, guard_syms in E''. rewrite Es in E''.
    rewrite E' in E''. inversion E''; subst b''. rewrite H. split; intro HL.
    + eapply lang_eq_trans; [apply lang_eq_sym; exact LA|]. eapply lang_eq_trans; [exact HL|exact LB].
    + eapply lang_eq_trans; [exact LA|]. eapply lang_eq_trans; [exact HL|apply lang_eq_sym; exact LB].
Qed.
