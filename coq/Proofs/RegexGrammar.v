(* The regex grammar as an inductive relation on token lists, and its agreement with the
   validator and the parser of Model/RegexParse.v:
   (E) gram l ts r: "ts is a printing of the AST r, usable where precedence >= l is required,
       with ANY number of redundant parentheses around ANY sub-expression";
       gram 1 ts r -> validate_tokens ts = Ok tt /\ parse_tokens ts = Ok r;
   (F) the converse: every non-empty token list the (prev, curr)/counter scan of
       validate_tokens accepts is derivable in the grammar;
   (G) printing of parenthesis-decorated ASTs: extra parentheses anywhere change nothing. *)
From Coq Require Import List Arith Bool Lia.
From AV Require Import Base.Util Spec.Regex Model.RegexLex Model.RegexParse Proofs.RegexParse.
Import ListNotations.

(* ================================================================== *)
(* (E) the grammar                                                     *)
(* ================================================================== *)

(* level 1: operand position of | & ^ (left) / top level / inside parentheses;
   level 2: right operand of | & ^, left operand of a concatenation;
   level 3: right operand of a concatenation, operand of a postfix operator.
   The inserted tokens are part of the token type, so they have rules too: TEmpty is a
   literal (the empty string), TConcat an explicit infix operator of precedence 2. *)
Inductive gram : nat -> list token -> re -> Prop :=
| g_lit : forall l t, tclass_of t = KLit -> gram l [t] (lit_node t)
| g_eps : forall l, gram l [TLParen; TRParen] REps
| g_infix : forall o a b ra rb, tclass_of o = KInfix ->
    gram (prec o) a ra -> gram (S (prec o)) b rb ->
    gram (prec o) (a ++ [o] ++ b) (infix_node o ra rb)
| g_cat : forall a b ra rb, gram 2 a ra -> gram 3 b rb -> gram 2 (a ++ b) (RCat ra rb)
| g_postfix : forall o a ra, tclass_of o = KPostfix ->
    gram 3 a ra -> gram 3 (a ++ [o]) (postfix_node o ra)
| g_paren : forall l a ra, gram 1 a ra -> gram l ([TLParen] ++ a ++ [TRParen]) ra
| g_mono : forall l l' a ra, l' <= l -> gram l a ra -> gram l' a ra.

Definition regex_wf (ts : list token) : Prop := exists r, gram 1 ts r.

Lemma infix_prec : forall o, tclass_of o = KInfix -> prec o = 1 \/ prec o = 2.
Proof. destruct o; simpl; intro H; try discriminate; auto. Qed.

Lemma postfix_prec : forall o, tclass_of o = KPostfix -> prec o = 3.
Proof. destruct o; simpl; intro H; try discriminate; auto. Qed.

Definition Gr (l : nat) (ts : list token) (r : re) : Prop :=
  exists pf, G l ts pf /\ forall s, evs pf s = Ok (r :: s).

Lemma gram_Gr : forall l ts r, gram l ts r -> Gr l ts r.
Proof.
  induction 1 as [l t K|l|o a b ra rb K _ IHa _ IHb|a b ra rb _ IHa _ IHb|o a ra K _ IHa
                 |l a ra _ IHa|l l' a ra Hle _ IHa].
  - exists [t]. split; [apply G_lit; exact K|]. intro s. simpl. rewrite K. reflexivity.
  - exists [TEmpty]. split; [apply G_eps|]. reflexivity.
  - destruct IHa as [pa [Ga Ea]]. destruct IHb as [pb [Gb Eb]].
    exists (pa ++ pb ++ [o]). split.
    + apply G_infix; try assumption. destruct (infix_prec o K); lia.
    + intro s. rewrite evs_app, Ea. simpl. rewrite evs_app, Eb. simpl. rewrite K. reflexivity.
  - destruct IHa as [pa [Ga Ea]]. destruct IHb as [pb [Gb Eb]].
    exists (pa ++ pb ++ [TConcat]). split; [apply G_cat; assumption|].
    intro s. rewrite evs_app, Ea. simpl. rewrite evs_app, Eb. reflexivity.
  - destruct IHa as [pa [Ga Ea]]. exists (pa ++ [o]). split.
    + pose proof (postfix_prec o K) as Hp. rewrite <- Hp in Ga |- *.
      apply G_postfix; try assumption. lia.
    + intro s. rewrite evs_app, Ea. simpl. rewrite K. reflexivity.
  - destruct IHa as [pa [Ga Ea]]. exists pa. split; [apply G_paren; exact Ga|exact Ea].
  - destruct IHa as [pa [Ga Ea]]. exists pa. split; [eapply G_mono; eassumption|exact Ea].
Qed.

Theorem gram_validates : forall l ts r, gram l ts r -> validate_tokens ts = Ok tt.
Proof. intros l ts r H. destruct (gram_Gr _ _ _ H) as [pf [HG _]]. eapply G_validates. exact HG. Qed.

Theorem gram_parse : forall ts r, gram 1 ts r -> parse_tokens ts = Ok r.
Proof.
  intros ts r H. destruct (gram_Gr _ _ _ H) as [pf [HG He]]. unfold parse_tokens.
  rewrite (G_validates _ _ _ HG). simpl. rewrite (G_postfix_form _ _ HG). simpl.
  unfold eval_postfix. rewrite ev_evs, He. reflexivity.
Qed.
Print Assumptions gram_parse.

Lemma gram_nonempty : forall l ts r, gram l ts r -> ts <> [].
Proof.
  intros l ts r H. destruct (gram_Gr _ _ _ H) as [pf [[[h [t [-> _]]] _] _]]. discriminate.
Qed.

(* the AST of a derivable token list is unique *)
Theorem gram_functional : forall ts r r', gram 1 ts r -> gram 1 ts r' -> r = r'.
Proof.
  intros ts r r' H H'. apply gram_parse in H. apply gram_parse in H'. congruence.
Qed.

(* the minimal-parenthesis printing is derivable *)
Lemma gram_wrap : forall own l ts r, 1 <= own -> gram own ts r -> gram l (wrap (Nat.ltb own l) ts) r.
Proof.
  intros own l ts r Ho H. unfold wrap. destruct (Nat.ltb own l) eqn:E.
  - apply g_paren. eapply g_mono; [|exact H]. exact Ho.
  - apply Nat.ltb_ge in E. eapply g_mono; [|exact H]. exact E.
Qed.

Lemma gram_toks : forall r l, gram l (toks r l) r.
Proof.
  induction r as [|a| |x IHx y IHy|x IHx y IHy|x IHx y IHy|x IHx y IHy|x IH|x IH|x IH|x IH lo hi];
    intro l; simpl toks.
  - apply g_eps.
  - apply (g_lit l (TSym a)). reflexivity.
  - apply (g_lit l TAny). reflexivity.
  - apply (gram_wrap 1); [lia|]. apply (g_infix TUnion); [reflexivity|apply IHx|apply IHy].
  - apply (gram_wrap 1); [lia|]. apply (g_infix TInter); [reflexivity|apply IHx|apply IHy].
  - apply (gram_wrap 1); [lia|]. apply (g_infix TShuffle); [reflexivity|apply IHx|apply IHy].
  - apply (gram_wrap 2); [lia|]. apply g_cat; [apply IHx|apply IHy].
  - apply (gram_wrap 3); [lia|]. apply (g_postfix TStar); [reflexivity|apply IH].
  - apply (gram_wrap 3); [lia|]. apply (g_postfix TPlus); [reflexivity|apply IH].
  - apply (gram_wrap 3); [lia|]. apply (g_postfix TOpt); [reflexivity|apply IH].
  - apply (gram_wrap 3); [lia|]. apply (g_postfix (TQuant lo hi)); [reflexivity|apply IH].
Qed.

(* ================================================================== *)
(* (F) what the scan accepts is derivable                              *)
(* ================================================================== *)

(* Step 1: the flat shape the scan enforces.  pform k s: s is the content of a (possibly still
   open) parenthesis group; k = 0 nothing yet, k = 1 ends with an infix operator (an operand
   must follow), k = 2 ends with a complete operand.  Operands are literals, "()" and
   parenthesised complete groups, each followed by postfix operators, separated by nothing or
   by one infix operator. *)
Inductive pform : nat -> list token -> Prop :=
| p_nil : pform 0 []
| p_op : forall s o, pform 2 s -> tclass_of o = KInfix -> pform 1 (s ++ [o])
| p_lit : forall k f t, pform k f -> tclass_of t = KLit -> pform 2 (f ++ [t])
| p_post : forall s t, pform 2 s -> tclass_of t = KPostfix -> pform 2 (s ++ [t])
| p_eps : forall k f, pform k f -> pform 2 (f ++ [TLParen; TRParen])
| p_par : forall k f s, pform k f -> pform 2 s -> pform 2 (f ++ [TLParen] ++ s ++ [TRParen]).

Lemma pform0_nil : forall s, pform 0 s -> s = [].
Proof. intros s H. inversion H. reflexivity. Qed.

(* state of the scan after [prev] *)
Definition kstate (prev : option token) : nat :=
  match prev with
  | None => 0
  | Some p => match tclass_of p with KLParen => 0 | KInfix => 1 | _ => 2 end
  end.

(* the consumed prefix: the open groups (innermost first), each followed by its "(" *)
Fixpoint flat (fs : list (list token)) (cur : list token) : list token :=
  match fs with
  | [] => cur
  | f :: fs' => flat fs' (f ++ TLParen :: cur)
  end.

Lemma flat_app : forall fs cur x, flat fs (cur ++ x) = flat fs cur ++ x.
Proof.
  induction fs as [|f fs IH]; intros cur x; simpl; [reflexivity|].
  rewrite <- IH. rewrite <- app_assoc. reflexivity.
Qed.

Lemma vstep_ok_pending : forall prev curr cnt c, vstep prev curr cnt = Ok c -> pending prev cnt = Some c.
Proof.
  intros prev curr cnt c H. unfold vstep, regex_err in H. unfold pending.
  destruct prev as [p|].
  - destruct (tclass_of p).
    + destruct curr as [t|]; [destruct (tclass_of t)|]; congruence.
    + congruence.
    + congruence.
    + destruct curr as [t|]; [destruct (is_op (tclass_of t))|]; congruence.
    + destruct cnt; congruence.
  - destruct curr as [t|]; [destruct (is_op (tclass_of t))|]; congruence.
Qed.

Lemma vscan_ok_pending : forall r p c, vscan (Some p) r c = Ok tt -> exists d, pending (Some p) c = Some d.
Proof.
  intros [|t r] p c H.
  - rewrite vscan_nil in H. destruct (vstep (Some p) None c) as [c'|e] eqn:E; [|discriminate].
    exists c'. eapply vstep_ok_pending. exact E.
  - rewrite vscan_cons in H. destruct (vstep (Some p) (Some t) c) as [c'|e] eqn:E; [|discriminate].
    exists c'. eapply vstep_ok_pending. exact E.
Qed.

Lemma class_lparen : forall t, tclass_of t = KLParen -> t = TLParen.
Proof. destruct t; simpl; intro H; try discriminate; reflexivity. Qed.

Lemma class_rparen : forall t, tclass_of t = KRParen -> t = TRParen.
Proof. destruct t; simpl; intro H; try discriminate; reflexivity. Qed.

Definition frames_ok (fs : list (list token)) : Prop := Forall (fun f => exists k, pform k f) fs.

Lemma vscan_pform : forall ts prev cnt fs cur,
  pending prev cnt = Some (length fs) -> frames_ok fs -> pform (kstate prev) cur ->
  vscan prev ts cnt = Ok tt ->
  pform 2 (flat fs cur ++ ts) \/ flat fs cur ++ ts = [].
Proof.
  induction ts as [|t r IH]; intros prev cnt fs cur Hp Hfs Hcur Hv.
  - rewrite app_nil_r. rewrite vscan_nil in Hv.
    destruct (vstep prev None cnt) as [c|e] eqn:Hs; [|discriminate]. simpl in Hv.
    destruct c; [|discriminate]. pose proof (vstep_ok_pending _ _ _ _ Hs) as Hq. rewrite Hq in Hp.
    injection Hp as Hp. destruct fs; [|discriminate]. simpl.
    unfold vstep, regex_err in Hs. destruct prev as [p|].
    + unfold kstate in Hcur.
      destruct (tclass_of p) eqn:Kp; try (left; exact Hcur); discriminate.
    + right. apply pform0_nil. exact Hcur.
  - rewrite vscan_cons in Hv.
    destruct (vstep prev (Some t) cnt) as [c|e] eqn:Hs; [|discriminate]. simpl in Hv.
    pose proof (vstep_ok_pending _ _ _ _ Hs) as Hc. rewrite Hc in Hp. injection Hp as ->.
    destruct (vscan_ok_pending _ _ _ Hv) as [d' Hd'].
    replace (flat fs cur ++ t :: r) with (flat fs (cur ++ [t]) ++ r)
      by (rewrite flat_app, <- app_assoc; reflexivity).
    destruct (tclass_of t) eqn:Kt.
    + (* infix: prev must be a complete operand *)
      assert (Hk : kstate prev = 2).
      { unfold vstep, regex_err in Hs. destruct prev as [p|]; simpl.
        - destruct (tclass_of p); rewrite ?Kt in Hs; simpl in Hs; try discriminate; reflexivity.
        - rewrite Kt in Hs. discriminate. }
      rewrite Hk in Hcur.
      apply (IH (Some t) (length fs) fs (cur ++ [t])); try assumption.
      * unfold pending. rewrite Kt. reflexivity.
      * unfold kstate. rewrite Kt. apply p_op; assumption.
    + (* postfix *)
      assert (Hk : kstate prev = 2).
      { unfold vstep, regex_err in Hs. destruct prev as [p|]; simpl.
        - destruct (tclass_of p); rewrite ?Kt in Hs; simpl in Hs; try discriminate; reflexivity.
        - rewrite Kt in Hs. discriminate. }
      rewrite Hk in Hcur.
      apply (IH (Some t) (length fs) fs (cur ++ [t])); try assumption.
      * unfold pending. rewrite Kt. reflexivity.
      * unfold kstate. rewrite Kt. apply p_post; assumption.
    + (* literal *)
      apply (IH (Some t) (length fs) fs (cur ++ [t])); try assumption.
      * unfold pending. rewrite Kt. reflexivity.
      * unfold kstate. rewrite Kt. eapply p_lit; eassumption.
    + (* left parenthesis: a new group *)
      apply class_lparen in Kt. subst t.
      replace (flat fs (cur ++ [TLParen])) with (flat (cur :: fs) []) by reflexivity.
      apply (IH (Some TLParen) (length fs) (cur :: fs) []); try assumption.
      * reflexivity.
      * constructor; [eexists; exact Hcur|exact Hfs].
      * simpl. constructor.
    + (* right parenthesis: the innermost group is closed and becomes an operand *)
      apply class_rparen in Kt. subst t. simpl in Hd'.
      destruct fs as [|f fs]; [discriminate|]. simpl in Hd'. injection Hd' as <-.
      inversion Hfs as [|? ? [k Hf] Hfs']; subst.
      assert (Hk : kstate prev <> 1).
      { unfold vstep, regex_err in Hs. destruct prev as [p|]; simpl; [|discriminate].
        destruct (tclass_of p); simpl in Hs; try discriminate. }
      simpl flat.
      assert (Hnew : pform 2 (f ++ TLParen :: cur ++ [TRParen])).
      { destruct (kstate prev) as [|[|[|n]]] eqn:Ek.
        - apply pform0_nil in Hcur. subst cur. apply (p_eps k f Hf).
        - contradiction.
        - apply (p_par k f cur Hf Hcur).
        - exfalso. clear -Ek. unfold kstate in Ek. destruct prev as [p|]; [destruct (tclass_of p)|]; discriminate. }
      apply (IH (Some TRParen) (S (length fs)) fs (f ++ TLParen :: cur ++ [TRParen])); try assumption.
      reflexivity.
Qed.

Lemma validated_pform : forall ts, ts <> [] -> validate_tokens ts = Ok tt -> pform 2 ts.
Proof.
  intros ts Hne Hv. unfold validate_tokens in Hv.
  destruct (vscan_pform ts None 0 [] [] eq_refl (Forall_nil _) p_nil Hv) as [H|H]; simpl in H.
  - exact H.
  - contradiction.
Qed.

(* Step 2: precedence resolution of the flat shape.  A complete group s decomposes as
   X ++ Y ++ C: C the last operand with its postfix operators (level 3), Y the concatenation
   chain in front of it (level 2, possibly followed by an explicit TConcat), X everything up
   to the last | & ^ (level 1). *)
Definition Ux (X : list token) : Prop :=
  X = [] \/ exists A o ra, X = A ++ [o] /\ tclass_of o = KInfix /\ prec o = 1 /\ gram 1 A ra.

Definition Kc (Y : list token) : Prop :=
  Y = [] \/ exists B rb, gram 2 B rb /\
                         (Y = B \/ exists o, Y = B ++ [o] /\ tclass_of o = KInfix /\ prec o = 2).

Definition Dc (s : list token) : Prop :=
  exists X Y C rc, s = X ++ Y ++ C /\ Ux X /\ Kc Y /\ gram 3 C rc.

Lemma collapse2 : forall Y C rc, Kc Y -> gram 3 C rc -> exists r, gram 2 (Y ++ C) r.
Proof.
  intros Y C rc [->|[B [rb [HB [->|[o [-> [K P]]]]]]]] HC.
  - exists rc. simpl. apply (g_mono 3); [lia|exact HC].
  - eexists. apply g_cat; eassumption.
  - eexists. rewrite <- app_assoc. rewrite <- P. apply g_infix; [exact K| |]; rewrite P; eassumption.
Qed.

Lemma collapse1 : forall X M r, Ux X -> gram 2 M r -> exists r', gram 1 (X ++ M) r'.
Proof.
  intros X M r [->|[A [o [ra [-> [K [P HA]]]]]]] HM.
  - exists r. simpl. apply (g_mono 2); [lia|exact HM].
  - eexists. rewrite <- app_assoc. rewrite <- P. apply g_infix; [exact K| |]; rewrite P; eassumption.
Qed.

Lemma Dc_gram : forall s, Dc s -> exists r, gram 1 s r.
Proof.
  intros s [X [Y [C [rc [-> [HX [HY HC]]]]]]].
  destruct (collapse2 Y C rc HY HC) as [r2 H2]. exact (collapse1 X (Y ++ C) r2 HX H2).
Qed.

Definition Pk (k : nat) (f : list token) : Prop :=
  match k with
  | 0 => f = []
  | 1 => exists s o, f = s ++ [o] /\ tclass_of o = KInfix /\ Dc s
  | _ => Dc f
  end.

Lemma append_item : forall k f I ri, Pk k f -> gram 3 I ri -> Dc (f ++ I).
Proof.
  intros k f I ri HP HI. destruct k as [|[|k]]; simpl in HP.
  - subst f. exists [], [], I, ri. repeat split; [left; reflexivity|left; reflexivity|exact HI].
  - destruct HP as [s [o [-> [K [X [Y [C [rc [-> [HX [HY HC]]]]]]]]]]].
    destruct (collapse2 Y C rc HY HC) as [r2 H2].
    destruct (infix_prec o K) as [P|P].
    + destruct (collapse1 X (Y ++ C) r2 HX H2) as [r1 H1].
      exists ((X ++ Y ++ C) ++ [o]), [], I, ri. split; [reflexivity|]. split; [|split].
      * right. exists (X ++ Y ++ C), o, r1. auto.
      * left. reflexivity.
      * exact HI.
    + exists X, ((Y ++ C) ++ [o]), I, ri. split; [rewrite <- !app_assoc; reflexivity|].
      split; [exact HX|]. split; [|exact HI].
      right. exists (Y ++ C), r2. split; [exact H2|]. right. exists o. auto.
  - destruct HP as [X [Y [C [rc [-> [HX [HY HC]]]]]]].
    destruct (collapse2 Y C rc HY HC) as [r2 H2].
    exists X, (Y ++ C), I, ri. split; [rewrite <- !app_assoc; reflexivity|].
    split; [exact HX|]. split; [|exact HI]. right. exists (Y ++ C), r2. auto.
Qed.

Lemma pform_Pk : forall k s, pform k s -> Pk k s.
Proof.
  induction 1 as [|s o _ IH K|k f t _ IH K|s t _ IH K|k f _ IH|k f s _ IHf _ IHs].
  - reflexivity.
  - exists s, o. auto.
  - apply (append_item k f [t] (lit_node t) IH). apply g_lit. exact K.
  - simpl in IH. destruct IH as [X [Y [C [rc [-> [HX [HY HC]]]]]]].
    exists X, Y, (C ++ [t]), (postfix_node t rc). split; [rewrite <- !app_assoc; reflexivity|].
    split; [exact HX|]. split; [exact HY|]. apply g_postfix; assumption.
  - apply (append_item k f [TLParen; TRParen] REps IH). apply g_eps.
  - simpl in IHs. destruct (Dc_gram s IHs) as [r Hr].
    apply (append_item k f ([TLParen] ++ s ++ [TRParen]) r IHf). apply g_paren. exact Hr.
Qed.

Theorem validated_gram : forall ts, ts <> [] -> validate_tokens ts = Ok tt -> exists r, gram 1 ts r.
Proof.
  intros ts Hne Hv. apply Dc_gram. exact (pform_Pk 2 ts (validated_pform ts Hne Hv)).
Qed.
Print Assumptions validated_gram.

Theorem validate_iff_grammar : forall ts, ts <> [] ->
  (validate_tokens ts = Ok tt <-> regex_wf ts).
Proof.
  intros ts Hne. split.
  - exact (validated_gram ts Hne).
  - intros [r H]. exact (gram_validates 1 ts r H).
Qed.
Print Assumptions validate_iff_grammar.

(* character level: what regex.validate accepts = the strings whose token list is empty or in
   the grammar *)
Theorem validate_chars_iff_grammar : forall cs,
  validate cs = Ok tt <-> exists ts, lex cs = Ok ts /\ (ts = [] \/ regex_wf ts).
Proof.
  intro cs. unfold validate. split.
  - destruct (lex cs) as [ts|e]; simpl; [|discriminate]. intro Hv. exists ts. split; [reflexivity|].
    destruct ts as [|t ts]; [left; reflexivity|right].
    apply validated_gram; [discriminate|exact Hv].
  - intros [ts [-> [->|[r H]]]]; simpl; [reflexivity|exact (gram_validates 1 ts r H)].
Qed.

(* ================================================================== *)
(* (G) redundant parentheses around any sub-expression                 *)
(* ================================================================== *)

(* ASTs decorated with explicit (redundant) parenthesis pairs *)
Inductive pre :=
| PEps | PSym (a : nat) | PAny
| PUnion (p q : pre) | PInter (p q : pre) | PShuffle (p q : pre) | PCat (p q : pre)
| PStar (p : pre) | PPlus (p : pre) | POpt (p : pre) | PRep (p : pre) (lo : nat) (hi : option nat)
| PParen (p : pre).

Fixpoint erase (p : pre) : re :=
  match p with
  | PEps => REps | PSym a => RSym a | PAny => RAny
  | PUnion p q => RUnion (erase p) (erase q)
  | PInter p q => RInter (erase p) (erase q)
  | PShuffle p q => RShuffle (erase p) (erase q)
  | PCat p q => RCat (erase p) (erase q)
  | PStar p => RStar (erase p) | PPlus p => RPlus (erase p) | POpt p => ROpt (erase p)
  | PRep p lo hi => RRep (erase p) lo hi
  | PParen p => erase p
  end.

Fixpoint embed (r : re) : pre :=
  match r with
  | REps => PEps | RSym a => PSym a | RAny => PAny
  | RUnion p q => PUnion (embed p) (embed q)
  | RInter p q => PInter (embed p) (embed q)
  | RShuffle p q => PShuffle (embed p) (embed q)
  | RCat p q => PCat (embed p) (embed q)
  | RStar p => PStar (embed p) | RPlus p => PPlus (embed p) | ROpt p => POpt (embed p)
  | RRep p lo hi => PRep (embed p) lo hi
  end.

(* the necessary parentheses of [toks], plus one pair at every PParen node *)
Fixpoint ptoks (p : pre) (level : nat) : list token :=
  match p with
  | PEps => [TLParen; TRParen]
  | PSym a => [TSym a]
  | PAny => [TAny]
  | PUnion l r => wrap (Nat.ltb 1 level) (ptoks l 1 ++ [TUnion] ++ ptoks r 2)
  | PInter l r => wrap (Nat.ltb 1 level) (ptoks l 1 ++ [TInter] ++ ptoks r 2)
  | PShuffle l r => wrap (Nat.ltb 1 level) (ptoks l 1 ++ [TShuffle] ++ ptoks r 2)
  | PCat l r => wrap (Nat.ltb 2 level) (ptoks l 2 ++ ptoks r 3)
  | PStar x => wrap (Nat.ltb 3 level) (ptoks x 3 ++ [TStar])
  | PPlus x => wrap (Nat.ltb 3 level) (ptoks x 3 ++ [TPlus])
  | POpt x => wrap (Nat.ltb 3 level) (ptoks x 3 ++ [TOpt])
  | PRep x lo hi => wrap (Nat.ltb 3 level) (ptoks x 3 ++ [TQuant lo hi])
  | PParen x => [TLParen] ++ ptoks x 1 ++ [TRParen]
  end.

Lemma erase_embed : forall r, erase (embed r) = r.
Proof. induction r; simpl; congruence. Qed.

Lemma ptoks_embed : forall r l, ptoks (embed r) l = toks r l.
Proof. induction r; intro l; simpl; rewrite ?IHr, ?IHr1, ?IHr2; reflexivity. Qed.

Lemma gram_ptoks : forall p l, gram l (ptoks p l) (erase p).
Proof.
  induction p as [|a| |x IHx y IHy|x IHx y IHy|x IHx y IHy|x IHx y IHy|x IH|x IH|x IH|x IH lo hi|x IH];
    intro l; simpl ptoks; simpl erase.
  - apply g_eps.
  - apply (g_lit l (TSym a)). reflexivity.
  - apply (g_lit l TAny). reflexivity.
  - apply (gram_wrap 1); [lia|]. apply (g_infix TUnion); [reflexivity|apply IHx|apply IHy].
  - apply (gram_wrap 1); [lia|]. apply (g_infix TInter); [reflexivity|apply IHx|apply IHy].
  - apply (gram_wrap 1); [lia|]. apply (g_infix TShuffle); [reflexivity|apply IHx|apply IHy].
  - apply (gram_wrap 2); [lia|]. apply g_cat; [apply IHx|apply IHy].
  - apply (gram_wrap 3); [lia|]. apply (g_postfix TStar); [reflexivity|apply IH].
  - apply (gram_wrap 3); [lia|]. apply (g_postfix TPlus); [reflexivity|apply IH].
  - apply (gram_wrap 3); [lia|]. apply (g_postfix TOpt); [reflexivity|apply IH].
  - apply (gram_wrap 3); [lia|]. apply (g_postfix (TQuant lo hi)); [reflexivity|apply IH].
  - apply g_paren. apply IH.
Qed.

Theorem redundant_parens_any : forall p,
  validate_tokens (ptoks p 1) = Ok tt /\ parse_tokens (ptoks p 1) = Ok (erase p).
Proof.
  intro p. pose proof (gram_ptoks p 1) as H. split.
  - exact (gram_validates 1 _ _ H).
  - exact (gram_parse _ _ H).
Qed.
Print Assumptions redundant_parens_any.

(* ---- non-vacuity ---- *)
Example ptoks_ex :
  ptoks (PUnion (PParen (PParen (PSym 30))) (PCat (PParen (PStar (PParen (PSym 31)))) (PParen PEps))) 1
  = [TLParen; TLParen; TSym 30; TRParen; TRParen; TUnion;
     TLParen; TLParen; TSym 31; TRParen; TStar; TRParen; TLParen; TLParen; TRParen; TRParen].
Proof. reflexivity. Qed.
