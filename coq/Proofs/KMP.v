(* The KMP mirror model (Model/KMP.v) never fails and builds, row by row, exactly the
   specification automaton from_substring_m (state = length of the longest pattern prefix
   that is a suffix of the text read).

   kmp_table[c] (c < |p|) is the "strong" failure link: the longest proper border k of p[0..c)
   with p[k] <> p[c] (-1 if there is none); kmp_table[|p|] is the longest proper border of p.
   A walk `while c != -1 and p[c] != a: c = kmp_table[c]` started at a border c of the text
   that dominates every border k with p[k] = a ends in the largest such border (or -1). *)
From Coq Require Import List Arith Bool Lia.
From AV Require Import Base.Util Spec.Lang Spec.FA Spec.Preds Model.Construct Model.KMP
                       Proofs.Preds Proofs.Border Proofs.Construct.
Import ListNotations.

(* ---------- list helpers ---------- *)
Lemma upd_length {A} (l : list A) i v : length (upd l i v) = length l.
Proof. revert i. induction l as [|x l IH]; intro i; [reflexivity|]. destruct i; simpl; [reflexivity|]. rewrite IH. reflexivity. Qed.

Lemma nth_error_upd_same {A} (l : list A) i v : i < length l -> nth_error (upd l i v) i = Some v.
Proof.
  revert i. induction l as [|x l IH]; intros i H; [simpl in H; lia|].
  destruct i; simpl; [reflexivity|]. apply IH. simpl in H. lia.
Qed.

Lemma nth_error_upd_other {A} (l : list A) i k v : k <> i -> nth_error (upd l i v) k = nth_error l k.
Proof.
  revert i k. induction l as [|x l IH]; intros i k H; [reflexivity|].
  destruct i, k; simpl; try reflexivity; try lia. apply IH. lia.
Qed.

Lemma nth_error_repeat {A} (x : A) n k : k < n -> nth_error (repeat x n) k = Some x.
Proof. revert k. induction n as [|n IH]; intros k H; [lia|]. destruct k; simpl; [reflexivity|]. apply IH. lia. Qed.

Lemma idx_Ok {A} (l : list A) k x : nth_error l k = Some x -> idx l k = Ok x.
Proof. unfold idx. intros ->. reflexivity. Qed.

Lemma has_suffix_tl (s u : word) : u <> [] -> (has_suffix s (tl u) <-> has_suffix s u /\ length s < length u).
Proof.
  intro Hu. destruct u as [|x u']; [congruence|]. simpl tl. split.
  - intros [v ->]. split; [exists (x :: v); reflexivity|]. simpl. rewrite app_length. lia.
  - intros [[v H] Hl]. destruct v as [|y v'].
    + simpl in H. subst s. simpl in Hl. lia.
    + simpl in H. inversion H; subst. exists v'. reflexivity.
Qed.

Lemma mapM_map {A B} (f : A -> res B) (g : A -> B) l :
  (forall x, In x l -> f x = Ok (g x)) -> mapM f l = Ok (map g l).
Proof.
  induction l as [|x l IH]; intro H; [reflexivity|]. simpl.
  rewrite (H x (or_introl eq_refl)). simpl. rewrite IH by (intros y Hy; apply H; right; exact Hy). reflexivity.
Qed.

Lemma orow_total syms (g : nat -> nat) : orow syms (fun a => Some (g a)) = map (fun a => (a, g a)) syms.
Proof. unfold orow. induction syms as [|a r IH]; [reflexivity|]. simpl. rewrite IH. reflexivity. Qed.

(* lps of a text extended by one symbol, from the borders of the text *)
Lemma lps_snoc_hit p t a k : bord p t k -> nth_error p k = Some a ->
  (forall j, bord p t j -> nth_error p j = Some a -> j <= k) -> lps p (t ++ [a]) = S k.
Proof.
  intros Hb Hk Hmax. apply Nat.le_antisymm.
  - destruct (lps p (t ++ [a])) as [|j] eqn:E; [lia|].
    pose proof (lps_bord p (t ++ [a])) as B. rewrite E in B. apply bord_snoc in B. destruct B as [B1 B2].
    specialize (Hmax j B1 B2). lia.
  - apply lps_max. apply bord_snoc. split; assumption.
Qed.

Lemma lps_snoc_miss p t a : (forall j, bord p t j -> nth_error p j = Some a -> False) -> lps p (t ++ [a]) = 0.
Proof.
  intro H. destruct (lps p (t ++ [a])) as [|j] eqn:E; [reflexivity|]. exfalso.
  pose proof (lps_bord p (t ++ [a])) as B. rewrite E in B. apply bord_snoc in B. destruct B as [B1 B2].
  exact (H j B1 B2).
Qed.

Section KMP.
  Variable p : word.
  Let n := length p.

  (* k is a proper border of the prefix of length c *)
  Definition pbord (c k : nat) : Prop := k < c /\ has_suffix (firstn k p) (firstn c p).

  (* the weak failure function: longest proper border of the prefix of length i (i >= 1) *)
  Definition pb (i : nat) : nat := lps p (tl (firstn i p)).

  (* r is the strong failure link of position c *)
  Definition strong_at (c : nat) (r : cand) : Prop :=
    (forall k', r = Some k' -> pbord c k' /\ nth_error p k' <> nth_error p c) /\
    (forall k, pbord c k -> nth_error p k <> nth_error p c -> exists k', r = Some k' /\ k <= k').

  Lemma firstn_nonempty i : 1 <= i -> i <= n -> firstn i p <> [].
  Proof.
    intros H1 H2 E. apply (f_equal (@length nat)) in E. rewrite firstn_length_le in E by exact H2. simpl in E. lia.
  Qed.

  Lemma bord_tl_iff i k : 1 <= i -> i <= n -> (bord p (tl (firstn i p)) k <-> pbord i k).
  Proof.
    intros H1 H2. unfold bord, pbord. rewrite (has_suffix_tl _ _ (firstn_nonempty i H1 H2)). split.
    - intros [Hk [Hs Hl]]. rewrite !firstn_length_le in Hl by (fold n; lia). split; assumption.
    - intros [Hk Hs]. split; [fold n; lia|]. split; [exact Hs|]. rewrite !firstn_length_le by (fold n; lia). exact Hk.
  Qed.

  Lemma pb_pbord i : 1 <= i -> i <= n -> pbord i (pb i).
  Proof. intros H1 H2. apply bord_tl_iff; [exact H1|exact H2|]. apply lps_bord. Qed.

  Lemma pb_max i k : 1 <= i -> i <= n -> pbord i k -> k <= pb i.
  Proof. intros H1 H2 H. apply lps_max. apply bord_tl_iff; assumption. Qed.

  Lemma pbord_trans a b c : pbord b a -> pbord c b -> pbord c a.
  Proof. intros [H1 S1] [H2 S2]. split; [lia|]. eapply has_suffix_trans; eassumption. Qed.

  (* two proper borders of the same prefix: the shorter is a proper border of the longer *)
  Lemma pbord_between c a b : c <= n -> pbord c a -> pbord c b -> a < b -> pbord b a.
  Proof.
    intros Hc [H1 S1] [H2 S2] Hab. split; [exact Hab|].
    apply (suffix_of_suffix _ _ (firstn c p) S1 S2). rewrite !firstn_length_le by (fold n; lia). lia.
  Qed.

  Lemma pb_S i ch : 1 <= i -> nth_error p i = Some ch -> pb (S i) = lps p (tl (firstn i p) ++ [ch]).
  Proof.
    intros H1 E. unfold pb. rewrite (firstn_S_nth p i ch E).
    assert (Hi : i < n) by (apply nth_error_Some; congruence).
    destruct (firstn i p) as [|x u] eqn:Ef; [exfalso; apply (firstn_nonempty i H1 ltac:(lia)); exact Ef|].
    reflexivity.
  Qed.

  Lemma strong_at_0 : strong_at 0 None.
  Proof. split; [discriminate|]. intros k [H _]. lia. Qed.

  Lemma strong_rec_ne i : 1 <= i -> i <= n -> nth_error p (pb i) <> nth_error p i -> strong_at i (Some (pb i)).
  Proof.
    intros H1 H2 Hne. split.
    - intros k' E. inversion E; subst k'. split; [apply pb_pbord; assumption|exact Hne].
    - intros k Hk _. exists (pb i). split; [reflexivity|apply pb_max; assumption].
  Qed.

  Lemma strong_rec_eq i r : 1 <= i -> i <= n -> nth_error p (pb i) = nth_error p i ->
    strong_at (pb i) r -> strong_at i r.
  Proof.
    intros H1 H2 He [S1 S2]. pose proof (pb_pbord i H1 H2) as Hc. split.
    - intros k' E. destruct (S1 k' E) as [B Hn]. split; [eapply pbord_trans; eassumption|]. rewrite <- He. exact Hn.
    - intros k Hk Hn. pose proof (pb_max i k H1 H2 Hk) as Hle.
      assert (Hlt : k < pb i).
      { destruct (Nat.eq_dec k (pb i)) as [->|Hd]; [exfalso; apply Hn; exact He|lia]. }
      apply S2; [apply (pbord_between i); assumption|]. rewrite He. exact Hn.
  Qed.

  (* ---------- the failure walk ---------- *)
  Definition winv (t : word) (a : nat) (c : cand) : Prop :=
    (forall k, c = Some k -> k < n /\ bord p t k) /\
    (forall k, bord p t k -> nth_error p k = Some a -> exists k0, c = Some k0 /\ k <= k0).

  Lemma walk_ok T t a : forall fuel c,
    (forall k, S k <= cinc c -> exists r, nth_error T k = Some r /\ strong_at k r) ->
    winv t a c -> cinc c < fuel ->
    exists c', walk p T a fuel c = Ok c' /\ cinc c' = lps p (t ++ [a]).
  Proof.
    induction fuel as [|fuel IH]; intros c HT [W1 W2] Hf; [lia|].
    destruct c as [k|].
    - destruct (W1 k eq_refl) as [Hk Hb]. cbn [walk].
      destruct (nth_error p k) as [x|] eqn:Ex; [|apply nth_error_None in Ex; fold n in Ex; lia].
      rewrite (idx_Ok p k x Ex). cbn [bind]. destruct (Nat.eqb x a) eqn:Exa.
      + apply Nat.eqb_eq in Exa. subst x. exists (Some k). split; [reflexivity|]. cbn [cinc]. symmetry.
        apply lps_snoc_hit; [exact Hb|exact Ex|].
        intros j Bj Ej. destruct (W2 j Bj Ej) as [k0 [E0 Hle]]. inversion E0; subst. exact Hle.
      + apply Nat.eqb_neq in Exa.
        destruct (HT k (le_n _)) as [r [Er [S1 S2]]]. rewrite (idx_Ok T k r Er). cbn [bind].
        apply IH.
        * intros k0 Hk0. apply HT. cbn [cinc]. destruct r as [k'|]; cbn [cinc] in Hk0; [|lia].
          destruct (S1 k' eq_refl) as [[Hlt _] _]. lia.
        * split.
          -- intros k' E. destruct (S1 k' E) as [[Hlt Hs] _]. split; [lia|].
             destruct Hb as [_ Hb]. split; [fold n; lia|]. eapply has_suffix_trans; eassumption.
          -- intros j Bj Ej. destruct (W2 j Bj Ej) as [k0 [E0 Hle]]. inversion E0; subst k0.
             assert (Hjk : j < k).
             { destruct (Nat.eq_dec j k) as [->|Hd]; [|lia]. rewrite Ex in Ej. congruence. }
             apply S2.
             ++ split; [exact Hjk|]. destruct Bj as [_ Bj]. destruct Hb as [_ Hb].
                apply (suffix_of_suffix _ _ t Bj Hb). rewrite !firstn_length_le by (fold n; lia). lia.
             ++ rewrite Ej, Ex. congruence.
        * cbn [cinc] in Hf. destruct r as [k'|]; cbn [cinc]; [|lia].
          destruct (S1 k' eq_refl) as [[Hlt _] _]. lia.
    - exists None. split; [reflexivity|]. cbn [cinc]. symmetry. apply lps_snoc_miss.
      intros j Bj Ej. destruct (W2 j Bj Ej) as [k0 [E0 _]]. discriminate.
  Qed.

  (* ---------- the table ---------- *)
  Definition kinv (i : nat) (st : list cand * nat) : Prop :=
    length (fst st) = n /\ snd st = pb i /\
    (forall k, k < i -> exists r, nth_error (fst st) k = Some r /\ strong_at k r).

  Lemma pb_winv i ch : 1 <= i -> i <= n -> pb i < n -> winv (tl (firstn i p)) ch (Some (pb i)).
  Proof.
    intros H1 H2 Hlt. split.
    - intros k E. inversion E; subst k. split; [exact Hlt|apply lps_bord].
    - intros k Bk _. exists (pb i). split; [reflexivity|apply lps_max; exact Bk].
  Qed.

  Lemma kmp_round_ok i st : 1 <= i -> i < n -> kinv i st ->
    exists st', kmp_round p st i = Ok st' /\ kinv (S i) st'.
  Proof.
    intros H1 H2 [HL [Hc HT]]. destruct st as [T c]. cbn [fst snd] in *. subst c.
    pose proof (pb_pbord i H1 ltac:(lia)) as [Hci _].
    unfold kmp_round.
    destruct (nth_error p i) as [ch|] eqn:Ech; [|apply nth_error_None in Ech; fold n in Ech; lia].
    destruct (nth_error p (pb i)) as [pc|] eqn:Epc; [|apply nth_error_None in Epc; fold n in Epc; lia].
    rewrite (idx_Ok p i ch Ech), (idx_Ok p (pb i) pc Epc). cbn [bind].
    destruct (Nat.eqb ch pc) eqn:E.
    - apply Nat.eqb_eq in E. subst pc.
      destruct (HT (pb i) Hci) as [v [Ev Sv]]. rewrite (idx_Ok T (pb i) v Ev). cbn [bind].
      eexists. split; [reflexivity|]. split; [|split]; cbn [fst snd].
      + rewrite upd_length. exact HL.
      + rewrite (pb_S i ch H1 Ech). symmetry. apply lps_snoc_hit; [apply lps_bord|exact Epc|].
        intros j Bj _. apply lps_max. exact Bj.
      + intros k Hk. destruct (Nat.eq_dec k i) as [->|Hd].
        * exists v. split; [apply nth_error_upd_same; lia|].
          apply strong_rec_eq; [exact H1|lia|congruence|exact Sv].
        * rewrite nth_error_upd_other by exact Hd. apply HT. lia.
    - apply Nat.eqb_neq in E.
      set (T' := upd T i (Some (pb i))).
      destruct (walk_ok T' (tl (firstn i p)) ch (S n) (Some (pb i))) as [c' [Ew Ec']].
      + intros k Hk. cbn [cinc] in Hk. unfold T'. rewrite nth_error_upd_other by lia. apply HT. lia.
      + apply pb_winv; lia.
      + cbn [cinc]. lia.
      + fold n. rewrite Ew. cbn [bind]. eexists. split; [reflexivity|]. split; [|split]; cbn [fst snd].
        * unfold T'. rewrite upd_length. exact HL.
        * rewrite Ec'. symmetry. apply (pb_S i ch H1 Ech).
        * intros k Hk. destruct (Nat.eq_dec k i) as [->|Hd].
          -- exists (Some (pb i)). split; [unfold T'; apply nth_error_upd_same; lia|].
             apply strong_rec_ne; [exact H1|lia|congruence].
          -- unfold T'. rewrite nth_error_upd_other by exact Hd. apply HT. lia.
  Qed.

  Lemma kmp_rounds_ok len : forall i st, 1 <= i -> i + len = n -> kinv i st ->
    exists st', kmp_rounds p st (seq i len) = Ok st' /\ kinv n st'.
  Proof.
    induction len as [|len IH]; intros i st H1 H2 Hk.
    - exists st. split; [reflexivity|]. replace n with i by lia. exact Hk.
    - cbn [seq kmp_rounds]. destruct (kmp_round_ok i st H1 ltac:(lia) Hk) as [st' [E Hk']].
      rewrite E. cbn [bind]. apply IH; [lia|lia|exact Hk'].
  Qed.

  Hypothesis Hn : 1 <= n.

  Lemma kinv_init : kinv 1 (repeat None n, 0).
  Proof.
    split; [apply repeat_length|]. split.
    - cbn [snd]. unfold pb. pose proof (firstn_length_le p Hn) as Hf.
      destruct (firstn 1 p) as [|y [|z r]]; simpl in Hf; try discriminate. simpl. symmetry. apply lps_nil.
    - intros k Hk. assert (k = 0) by lia. subst k. exists None. split; [|apply strong_at_0].
      cbn [fst]. apply nth_error_repeat. lia.
  Qed.

  (* the table: |p|+1 entries; entry c < |p| is the strong link of c, entry |p| the longest proper border of p *)
  Theorem kmp_table_ok : exists T, kmp_table p = Ok (T ++ [Some (pb n)]) /\ length T = n /\
    forall k, k < n -> exists r, nth_error T k = Some r /\ strong_at k r.
  Proof.
    unfold kmp_table. fold n.
    destruct (kmp_rounds_ok (n - 1) 1 (repeat None n, 0) (le_n _) ltac:(lia) kinv_init) as [[T c] [E [HL [Hc HT]]]].
    rewrite E. cbn [bind fst snd] in *. subst c. exists T. split; [reflexivity|]. split; assumption.
  Qed.

  (* ---------- the transition loop ---------- *)
  Lemma kmp_next_ok T i a : length T = n ->
    (forall k, k < n -> exists r, nth_error T k = Some r /\ strong_at k r) -> i <= n ->
    kmp_next p (T ++ [Some (pb n)]) i a = Ok (lps p (firstn i p ++ [a])).
  Proof.
    intros HL HT Hi. unfold kmp_next. fold n.
    assert (HT' : forall k, k < n -> exists r, nth_error (T ++ [Some (pb n)]) k = Some r /\ strong_at k r).
    { intros k Hk. rewrite nth_error_app1 by lia. apply HT. exact Hk. }
    destruct (Nat.ltb i n) eqn:El.
    - apply Nat.ltb_lt in El. cbn [bind].
      destruct (walk_ok (T ++ [Some (pb n)]) (firstn i p) a (S n) (Some i)) as [c' [Ew Ec']].
      + intros k Hk. cbn [cinc] in Hk. apply HT'. lia.
      + split.
        * intros k E. inversion E; subst k. split; [exact El|]. split; [fold n; lia|]. exists []. reflexivity.
        * intros k Bk _. exists i. split; [reflexivity|]. apply bord_le_text in Bk.
          rewrite firstn_length_le in Bk by (fold n; lia). exact Bk.
      + cbn [cinc]. lia.
      + rewrite Ew. cbn [bind]. rewrite Ec'. reflexivity.
    - apply Nat.ltb_ge in El. assert (i = n) by lia. subst i.
      assert (Ei : nth_error (T ++ [Some (pb n)]) n = Some (Some (pb n))).
      { rewrite nth_error_app2 by lia. rewrite HL, Nat.sub_diag. reflexivity. }
      rewrite (idx_Ok _ _ _ Ei). cbn [bind].
      pose proof (pb_pbord n Hn (le_n _)) as [Hlt Hs].
      destruct (walk_ok (T ++ [Some (pb n)]) (firstn n p) a (S n) (Some (pb n))) as [c' [Ew Ec']].
      + intros k Hk. cbn [cinc] in Hk. apply HT'. lia.
      + split.
        * intros k E. inversion E; subst k. split; [exact Hlt|]. split; [fold n; lia|exact Hs].
        * intros k [Hk Bk] Ek. exists (pb n). split; [reflexivity|]. apply pb_max; [exact Hn|lia|].
          split; [apply nth_error_Some; congruence|exact Bk].
      + cbn [cinc]. lia.
      + rewrite Ew. cbn [bind]. rewrite Ec'. reflexivity.
  Qed.
End KMP.

(* ---------- the automaton ---------- *)
Theorem kmp_dfa_faithful syms p c ms : kmp_dfa syms p c ms = Ok (from_substring_m syms p c ms).
Proof.
  destruct p as [|x p']; [reflexivity|]. set (p := x :: p').
  assert (Hn : 1 <= length p) by (simpl; lia).
  unfold kmp_dfa. fold p.
  destruct (kmp_table_ok p Hn) as [T [ET [HL HT]]]. rewrite ET. cbn [bind].
  assert (Hrows : mapM (kmp_row syms p (T ++ [Some (pb p (length p))]) ms) (seq 0 (S (length p)))
                  = Ok (map (fun q => (q, orow syms (substring_f p ms q))) (seq 0 (S (length p))))).
  { apply mapM_map. intros i Hi. apply in_seq in Hi. unfold kmp_row.
    assert (Hrow : orow syms (substring_f p ms i) =
                   map (fun a => (a, if negb ms && Nat.eqb i (length p) then i else lps p (firstn i p ++ [a])) ) syms).
    { rewrite <- orow_total. unfold orow. f_equal.
      unfold substring_f. destruct (negb ms && Nat.eqb i (length p)); reflexivity. }
    rewrite Hrow.
    destruct (Nat.ltb i (if ms then S (length p) else length p)) eqn:El.
    - apply Nat.ltb_lt in El.
      rewrite (mapM_map _ (fun a => (a, lps p (firstn i p ++ [a])))).
      + cbn [bind]. f_equal. f_equal.
        assert (E : negb ms && Nat.eqb i (length p) = false).
        { destruct ms; [reflexivity|]. cbn [negb andb]. apply Nat.eqb_neq. lia. }
        rewrite E. reflexivity.
      + intros a _. assert (Hi' : i <= length p) by (destruct ms; lia).
        pose proof (kmp_next_ok p Hn T i a HL HT Hi') as Hk. unfold cand in *. rewrite Hk. reflexivity.
    - apply Nat.ltb_ge in El. destruct ms; [lia|]. assert (i = length p) by lia. subst i.
      cbn [bind negb andb]. rewrite Nat.eqb_refl. reflexivity. }
  rewrite Hrows. cbn [bind]. reflexivity.
Qed.

(* in particular the model never raises and never runs out of fuel *)
Corollary kmp_dfa_total syms p c ms : exists m, kmp_dfa syms p c ms = Ok m.
Proof. eexists. apply kmp_dfa_faithful. Qed.
