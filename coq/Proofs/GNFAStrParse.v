(* C12, string level, second half: the strings of Model/GNFAStr.v go through the model of the
   library's own lexer, validator, shunting-yard and postfix evaluation (Model/RegexLex.v,
   Model/RegexParse.v) and come out as the tree they print, parentheses removed; the compiler
   (Model/RegexBuild.v) then builds an NFA with the denoted language.  Uses the compositional
   parser lemmas of Proofs/RegexParse.v (G_lit, G_infix, G_cat, G_postfix, G_paren and the clean lemmas). *)
From Coq Require Import List Arith Bool Lia.
From AV Require Import Base.Util Spec.Lang Spec.FA Spec.Regex
                       Model.RegexLex Model.RegexParse Model.RegexBuild Model.GNFAStr
                       Proofs.RegexBuild Proofs.RegexParse Proofs.RegexCompile Proofs.RegexTotal
                       Proofs.GNFAStr.
Import ListNotations.

(* the tokens of a printed tree *)
Fixpoint xtoks (r : sx) : list token :=
  match r with
  | XEps => []
  | XSym a => [TSym a]
  | XAlt a b => xtoks a ++ [TUnion] ++ xtoks b
  | XCat a b => xtoks a ++ xtoks b
  | XStar a => xtoks a ++ [TStar]
  | XOpt a => xtoks a ++ [TOpt]
  | XParen a => [TLParen] ++ xtoks a ++ [TRParen]
  end.

Lemma sym_ok_clean a : sym_ok a = true -> clean [a] [TSym a].
Proof.
  unfold sym_ok. rewrite !andb_true_iff, !negb_true_iff, Nat.leb_le, !Nat.eqb_neq. intros [[H13 H14] H15].
  apply clean_sym.
  - do 13 (destruct a as [|a]; [lia|]). reflexivity.
  - lia.
  - unfold is_blank. apply Nat.ltb_ge. lia.
  - unfold is_ws. apply orb_false_iff. split; apply Nat.eqb_neq; assumption.
Qed.

Section Parse.
  Variable ok : nat -> bool.
  Hypothesis ok_sym : forall a, ok a = true -> sym_ok a = true.

  Lemma clean_paren u ts : clean u ts -> clean (paren u) ([TLParen] ++ ts ++ [TRParen]).
  Proof.
    intro H. unfold paren. apply clean_app; [apply clean_single; reflexivity|].
    apply clean_app; [exact H|apply clean_single; reflexivity].
  Qed.

  Lemma clean_show r : forall l, wfl ok l r = true -> clean (show r) (xtoks r).
  Proof.
    induction r as [|x|a IHa b IHb|a IHa b IHb|a IH|a IH|a IH]; intros l H; simpl in H; try discriminate.
    - apply sym_ok_clean. apply ok_sym. exact H.
    - apply andb_true_iff in H. destruct H as [H H2]. apply andb_true_iff in H. destruct H as [_ H1].
      cbn [show xtoks]. apply clean_app; [apply (IHa 1 H1)|].
      apply clean_app; [apply clean_single; reflexivity|apply (IHb 2 H2)].
    - apply andb_true_iff in H. destruct H as [H H2]. apply andb_true_iff in H. destruct H as [_ H1].
      cbn [show xtoks]. apply clean_app; [apply (IHa 2 H1)|apply (IHb 3 H2)].
    - cbn [show xtoks]. apply clean_app; [apply (IH 3 H)|apply clean_single; reflexivity].
    - cbn [show xtoks]. apply clean_app; [apply (IH 3 H)|apply clean_single; reflexivity].
    - cbn [show xtoks]. apply clean_paren.
      destruct a; [apply clean_nil|apply (IH 1 H)..].
  Qed.

  Lemma G_show r : forall l, 1 <= l <= 3 -> wfl ok l r = true -> G l (xtoks r) (postfix_of (cv r)).
  Proof.
    induction r as [|x|a IHa b IHb|a IHa b IHb|a IH|a IH|a IH]; intros l Hl H; simpl in H; try discriminate.
    - apply G_lit. reflexivity.
    - apply andb_true_iff in H. destruct H as [H H2]. apply andb_true_iff in H. destruct H as [H0 H1].
      apply Nat.leb_le in H0. apply (G_mono 1 l); [lia|]. cbn [xtoks cv postfix_of].
      apply (G_infix TUnion); [reflexivity|simpl; lia|apply IHa; [simpl; lia|exact H1]|apply IHb; [simpl; lia|exact H2]].
    - apply andb_true_iff in H. destruct H as [H H2]. apply andb_true_iff in H. destruct H as [H0 H1].
      apply Nat.leb_le in H0. apply (G_mono 2 l); [lia|]. cbn [xtoks cv postfix_of].
      apply G_cat; [apply IHa; [lia|exact H1]|apply IHb; [lia|exact H2]].
    - apply (G_mono 3 l); [lia|]. cbn [xtoks cv postfix_of].
      apply (G_postfix TStar); [reflexivity|simpl; lia|apply IH; [simpl; lia|exact H]].
    - apply (G_mono 3 l); [lia|]. cbn [xtoks cv postfix_of].
      apply (G_postfix TOpt); [reflexivity|simpl; lia|apply IH; [simpl; lia|exact H]].
    - cbn [xtoks cv]. destruct a; [apply G_eps|apply G_paren; apply IH; [lia|exact H]..].
  Qed.

  (* the library's parser on a string of to_regex: the tree it prints, without the parentheses *)
  Theorem parse_show r : wf_lab ok r = true -> parse (show r) = Ok (cv r).
  Proof.
    intro H. destruct (wf_lab_cases ok r H) as [->|H1]; [reflexivity|].
    pose proof (G_show r 1 (conj (le_n 1) (le_S _ _ (le_S _ _ (le_n 1)))) H1) as HG.
    pose proof (clean_show r 1 H1 []) as Hlex. rewrite app_nil_r in Hlex. simpl in Hlex. rewrite app_nil_r in Hlex.
    pose proof (wfl_nonnil ok r 1 H1) as Hne.
    unfold parse. destruct (show r) as [|c cs] eqn:Es; [congruence|]. rewrite Hlex. simpl.
    destruct (xtoks r) as [|t ts] eqn:Et.
    - destruct HG as [[h [t [E _]]] _]. discriminate.
    - apply G_parse. exact HG.
  Qed.

  Lemma cv_syms r : forall l, wfl ok l r = true -> forall a, In a (re_syms (cv r)) -> ok a = true.
  Proof.
    induction r as [|x|a IHa b IHb|a IHa b IHb|a IH|a IH|a IH]; intros l H c Hc; simpl in H; try discriminate.
    - destruct Hc as [<-|[]]. exact H.
    - apply andb_true_iff in H. destruct H as [H H2]. apply andb_true_iff in H. destruct H as [_ H1].
      simpl in Hc. apply in_app_or in Hc. destruct Hc as [Hc|Hc]; [apply (IHa 1 H1 c Hc)|apply (IHb 2 H2 c Hc)].
    - apply andb_true_iff in H. destruct H as [H H2]. apply andb_true_iff in H. destruct H as [_ H1].
      simpl in Hc. apply in_app_or in Hc. destruct Hc as [Hc|Hc]; [apply (IHa 2 H1 c Hc)|apply (IHb 3 H2 c Hc)].
    - apply (IH 3 H c Hc).
    - apply (IH 3 H c Hc).
    - simpl in Hc. destruct a; [destruct Hc|apply (IH 1 H c Hc)..].
  Qed.
End Parse.

Lemma den_cv sigma r : den sigma (cv r) =L xden r.
Proof.
  induction r as [|x|a IHa b IHb|a IHa b IHb|a IH|a IH|a IH]; simpl; try (intro w; reflexivity).
  - apply lang_eq_union; assumption.
  - apply lang_eq_cat; assumption.
  - apply lang_eq_star; assumption.
  - apply lang_eq_opt; assumption.
  - exact IH.
Qed.

(* NFA.from_regex(s, input_symbols=sigma) on a string of to_regex over sigma: returns, and the
   NFA is valid, over sigma, and accepts exactly the language the tree denotes *)
Theorem show_compiles sigma r : NoDup sigma -> forallb sym_ok sigma = true -> wf_lab (sym_in sigma) r = true ->
  parse (show r) = Ok (cv r) /\
  exists m, compile (show r) (Some sigma) = Ok m /\ valid_nfa m = true /\ n_syms m = sigma /\ L_nfa m =L xden r.
Proof.
  intros Hnd Hs Hw.
  pose proof (parse_show (sym_in sigma) (ok_sym_in sigma) r Hw) as Hp. split; [exact Hp|].
  assert (Hres : existsb is_reserved sigma = false).
  { destruct (existsb is_reserved sigma) eqn:E; [|reflexivity]. apply existsb_exists in E.
    destruct E as (c & Hc & Hr). rewrite forallb_forall in Hs. specialize (Hs c Hc).
    apply sym_ok_ge in Hs. unfold is_reserved in Hr. apply Nat.ltb_lt in Hr. lia. }
  assert (Hsy : forall a, In a (re_syms (cv r)) -> In a sigma).
  { intros a Ha. destruct (wf_lab_cases _ r Hw) as [->|H1]; [destruct Ha|].
    pose proof (cv_syms (sym_in sigma) r 1 H1 a Ha) as H. unfold sym_in in H.
    apply andb_true_iff in H. apply memb_In. tauto. }
  destruct (compile_re_total sigma (cv r) Hsy) as [m Hm].
  assert (Hc : compile (show r) (Some sigma) = Ok m).
  { unfold compile, alphabet_of. rewrite Hres. simpl. rewrite Hp. simpl. exact Hm. }
  exists m. split; [exact Hc|].
  destruct (compile_sound (show r) (Some sigma) m Hnd Hc) as (sg' & r' & Ea & Ep & Hv & Hsyms & HL).
  unfold alphabet_of in Ea. rewrite Hres in Ea. injection Ea as <-.
  rewrite Hp in Ep. injection Ep as <-.
  split; [exact Hv|]. split; [exact Hsyms|].
  eapply lang_eq_trans; [exact HL|apply den_cv].
Qed.

(* ---- the whole property: source automaton -> to_regex string -> the library's parser and
   compiler -> an NFA with the source's language; for every schedule of the rip order ---- *)
Definition regex_ok (st : str) (sigma : list nat) (L : lang) : Prop :=
  exists r m, parse st = Ok r /\ (forall s, den s r =L L) /\
              compile st (Some sigma) = Ok m /\ valid_nfa m = true /\ n_syms m = sigma /\ L_nfa m =L L.

Lemma regex_ok_show sigma x L : NoDup sigma -> forallb sym_ok sigma = true ->
  wf_lab (sym_in sigma) x = true -> xden x =L L -> regex_ok (show x) sigma L.
Proof.
  intros Hnd Hs Wx Dx. destruct (show_compiles sigma x Hnd Hs Wx) as (Hp & m & Hc & Hvm & Hsy & HL).
  exists (cv x), m. split; [exact Hp|].
  split; [intro s; eapply lang_eq_trans; [apply den_cv|exact Dx]|].
  split; [exact Hc|]. split; [exact Hvm|]. split; [exact Hsy|]. eapply lang_eq_trans; [exact HL|exact Dx].
Qed.

Theorem dfa_to_regex_full d sched : valid_dfa d = true -> forallb sym_ok (d_syms d) = true ->
  exists s order, dfa_to_regex d sched = Ok (s, order) /\
    match s with
    | Some st => regex_ok st (d_syms d) (L_dfa d)
    | None => forall w, ~ L_dfa d w
    end.
Proof.
  intros Hv Hs. destruct (dfa_to_regex_string d sched Hv Hs) as (order & E & H).
  exists (selim (sgnfa_of_dfa d) order), order. split; [exact E|].
  destruct (selim (sgnfa_of_dfa d) order) as [st|]; [|exact H].
  destruct H as (x & -> & Wx & Dx). destruct (Proofs.FARun.valid_dfa_parts d Hv) as (_ & Hnd & _).
  apply regex_ok_show; assumption.
Qed.

Theorem nfa_to_regex_full n sched : valid_nfa n = true -> forallb sym_ok (n_syms n) = true ->
  nfa_keys_nodup n = true ->
  exists s order, nfa_to_regex n sched = Ok (s, order) /\
    match s with
    | Some st => regex_ok st (n_syms n) (L_nfa n)
    | None => forall w, ~ L_nfa n w
    end.
Proof.
  intros Hv Hs Hk. destruct (nfa_to_regex_string n sched Hv Hs Hk) as (order & E & H).
  exists (selim (sgnfa_of_nfa n) order), order. split; [exact E|].
  destruct (selim (sgnfa_of_nfa n) order) as [st|]; [|exact H].
  destruct H as (x & -> & Wx & Dx).
  assert (Hnd : NoDup (n_syms n)).
  { unfold valid_nfa in Hv. repeat rewrite andb_true_iff in Hv.
    destruct Hv as [[[[[[_ H2] _] _] _] _] _]. apply nodupb_NoDup. exact H2. }
  apply regex_ok_show; assumption.
Qed.
