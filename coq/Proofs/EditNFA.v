(* Lemmas about Model/EditNFA.v (C16): the grid NFA accepts exactly the words within the
   budget of enabled edits, and it is a valid NFA. *)
From Coq Require Import List Arith ZArith Bool Lia.
From AV Require Import Base.Util Spec.Lang Spec.FA Spec.Edit Model.EditNFA.
Import ListNotations.

(* ---- generic list facts ---- *)
Section ListFacts.
  Lemma assoc_app {B} x (l1 l2 : list (nat * B)) :
    assoc x (l1 ++ l2) = match assoc x l1 with Some v => Some v | None => assoc x l2 end.
  Proof.
    induction l1 as [|[y v] l1 IH]; simpl; [reflexivity|].
    destruct (Nat.eqb x y); [reflexivity|exact IH].
  Qed.

  Lemma skipn_nth_error {A} (l : list A) : forall i c,
    nth_error l i = Some c -> skipn i l = c :: skipn (S i) l.
  Proof.
    induction l as [|x l IH]; intros [|i] c H; simpl in *; try discriminate.
    - inversion H. reflexivity.
    - apply IH. exact H.
  Qed.

  Lemma skipn_cons_inv {A} (l : list A) : forall i c r,
    skipn i l = c :: r -> nth_error l i = Some c /\ r = skipn (S i) l /\ i < length l.
  Proof.
    induction l as [|x l IH]; intros [|i] c r H; simpl in *; try discriminate.
    - inversion H; subst. split; [reflexivity|]. split; [reflexivity|lia].
    - destruct (IH i c r H) as [H1 [H2 H3]]. split; [exact H1|]. split; [exact H2|lia].
  Qed.

  Lemma skipn_nil_inv {A} (l : list A) : forall i, skipn i l = [] -> length l <= i.
  Proof.
    induction l as [|x l IH]; intros [|i] H; simpl in *; try lia; try discriminate.
    apply IH in H. lia.
  Qed.

  Lemma nth_error_lt {A} (l : list A) i : i < length l -> exists c, nth_error l i = Some c.
  Proof.
    intro H. destruct (nth_error l i) as [c|] eqn:E; [exists c; reflexivity|].
    apply nth_error_None in E. lia.
  Qed.

  Lemma map_add_seq a : forall m s, map (fun e => a + e) (seq s m) = seq (a + s) m.
  Proof.
    induction m as [|m IH]; intro s; simpl; [reflexivity|].
    f_equal. rewrite IH. f_equal. lia.
  Qed.
End ListFacts.

(* ---- rows ---- *)
Definition rt (r : row) (a : option nat) : list nat :=
  match oassoc a r with Some l => l | None => [] end.

Section Rows.
  Lemma eqo_true a b : eqb_opt Nat.eqb a b = true <-> a = b.
  Proof. apply (eqb_opt_ok Nat.eqb eqb_nat_ok). Qed.

  Lemma eqo_false a b : eqb_opt Nat.eqb a b = false <-> a <> b.
  Proof. apply (eqb_ok_false _ (eqb_opt_ok Nat.eqb eqb_nat_ok)). Qed.

  Lemma row_add_spec r b t a q :
    In q (rt (row_add r b t) a) <-> In q (rt r a) \/ (a = b /\ q = t).
  Proof.
    unfold rt. induction r as [|[c ts] r IH]; simpl.
    - destruct (eqb_opt Nat.eqb a b) eqn:E.
      + apply eqo_true in E. subst. simpl. split.
        * intros [H|[]]. right. split; [reflexivity|symmetry; exact H].
        * intros [[]|[_ H]]. left. symmetry. exact H.
      + apply eqo_false in E. simpl. split; [intros []|]. intros [[]|[H _]]. contradiction.
    - destruct (eqb_opt Nat.eqb b c) eqn:Ebc; simpl.
      + apply eqo_true in Ebc. subst c.
        destruct (eqb_opt Nat.eqb a b) eqn:Eab.
        * apply eqo_true in Eab. subst. rewrite set_add_In. split.
          -- intros [H|H]; [right; split; [reflexivity|exact H]|left; exact H].
          -- intros [H|[_ H]]; [right; exact H|left; exact H].
        * apply eqo_false in Eab. split; [intro H; left; exact H|].
          intros [H|[H _]]; [exact H|contradiction].
      + destruct (eqb_opt Nat.eqb a c) eqn:Eac.
        * apply eqo_true in Eac. subst c. apply eqo_false in Ebc.
          split; [intro H; left; exact H|]. intros [H|[H _]]; [exact H|]. subst. contradiction.
        * exact IH.
  Qed.

  Lemma row_add_any_spec syms t a q : forall r,
    In q (rt (row_add_any syms r t) a) <->
    In q (rt r a) \/ ((exists s, a = Some s /\ In s syms) /\ q = t).
  Proof.
    unfold row_add_any. induction syms as [|s0 syms IH]; intro r; simpl.
    - split; [intro H; left; exact H|]. intros [H|[[s [_ []]] _]]. exact H.
    - rewrite IH, row_add_spec. split.
      + intros [[H|[H1 H2]]|[[s [H1 H2]] H3]].
        * left. exact H.
        * right. split; [exists s0; split; [exact H1|left; reflexivity]|exact H2].
        * right. split; [exists s; split; [exact H1|right; exact H2]|exact H3].
      + intros [H|[[s [H1 [H2|H2]]] H3]].
        * left. left. exact H.
        * subst s. left. right. split; assumption.
        * right. split; [exists s; split; assumption|exact H3].
  Qed.

  (* keys and targets of a row stay inside given sets *)
  Definition row_inv (P : option nat -> Prop) (Q : nat -> Prop) (r : row) : Prop :=
    forall a ts, In (a, ts) r -> P a /\ forall t, In t ts -> Q t.

  Lemma row_inv_nil P Q : row_inv P Q [].
  Proof. intros a ts []. Qed.

  Lemma row_add_inv P Q r b t : row_inv P Q r -> P b -> Q t -> row_inv P Q (row_add r b t).
  Proof.
    intros Hr Hb Ht. induction r as [|[c ts] r IH]; simpl.
    - intros a ts' [H|[]]. inversion H; subst. split; [exact Hb|].
      intros t' [H'|[]]. subst. exact Ht.
    - assert (Hr' : row_inv P Q r) by (intros a ts' Hin; apply Hr; right; exact Hin).
      destruct (Hr c ts (or_introl eq_refl)) as [Hc Hts].
      destruct (eqb_opt Nat.eqb b c).
      + intros a ts' [H|H].
        * inversion H; subst. split; [exact Hc|]. intros t' Ht'. apply set_add_In in Ht'.
          destruct Ht' as [Ht'|Ht']; [subst; exact Ht|apply Hts; exact Ht'].
        * apply Hr'. exact H.
      + intros a ts' [H|H].
        * inversion H; subst. split; assumption.
        * apply (IH Hr'). exact H.
  Qed.

  Lemma row_add_any_inv P Q syms t : forall r,
    row_inv P Q r -> (forall s, In s syms -> P (Some s)) -> Q t -> row_inv P Q (row_add_any syms r t).
  Proof.
    unfold row_add_any. induction syms as [|s0 syms IH]; intros r Hr Hs Ht; simpl; [exact Hr|].
    apply IH; [|intros s Hin; apply Hs; right; exact Hin|exact Ht].
    apply row_add_inv; [exact Hr|apply Hs; left; reflexivity|exact Ht].
  Qed.
End Rows.

(* ---- the grid ---- *)
Section GridProofs.
  Variable syms : list nat.
  Variable k : nat.
  Variables ins del sub : bool.

  Notation st := (st k).
  Notation grid_row := (grid_row syms k ins del sub).
  Notation last_row := (last_row syms k ins).
  Notation grid_rows := (grid_rows syms k ins del sub).
  Notation grid_nfa := (grid_nfa syms k ins del sub).

  Lemma st_inj i e i' e' : e <= k -> e' <= k -> st i e = st i' e' -> i = i' /\ e = e'.
  Proof.
    unfold EditNFA.st. intros He He' H.
    apply (Nat.div_mod_unique (S k) i i' e e'); [lia|lia|]. lia.
  Qed.

  Lemma st_bound n i e : i <= n -> e <= k -> st i e < S n * S k.
  Proof.
    unfold EditNFA.st. intros Hi He.
    assert (i * S k + S k <= S n * S k).
    { replace (i * S k + S k) with (S i * S k) by (simpl; lia). apply Nat.mul_le_mono_r. lia. }
    lia.
  Qed.

  Definition any_sym (a : option nat) : Prop := exists s, a = Some s /\ In s syms.

  Lemma grid_row_spec i c e a q :
    In q (rt (grid_row i c e) a) <->
    (a = Some c /\ q = st (S i) e) \/
    (e < k /\ ((ins = true /\ any_sym a /\ q = st i (S e)) \/
               (del = true /\ a = None /\ q = st (S i) (S e)) \/
               (sub = true /\ any_sym a /\ q = st (S i) (S e)))).
  Proof.
    unfold EditNFA.grid_row, any_sym.
    destruct (Nat.ltb e k) eqn:Elt.
    - apply Nat.ltb_lt in Elt.
      destruct ins, del, sub;
        rewrite ?row_add_any_spec, ?row_add_spec, ?row_add_any_spec, ?row_add_spec; unfold rt; simpl;
        intuition (try discriminate; try congruence).
    - apply Nat.ltb_ge in Elt. rewrite row_add_spec. unfold rt. simpl.
      intuition (try discriminate; try lia).
  Qed.

  Lemma last_row_spec i e a q :
    In q (rt (last_row i e) a) <-> (ins = true /\ e < k /\ any_sym a /\ q = st i (S e)).
  Proof.
    unfold EditNFA.last_row, any_sym. destruct ins; simpl.
    - destruct (Nat.ltb e k) eqn:Elt.
      + apply Nat.ltb_lt in Elt. rewrite row_add_any_spec. unfold rt. simpl. intuition.
      + apply Nat.ltb_ge in Elt. unfold rt. simpl. intuition lia.
    - unfold rt. simpl. intuition discriminate.
  Qed.

  (* ---- looking a state up in the transition table ---- *)
  Lemma assoc_block_other {B} (f : nat -> B) i j e : forall l,
    j <> i -> e <= k -> (forall e', In e' l -> e' <= k) ->
    assoc (st j e) (map (fun e' => (st i e', f e')) l) = None.
  Proof.
    induction l as [|e0 l IH]; intros Hji He Hl; simpl; [reflexivity|].
    destruct (Nat.eqb (st j e) (st i e0)) eqn:E.
    - apply Nat.eqb_eq in E. apply st_inj in E; [destruct E; contradiction|exact He|].
      apply Hl. left. reflexivity.
    - apply IH; [exact Hji|exact He|]. intros e' H. apply Hl. right. exact H.
  Qed.

  Lemma assoc_block_same {B} (f : nat -> B) i e : forall l,
    In e l -> (forall e', In e' l -> e' <= k) ->
    assoc (st i e) (map (fun e' => (st i e', f e')) l) = Some (f e).
  Proof.
    induction l as [|e0 l IH]; intros Hin Hl; simpl; [destruct Hin|].
    assert (He0 : e0 <= k) by (apply Hl; left; reflexivity).
    assert (He : e <= k) by (apply Hl; exact Hin).
    destruct (Nat.eqb (st i e) (st i e0)) eqn:E.
    - apply Nat.eqb_eq in E. apply st_inj in E; [|exact He|exact He0]. destruct E as [_ E]. subst. reflexivity.
    - apply Nat.eqb_neq in E. destruct Hin as [Hin|Hin]; [subst; contradiction|].
      apply IH; [exact Hin|]. intros e' H. apply Hl. right. exact H.
  Qed.

  Lemma seq_le e' : In e' (seq 0 (S k)) -> e' <= k.
  Proof. intro H. apply in_seq in H. lia. Qed.

  Lemma in_seq_le e : e <= k -> In e (seq 0 (S k)).
  Proof. intro H. apply in_seq. lia. Qed.

  Lemma lookup_mid : forall ref i j c e, e <= k -> i <= j -> nth_error ref (j - i) = Some c ->
    assoc (st j e) (grid_rows i ref) = Some (grid_row j c e).
  Proof.
    induction ref as [|c0 ref IH]; intros i j c e He Hij Hn; cbn [EditNFA.grid_rows].
    - destruct (j - i); discriminate.
    - rewrite assoc_app. destruct (Nat.eq_dec j i) as [->|Hne].
      + rewrite Nat.sub_diag in Hn. simpl in Hn. inversion Hn; subst.
        rewrite (assoc_block_same (fun e' => grid_row i c e') i e); [reflexivity|apply in_seq_le; exact He|apply seq_le].
      + rewrite (assoc_block_other (fun e' => grid_row i c0 e') i j e); [|exact Hne|exact He|apply seq_le].
        apply IH; [exact He|lia|]. replace (j - i) with (S (j - S i)) in Hn by lia. exact Hn.
  Qed.

  Lemma lookup_last : forall ref i e, e <= k ->
    assoc (st (i + length ref) e) (grid_rows i ref) = Some (last_row (i + length ref) e).
  Proof.
    induction ref as [|c0 ref IH]; intros i e He; cbn [EditNFA.grid_rows length].
    - rewrite Nat.add_0_r. apply (assoc_block_same (fun e' => last_row i e') i e); [apply in_seq_le; exact He|apply seq_le].
    - rewrite assoc_app.
      rewrite (assoc_block_other (fun e' => grid_row i c0 e') i (i + S (length ref)) e); [|lia|exact He|apply seq_le].
      replace (i + S (length ref)) with (S i + length ref) by lia. apply IH. exact He.
  Qed.

  (* ---- edges of the grid NFA ---- *)
  Variable ref : list nat.
  Let n := length ref.
  Let m := grid_nfa ref.

  Lemma edge_mid i c e a q : e <= k -> nth_error ref i = Some c ->
    (n_edge m (st i e) a q <->
     (a = Some c /\ q = st (S i) e) \/
     (e < k /\ ((ins = true /\ any_sym a /\ q = st i (S e)) \/
                (del = true /\ a = None /\ q = st (S i) (S e)) \/
                (sub = true /\ any_sym a /\ q = st (S i) (S e))))).
  Proof.
    intros He Hn. unfold n_edge, n_targets. change (n_trans m) with (grid_rows 0 ref).
    assert (X : assoc (st i e) (grid_rows 0 ref) = Some (grid_row i c e)).
    { apply lookup_mid; [exact He|lia|rewrite Nat.sub_0_r; exact Hn]. }
    unfold row in X. rewrite X. apply grid_row_spec.
  Qed.

  Lemma edge_last e a q : e <= k ->
    (n_edge m (st n e) a q <-> (ins = true /\ e < k /\ any_sym a /\ q = st n (S e))).
  Proof.
    intro He. unfold n_edge, n_targets. change (n_trans m) with (grid_rows 0 ref).
    pose proof (lookup_last ref 0 e He) as H. change (0 + length ref) with n in H. unfold row in H. rewrite H.
    apply last_row_spec.
  Qed.

  Lemma final_iff q : In q (n_finals m) <-> exists e, e <= k /\ q = st n e.
  Proof.
    change (n_finals m) with (map (st n) (seq 0 (S k))). rewrite in_map_iff. split.
    - intros [e [H1 H2]]. exists e. split; [apply seq_le; exact H2|symmetry; exact H1].
    - intros [e [H1 H2]]. exists e. split; [symmetry; exact H2|apply in_seq_le; exact H1].
  Qed.

  Notation edits := (edits syms ins del sub).

  (* a path from (i, e) to (n, e') spells a derivation of the rest of the reference word
     whose cost is the number of errors added *)
  Lemma path_edits : forall p w r, nfa_path m p w r ->
    forall i e e', p = st i e -> r = st n e' -> i <= n -> e <= k -> e' <= k ->
    exists c, e' = e + c /\ edits (skipn i ref) w c.
  Proof.
    intros p w r Hp. induction Hp as [q|p q r w He Hp IH|p a q r w He Hp IH];
      intros i e e' Ep Er Hi Hek He'k.
    - subst q. apply st_inj in Er; [|exact Hek|exact He'k]. destruct Er as [-> ->].
      exists 0. split; [lia|]. unfold n. rewrite skipn_all. constructor.
    - subst p. destruct (Nat.eq_dec i n) as [->|Hne].
      + apply edge_last in He; [|exact Hek]. destruct He as [_ [_ [[s [Hs _]] _]]]. discriminate.
      + destruct (nth_error_lt ref i) as [c Hc]; [fold n; lia|].
        apply (edge_mid i c e None q Hek Hc) in He.
        destruct He as [[He _]|[Hlt [[_ [[s [Hs _]] _]]|[[Hd [_ Hq]]|[_ [[s [Hs _]] _]]]]]]; try discriminate.
        destruct (IH (S i) (S e) e' Hq Er) as [c' [E1 E2]]; [fold n; lia|lia|exact He'k|].
        exists (S c'). split; [lia|]. rewrite (skipn_nth_error ref i c Hc).
        apply ed_del; assumption.
    - subst p. destruct (Nat.eq_dec i n) as [->|Hne].
      + apply edge_last in He; [|exact Hek]. destruct He as [Hins [Hlt [[s [Hs Hin]] Hq]]].
        inversion Hs; subst s.
        destruct (IH n (S e) e' Hq Er) as [c' [E1 E2]]; [lia|lia|exact He'k|].
        exists (S c'). split; [lia|]. apply ed_ins; assumption.
      + destruct (nth_error_lt ref i) as [c Hc]; [fold n; lia|].
        apply (edge_mid i c e (Some a) q Hek Hc) in He.
        rewrite (skipn_nth_error ref i c Hc).
        destruct He as [[Hac Hq]|[Hlt [[Hins [[s [Hs Hin]] Hq]]|[[_ [Hnone _]]|[Hsub [[s [Hs Hin]] Hq]]]]]].
        * inversion Hac; subst c.
          destruct (IH (S i) e e' Hq Er) as [c' [E1 E2]]; [fold n; lia|exact Hek|exact He'k|].
          exists c'. split; [exact E1|]. apply ed_match. exact E2.
        * inversion Hs; subst s.
          destruct (IH i (S e) e' Hq Er) as [c' [E1 E2]]; [exact Hi|lia|exact He'k|].
          exists (S c'). split; [lia|]. apply ed_ins; [exact Hins|exact Hin|].
          rewrite <- (skipn_nth_error ref i c Hc). exact E2.
        * discriminate.
        * inversion Hs; subst s.
          destruct (IH (S i) (S e) e' Hq Er) as [c' [E1 E2]]; [fold n; lia|lia|exact He'k|].
          exists (S c'). split; [lia|]. apply ed_sub; assumption.
  Qed.

  Lemma edits_path : forall r w c, edits r w c ->
    forall i e, r = skipn i ref -> i <= n -> e + c <= k -> nfa_path m (st i e) w (st n (e + c)).
  Proof.
    intros r w c Hd. induction Hd as [|c0 r w c Hd IH|a r w c Hins Ha Hd IH|c0 r w c Hdel Hd IH|c0 a r w c Hsub Ha Hd IH];
      intros i e Er Hi Hk.
    - symmetry in Er. apply skipn_nil_inv in Er. fold n in Er. assert (i = n) by lia. subst i.
      rewrite Nat.add_0_r. constructor.
    - symmetry in Er. apply skipn_cons_inv in Er. destruct Er as [Hn [Er Hlt]].
      apply (np_sym m (st i e) c0 (st (S i) e)).
      + apply (edge_mid i c0 e (Some c0) _ ltac:(lia) Hn). left. split; reflexivity.
      + apply IH; [exact Er|fold n in Hlt; lia|exact Hk].
    - replace (e + S c) with (S e + c) by lia.
      apply (np_sym m (st i e) a (st i (S e))).
      + destruct (Nat.eq_dec i n) as [->|Hne].
        * apply edge_last; [lia|]. split; [exact Hins|]. split; [lia|]. split; [exists a; split; [reflexivity|exact Ha]|reflexivity].
        * destruct (nth_error_lt ref i) as [c1 Hc]; [fold n; lia|].
          apply (edge_mid i c1 e (Some a) _ ltac:(lia) Hc). right. split; [lia|]. left.
          split; [exact Hins|]. split; [exists a; split; [reflexivity|exact Ha]|reflexivity].
      + apply IH; [exact Er|exact Hi|lia].
    - symmetry in Er. apply skipn_cons_inv in Er. destruct Er as [Hn [Er Hlt]].
      replace (e + S c) with (S e + c) by lia.
      apply (np_eps m (st i e) (st (S i) (S e))).
      + apply (edge_mid i c0 e None _ ltac:(lia) Hn). right. split; [lia|]. right. left.
        split; [exact Hdel|]. split; reflexivity.
      + apply IH; [exact Er|fold n in Hlt; lia|lia].
    - symmetry in Er. apply skipn_cons_inv in Er. destruct Er as [Hn [Er Hlt]].
      replace (e + S c) with (S e + c) by lia.
      apply (np_sym m (st i e) a (st (S i) (S e))).
      + apply (edge_mid i c0 e (Some a) _ ltac:(lia) Hn). right. split; [lia|]. right. right.
        split; [exact Hsub|]. split; [exists a; split; [reflexivity|exact Ha]|reflexivity].
      + apply IH; [exact Er|fold n in Hlt; lia|lia].
  Qed.

  Lemma grid_nfa_lang w : L_nfa m w <-> within syms ins del sub ref w k.
  Proof.
    unfold L_nfa, within. split.
    - intros [q [Hp Hf]]. apply final_iff in Hf. destruct Hf as [e' [He' Hq]].
      destruct (path_edits _ _ _ Hp 0 0 e') as [c [E1 E2]];
        [reflexivity|exact Hq|lia|lia|exact He'|].
      exists c. split; [lia|exact E2].
    - intros [c [Hc Hd]]. exists (st n (0 + c)). split.
      + apply (edits_path ref w c Hd 0 0); [reflexivity|lia|lia].
      + apply final_iff. exists c. split; [exact Hc|reflexivity].
  Qed.
End GridProofs.

(* ---- validity ---- *)
Section GridValid.
  Variable syms : list nat.
  Variable k : nat.
  Variables ins del sub : bool.

  Notation st := (st k).

  Lemma map_st_seq i : map (st i) (seq 0 (S k)) = seq (i * S k) (S k).
  Proof.
    unfold EditNFA.st. rewrite (map_add_seq (i * S k) (S k) 0). f_equal. lia.
  Qed.

  Lemma grid_states_seq : forall n, grid_states k n = seq 0 (S n * S k).
  Proof.
    unfold grid_states. induction n as [|n IH].
    - replace (seq 0 1) with [0] by reflexivity. cbn [flat_map]. rewrite app_nil_r, map_st_seq.
      f_equal; lia.
    - rewrite (seq_S (S n) 0), flat_map_app, IH. cbn [flat_map]. rewrite app_nil_r, map_st_seq.
      replace (S (S n) * S k) with (S n * S k + S k) by lia.
      rewrite seq_app. f_equal.
  Qed.

  Lemma grid_rows_keys : forall ref i,
    map fst (grid_rows syms k ins del sub i ref) = seq (i * S k) (S (length ref) * S k).
  Proof.
    induction ref as [|c ref IH]; intro i; cbn [grid_rows length].
    - rewrite map_map. cbn [fst]. change (fun x : nat => st i x) with (st i).
      rewrite (map_st_seq i). f_equal. lia.
    - rewrite map_app, map_map. cbn [fst]. change (fun x : nat => st i x) with (st i).
      rewrite (map_st_seq i), IH.
      replace (S (S (length ref)) * S k) with (S k + S (length ref) * S k) by lia.
      rewrite seq_app. f_equal. f_equal. lia.
  Qed.

  Definition key_ok (a : option nat) : Prop := match a with Some s => In s syms | None => True end.

  Lemma grid_row_inv n i c e : In c syms -> i < n -> e <= k ->
    row_inv key_ok (fun q => q < S n * S k) (grid_row syms k ins del sub i c e).
  Proof.
    intros Hc Hi He. unfold grid_row.
    assert (H0 : row_inv key_ok (fun q => q < S n * S k) (row_add [] (Some c) (st (S i) e))).
    { apply row_add_inv; [apply row_inv_nil|exact Hc|apply st_bound; lia]. }
    destruct (Nat.ltb e k) eqn:Elt; [|exact H0]. apply Nat.ltb_lt in Elt.
    assert (H1 : row_inv key_ok (fun q => q < S n * S k)
                   (if ins then row_add_any syms (row_add [] (Some c) (st (S i) e)) (st i (S e))
                    else row_add [] (Some c) (st (S i) e))).
    { destruct ins; [|exact H0]. apply row_add_any_inv; [exact H0|intros s Hs; exact Hs|apply st_bound; lia]. }
    set (r1 := if ins then _ else _) in *.
    assert (H2 : row_inv key_ok (fun q => q < S n * S k)
                   (if del then row_add r1 None (st (S i) (S e)) else r1)).
    { destruct del; [|exact H1]. apply row_add_inv; [exact H1|exact I|apply st_bound; lia]. }
    set (r2 := if del then _ else _) in *.
    destruct sub; [|exact H2]. apply row_add_any_inv; [exact H2|intros s Hs; exact Hs|apply st_bound; lia].
  Qed.

  Lemma last_row_inv n e : e <= k ->
    row_inv key_ok (fun q => q < S n * S k) (last_row syms k ins n e).
  Proof.
    intro He. unfold last_row. destruct ins; simpl; [|apply row_inv_nil].
    destruct (Nat.ltb e k) eqn:Elt; [|apply row_inv_nil]. apply Nat.ltb_lt in Elt.
    apply row_add_any_inv; [apply row_inv_nil|intros s Hs; exact Hs|apply st_bound; lia].
  Qed.

  Lemma grid_rows_inv n : forall ref i, (forall c, In c ref -> In c syms) -> i + length ref = n ->
    forall q r, In (q, r) (grid_rows syms k ins del sub i ref) ->
                row_inv key_ok (fun q => q < S n * S k) r.
  Proof.
    induction ref as [|c ref IH]; intros i Hsub Hlen q r Hin; cbn [grid_rows] in Hin.
    - cbn [length] in Hlen. rewrite Nat.add_0_r in Hlen. subst i.
      apply in_map_iff in Hin. destruct Hin as [e [E He]]. inversion E; subst.
      apply last_row_inv. apply in_seq in He. lia.
    - apply in_app_or in Hin. destruct Hin as [Hin|Hin].
      + apply in_map_iff in Hin. destruct Hin as [e [E He]]. inversion E; subst.
        apply grid_row_inv; [apply Hsub; left; reflexivity|cbn [length]; lia|apply in_seq in He; lia].
      + apply (IH (S i)) with (q := q); [intros c' Hc'; apply Hsub; right; exact Hc'|cbn [length] in *; lia|exact Hin].
  Qed.

  Lemma row_inv_ok n (m : nfa) r : n_syms m = syms -> n_states m = seq 0 n ->
    row_inv key_ok (fun q => q < n) r -> nrow_ok m r = true.
  Proof.
    intros Hs Hst Hr. unfold nrow_ok. apply forallb_forall. intros [a ts] Hin.
    destruct (Hr a ts Hin) as [Ha Hts]. simpl. apply andb_true_iff. split.
    - destruct a as [s|]; [|reflexivity]. apply memb_In. rewrite Hs. exact Ha.
    - apply subsetb_incl. intros t Ht. rewrite Hst. apply in_seq. specialize (Hts t Ht). lia.
  Qed.

  Lemma grid_nfa_valid ref : nodupb syms = true -> (forall c, In c ref -> In c syms) ->
    valid_nfa (grid_nfa syms k ins del sub ref) = true.
  Proof.
    intros Hnd Hsub. set (m := grid_nfa syms k ins del sub ref). set (n := length ref).
    assert (Hst : n_states m = seq 0 (S n * S k)) by apply grid_states_seq.
    assert (Hkeys : map fst (n_trans m) = seq 0 (S n * S k)).
    { unfold m, grid_nfa. simpl. rewrite grid_rows_keys. reflexivity. }
    assert (Hpos : 0 < S n * S k) by (simpl; lia).
    unfold valid_nfa. rewrite Hst, Hkeys.
    rewrite !andb_true_iff. split; [split; [split; [split; [split; [split|]|]|]|]|].
    - apply nodupb_NoDup. apply seq_NoDup.
    - exact Hnd.
    - apply nodupb_NoDup. apply seq_NoDup.
    - apply forallb_forall. intros [q r] Hin. simpl.
      apply (row_inv_ok (S n * S k)); [reflexivity|exact Hst|].
      apply (grid_rows_inv n ref 0 Hsub eq_refl q r). exact Hin.
    - apply memb_In. apply in_seq. unfold m, grid_nfa, EditNFA.st. simpl. lia.
    - apply orb_true_iff. left. apply memb_In. apply in_seq. unfold m, grid_nfa, EditNFA.st. simpl. lia.
    - apply subsetb_incl. intros q Hq. change (n_finals m) with (map (st n) (seq 0 (S k))) in Hq.
      apply in_map_iff in Hq. destruct Hq as [e [E He]]. subst q. apply in_seq.
      split; [lia|]. cbn [plus]. apply st_bound; [lia|apply in_seq in He; lia].
  Qed.
End GridValid.

(* ---- the interface ---- *)
Lemma edit_nfa_ok syms ref k ins del sub m :
  edit_nfa syms ref k ins del sub = Ok m ->
  (0 <= k)%Z /\ (ins || del || sub) = true /\ (forall c, In c ref -> In c syms) /\
  m = grid_nfa syms (Z.to_nat k) ins del sub ref.
Proof.
  unfold edit_nfa. destruct (Z.ltb k 0) eqn:Ek; [discriminate|].
  destruct (ins || del || sub) eqn:Ef; simpl; [|discriminate].
  destruct (forallb (fun c => memb c syms) ref) eqn:Er; simpl; [|discriminate].
  intro H. inversion H; subst. apply Z.ltb_ge in Ek.
  split; [exact Ek|]. split; [reflexivity|]. split; [|reflexivity].
  intros c Hc. rewrite forallb_forall in Er. apply memb_In. apply Er. exact Hc.
Qed.

Lemma edit_nfa_total syms ref k ins del sub :
  (0 <= k)%Z -> (ins || del || sub) = true -> (forall c, In c ref -> In c syms) ->
  edit_nfa syms ref k ins del sub = Ok (grid_nfa syms (Z.to_nat k) ins del sub ref).
Proof.
  intros Hk Hf Hr. unfold edit_nfa. apply Z.ltb_ge in Hk. rewrite Hk, Hf. simpl.
  assert (E : forallb (fun c => memb c syms) ref = true).
  { apply forallb_forall. intros c Hc. apply memb_In. apply Hr. exact Hc. }
  rewrite E. reflexivity.
Qed.

Lemma edit_nfa_value_error syms ref k ins del sub :
  edit_nfa syms ref k ins del sub = Err ValueErr <-> ((k < 0)%Z \/ (ins || del || sub) = false).
Proof.
  unfold edit_nfa. destruct (Z.ltb k 0) eqn:Ek.
  - apply Z.ltb_lt in Ek. split; [intro; left; exact Ek|reflexivity].
  - apply Z.ltb_ge in Ek. destruct (ins || del || sub); simpl.
    + destruct (negb (forallb (fun c => memb c syms) ref)); split; try discriminate;
        intros [H|H]; try discriminate; lia.
    + split; [intro; right; reflexivity|reflexivity].
Qed.

(* ---- sanity of the specification relation itself ---- *)
Section EditsSanity.
  Variable syms : list nat.
  Variables ins del sub : bool.
  Notation edits := (edits syms ins del sub).

  (* budget 0 = the reference word itself, whatever kinds are enabled *)
  Lemma edits_zero ref w : edits ref w 0 <-> w = ref.
  Proof.
    split.
    - intro H. remember 0 as c eqn:Ec. induction H as [|c0 r w c H IH| | |]; try discriminate.
      + reflexivity.
      + f_equal. apply IH. exact Ec.
    - intros ->. induction ref as [|c r IH]; constructor. exact IH.
  Qed.

  (* the two words differ in length by at most the cost *)
  Lemma edits_length ref w c : edits ref w c ->
    length ref <= length w + c /\ length w <= length ref + c.
  Proof. induction 1; simpl; lia. Qed.

  (* the cost counts every edit: a word of the alphabet is always within
     max(|ref|,|w|) edits when substitution and one of insertion / deletion ... not needed;
     Hamming case: without insertion and deletion the lengths agree *)
  Lemma edits_hamming ref w c : ins = false -> del = false -> edits ref w c -> length w = length ref.
  Proof.
    intros Hi Hd H. induction H; simpl; try congruence; try lia.
  Qed.

  Lemma within_mono ref w k k' : k <= k' -> within syms ins del sub ref w k -> within syms ins del sub ref w k'.
  Proof. intros Hk [c [Hc H]]. exists c. split; [lia|exact H]. Qed.
End EditsSanity.

(* ---- with all three kinds the relation is the classical Levenshtein distance ---- *)
Section Levenshtein.
  Variable syms : list nat.

  Lemma lev_nil_r r : lev r [] = length r.
  Proof. destruct r; reflexivity. Qed.

  Lemma lev_cons c r a w :
    lev (c :: r) (a :: w) =
    Nat.min (if Nat.eqb c a then lev r w else S (lev r w))
            (Nat.min (S (lev (c :: r) w)) (S (lev r (a :: w)))).
  Proof. reflexivity. Qed.

  Lemma edits_lev_le ins del sub r w c : edits syms ins del sub r w c -> lev r w <= c.
  Proof.
    intro H. induction H as [|c0 r w c H IH|a r w c Hi Ha H IH|c0 r w c Hd H IH|c0 a r w c Hs Ha H IH].
    - simpl. lia.
    - rewrite lev_cons, Nat.eqb_refl. lia.
    - destruct r as [|c1 r]; [simpl in *; lia|]. rewrite lev_cons. destruct (Nat.eqb c1 a); lia.
    - destruct w as [|a w]; [rewrite lev_nil_r in *; simpl; lia|].
      rewrite lev_cons. destruct (Nat.eqb c0 a); lia.
    - rewrite lev_cons. destruct (Nat.eqb c0 a); lia.
  Qed.

  Lemma lev_edits : forall r w, (forall a, In a w -> In a syms) ->
    edits syms true true true r w (lev r w).
  Proof.
    induction r as [|c r IHr].
    - induction w as [|a w IHw]; intro Hw; simpl; [constructor|].
      apply ed_ins; [reflexivity|apply Hw; left; reflexivity|].
      apply IHw. intros b Hb. apply Hw. right. exact Hb.
    - induction w as [|a w IHw]; intro Hw.
      + change (lev (c :: r) []) with (S (length r)). apply ed_del; [reflexivity|].
        rewrite <- (lev_nil_r r). apply IHr. intros b [].
      + assert (Hw' : forall b, In b w -> In b syms) by (intros b Hb; apply Hw; right; exact Hb).
        assert (Ha : In a syms) by (apply Hw; left; reflexivity).
        rewrite lev_cons.
        destruct (Nat.min_dec (if Nat.eqb c a then lev r w else S (lev r w))
                              (Nat.min (S (lev (c :: r) w)) (S (lev r (a :: w))))) as [E|E]; rewrite E.
        * destruct (Nat.eqb c a) eqn:Eca.
          -- apply Nat.eqb_eq in Eca. subst a. apply ed_match. apply IHr. exact Hw'.
          -- apply ed_sub; [reflexivity|exact Ha|]. apply IHr. exact Hw'.
        * destruct (Nat.min_dec (S (lev (c :: r) w)) (S (lev r (a :: w)))) as [E2|E2]; rewrite E2.
          -- apply ed_ins; [reflexivity|exact Ha|]. apply IHw. exact Hw'.
          -- apply ed_del; [reflexivity|]. apply IHr. exact Hw.
  Qed.

  Lemma within_lev ref w k : (forall a, In a w -> In a syms) ->
    (within syms true true true ref w k <-> lev ref w <= k).
  Proof.
    intro Hw. split.
    - intros [c [Hc H]]. apply edits_lev_le in H. lia.
    - intro H. exists (lev ref w). split; [exact H|apply lev_edits; exact Hw].
  Qed.
End Levenshtein.
